import os, sys, hashlib, itertools
from vf import Check, Stream, hexs, VERIF, BUILD, sh, run_exe_on_cases, log

# Property C13.  One case = one history of one Server client created by Server::pair, driven between
# run() calls (and, with `react`, from inside its callbacks) under the simulated kernel
# (harness/serverwrite_kernel.cpp: send / epoll_ctl / epoll_wait interposed).  Op lines:
#   write <hex> <outcome>   write0 <hex> <outcome> (no postponed pointer)   ev <mask> <outcome>   poll <outcome>   tick
#   suspend   resume   read <max>   remove   peerwrite <hex>   peerread   peerclose
#   react <onRead|onWrite|onClosed> <op...>
# outcome of the ONE send the operation may issue: wb | s<k> | full | zero | err   (further send calls of the same operation, if the
# implementation makes any, are answered would-block by the simulated kernel, marked `!unscripted`)
# mask: letters of i(EPOLLIN) o(EPOLLOUT) h(EPOLLHUP) d(EPOLLRDHUP) e(EPOLLERR), or -
# A case whose first line is `@two` / `@three` / `@four` has that many clients A, B, C, D of the same Server: every client
# operation may carry the prefix `A.` .. `D.` (default A), callbacks are `A.onRead` ..., and
#   evs <A:mask,B:mask,..> <outcome>*  is one run() whose single epoll round reports these clients in this order; the
#                                    outcomes answer the send calls of the run in order
#   evsi <A:mask,..> <outcome>*      the same round, the interrupt reported in the SAME epoll batch: the events stay cached, the
#                                    run() returns, the next run() (tick <outcome>*) hands them out
#   react X.onRead <op> & <op>       several operations inside ONE callback invocation


def data(rng, n, kind=0):
    if kind == 0:
        return bytes(rng.randrange(256) for _ in range(n))
    return bytes((i * 7 + kind) & 0xff for i in range(n))


class Seq:
    """distinct byte values in call order, so that loss / duplication / reordering shows in the stream"""
    def __init__(self, start=1):
        self.v = start

    def take(self, n):
        b = bytes(((self.v + i) & 0xff) for i in range(n))
        self.v = (self.v + n) & 0xff
        return b


OUTCOMES_BENIGN = ['wb', 's1', 's2', 's3', 'full']
MASKS = ['-', 'i', 'o', 'h', 'io', 'ih', 'oh', 'ioh', 'd', 'e', 'od', 'id', 'ie', 'oe', 'de', 'iode']


def sent_of(outcome, n):
    """bytes the simulated kernel takes from a send of n bytes; None = failure"""
    if outcome == 'wb':
        return 0
    if outcome in ('zero', 'err'):
        return None
    if outcome == 'full':
        return n if n > 0 else None
    k = max(int(outcome[1:]), 1)
    k = min(k, n)
    return k if k > 0 else None


class Track:
    """what the generator believes about the client (used only to aim the next operation)"""
    def __init__(self):
        self.backlog = 0
        self.susp = False
        self.gone = False

    def write(self, n, outcome):
        if self.backlog > 0:
            self.backlog += n
            return
        s = sent_of(outcome, n)
        if s is None:
            self.gone = True          # closing: the application is told by onClosed
        else:
            self.backlog = n - s

    def ev(self, mask, outcome):
        if self.backlog > 0 and ('o' in mask or ('h' in mask and (self.susp or not ('i' in mask or 'h' in mask)))):
            s = sent_of(outcome, self.backlog)
            if s is None:
                self.backlog = 0
                self.gone = True
            else:
                self.backlog -= s


def aimed_outcome(rng, n, allow_fail=False):
    """an outcome for a send of n bytes aimed at the case splits: refuse / 1 / middle / n-1 / n / more than n"""
    r = rng.random()
    if allow_fail and r < 0.06:
        return rng.choice(['zero', 'err'])
    if r < 0.22:
        return 'wb'
    if r < 0.40:
        return 'full'
    if n <= 1:
        return rng.choice(['s1', 'full', 'wb'])
    pick = rng.choice([1, n - 1, n, n + 1, rng.randrange(1, n + 1), max(1, n // 2)])
    return 's%d' % pick


class C13(Check):
    id = 'C13'
    comp = 'ServerWrite'
    extracted = ['coq/ServerWrite/model.mli', 'coq/ServerWrite/model.ml', 'ocaml/zconv.ml', 'ocaml/serverwrite_driver.ml']
    harness_sources = ['harness/serverwrite.cpp', 'harness/serverwrite_kernel.cpp']
    per_case_timeout = 6
    CRASH_LIMIT = 150           # harness crashes / time-outs per stream after which the rest of the stream is not run
    HANG_BUDGET = 40            # watchdog time-outs per check run after which streams are cut at the first further one
    has_spec = False            # the property oracle is the monitor (judge), not a line-by-line reference observation
    level_text = ('Theorems in Coq about a model of one Server client (ClientImpl::write/read/suspend/resume, the client part of the '
                  'dispatch in Server::Private::run, Poll::set/remove and the epoll event mapping incl. EPOLLRDHUP/EPOLLERR) and about a '
                  'model of ANY NUMBER of clients (a list indexed by nat) sharing the Server\'s Socket::Poll (epoll variant: the cache of '
                  'events collected by one epoll_wait and handed out one per poll() call, pruned by Poll::set/remove wherever the entry '
                  'stands) and its closing-clients set, for EVERY history: the answer of the operating system to every send (would-block, '
                  'any partial count, full, 0, error) and the readiness reported by every poll round (which clients, in which order) are '
                  'inputs of the steps. Proved: bytes handed to the OS ++ backlog = '
                  'concatenation in call order of the writes that returned true; peer bytes ++ bytes in flight = bytes handed to the OS; '
                  'postponed / getSendBufferSize = accepted - handed over; onWrite in a step iff that step hands the whole non-empty '
                  'backlog over (at most one callback per step); every event reporting the client writable offers the backlog to the '
                  'OS whether or not it is also readable, and the backlog drains within |backlog| such events with exactly one onWrite; '
                  'the dispatch rule of the code before fixes/C13/01 starves the backlog forever (theorem with witness); a suspended '
                  'client gets no onRead - for one client and for n clients, i.e. also when its read readiness was already collected '
                  'in the poll round in which another client\'s callback suspends it, at whatever position of the cache (the cache never '
                  'holds an event kind its client is not registered for at that moment); interest set invariant; the one-client model is '
                  'the n-client model restricted to client 0; both models refine exact reference objects (one predicted observation per '
                  'operation); every history of either model is accepted by the PROPERTY MONITOR (ServerWriteMonitor.v), the reading of the '
                  'property text as a set of per-client event traces: (stream) whatever the OS takes is the front of the queue of '
                  'accepted-and-not-yet-handed-over bytes, (size) every reported postponed / getSendBufferSize equals the length of that '
                  'queue (a reported value that is not a number is a contradiction of this clause, not an error of the check), (onWrite) '
                  'only when the queue is empty, once per backlog, and - deadline - when the kernel finds the socket of a drained backlog '
                  'writable the owed onWrite has arrived when the next but one run() ends, (progress) a backlog whose socket the kernel '
                  'finds writable is offered to the OS within two run() calls, (suspended) no onRead between suspend() and resume(), '
                  '(resumed) a client that is not suspended whose socket the kernel finds readable gets onRead within two run() calls '
                  'unless it is suspended meanwhile or the notification served the write side (bytes taken / onWrite), (peer) the peer '
                  'reads exactly what the OS took. In the traces of the theorems the ends of run() calls and the getSendBufferSize probes '
                  'stand ANYWHERE in the history, so the order in which the judge serialises what the harness observed (operations '
                  'executed from inside a callback before the end of that run()) is an instance; for n clients the deadline clauses '
                  'are proved (n_client_history_meets_deadlines) for the histories in which one poll round reports a client at most '
                  'once and a run() ends only where Server::Private::run can return after the interrupt was reported - no collected '
                  'notification left, or directly after the poll round that collected them (interrupt in the same epoll batch). The IMPLEMENTATION IS JUDGED BY THAT '
                  'MONITOR (extracted, run on the ordered event trace observed under a simulated kernel: send/epoll_ctl/epoll_wait '
                  'interposed, peer end of a real socket pair read back; up to four clients of one Server) - not by predicted '
                  'observations: the number and size of send '
                  'calls, the order of callbacks of different clients, onClosed, the return value of write (an '
                  'input: it defines the accepted data) and everything after a send answered with an error/0, a peer close or a remove '
                  '(outside the text\'s quantifier; only the suspended clause stays judged) are left open, as in the text. Separately, the '
                  'models are tied to the code call by call: the extracted models and the ASan/UBSan build run the same histories and return '
                  'values, postponed, getSendBufferSize, isSuspended, callbacks (per client, in order), intercepted send calls, bytes handed '
                  'to the OS per operation and epoll registration masks are compared line by line (a difference there without a monitor '
                  'rejection is reported as no-failing-input-found).')
    level_note = ('partial: the kernel\'s in-order delivery of the bytes it accepted (stream socket semantics) is assumed (the model\'s wire '
                  'is a FIFO; the harness does read the peer end of a real socket pair and compares). The model has any number of '
                  'clients, the harness drives up to four; listeners, '
                  'establishers, timers of the same loop are C14. Write sizes and backlogs are assumed < 2^31 bytes: Socket::send passes '
                  '(int)size to ::send and the model does not narrow (a backlog whose low 32 bits are 0 would be sent as 0 bytes and the '
                  'connection given up). Oracle choices where the text gives no number (all three deadlines are the oracle\'s, the text '
                  'says "once" / "until" without a bound): a run() is one that returns after the kernel reported the interrupt (the harness '
                  'interrupts before every run(); a run() cut short by an event without flags is not counted); onWrite of a drained '
                  'backlog is due two run() calls after the kernel next finds the socket writable (an implementation may notice the '
                  'empty queue only at that report - but an implementation that loses the onWrite when suspend()/resume() is called '
                  'between the drain and that report is rejected: the onWrite never comes); progress and resumed are due two run() calls '
                  'after the kernel found the socket writable / readable (a collected notification may be handed out by the following '
                  'run(), e.g. when the interrupt is reported in the same epoll batch); a readable report served by the write side (bytes '
                  'of the backlog taken, onWrite) starts the resumed clause again instead of failing it (the code delivers onWrite OR '
                  'onRead per notification; the input is reported again, level-triggered); an accepted write of 0 bytes while nothing is '
                  'queued tolerates (does not demand) one onWrite; a write of 0 bytes that the implementation turns into send(fd, p, 0) '
                  'answered 0 is an input like any write that returns false (no fault: the connection stays judged); a send call the '
                  'history has no scripted answer for is answered would-block by '
                  'the simulated kernel and not judged. The deadline clauses (onWrite deadline, progress, resumed) are proved for the '
                  'one-client model with run ends anywhere (one poll event = one poll of a run()) and for the n-client model under '
                  'the hypothesis runs_ok on where a run() ends (ServerWriteMonitor2Proofs.v; that the harness / the driver only '
                  'produce such histories is by construction of Server::run and Poll::poll, not proved: poll() asks the kernel only '
                  'when nothing is cached). Choices where the property text is silent and the '
                  'reference OBJECT / model (not the oracle) follow the code: a write '
                  'of 0 bytes on a connection without backlog issues send(fd, p, 0), whose result 0 is treated as "connection closed" '
                  '(write returns false, onClosed follows) - DESIGN 5 lists this as outside the statements, not patched; a hang-up '
                  '(EPOLLHUP/EPOLLRDHUP) counts as read readiness and, when no read is wanted, as write readiness; EPOLLERR alone '
                  'notifies nobody; an event that delivers onWrite/onClosed does not also deliver onRead (reported again, level-'
                  'triggered); two failures before the next run() owe ONE onClosed, a failure after that onClosed owes another one; '
                  'notifications collected in a poll round keep the parts fixed at collection time, later changes of interest only '
                  'revoke parts (never add). Validated by correspondence only: that Server.cpp/Socket.cpp behave as the models '
                  '(differential, simulated kernel; the order in which a real kernel reports several ready descriptors is an input); '
                  'Buffer internals are C08. Modelled as input: every send result, every epoll readiness report, peer behaviour, order '
                  'of application calls. Would-block is always EAGAIN and a send error always ECONNRESET in the simulated kernel. '
                  'Trusted: Coq kernel, extraction + OCaml driver, harness + interposed kernel.')
    technique = ('Coq proof (invariant + induction over histories + refinement to a reference object + acceptance by the property monitor) ; '
                 'extracted property monitor on the implementation\'s event trace + differential model correspondence under a simulated kernel')
    rule = ('cases = histories of write(size, send outcome; with and without postponed pointer) / poll event(readiness mask over '
            'IN OUT HUP RDHUP ERR, send outcome) / real-epoll poll / tick / suspend / resume / read / peer write, read, close / remove, '
            'also issued from inside callbacks (one or several operations per callback invocation); two-client cases: one epoll round '
            'reporting both clients in either order, the callback '
            'of the first acting on the second (suspend, resume, remove, write, read); three- and four-client cases: one epoll round '
            'reporting all clients in every order (four: 4 orders), the first callback acting on the LAST collected client, a middle one, '
            'or both in either order, also with the interrupt reported in the same epoll batch (events handed out by the next run()); '
            'suspend/resume sequences followed by reports of unread input (resumed clause); exhaustive small scopes: all histories of length '
            '3 (thorough: 4) over 12 (14) representative operations; write size 0..5 x every outcome x second write x every outcome of '
            'the write-ready send; every readiness mask x {backlog, none} x {suspended, not} x outcome; order x pre-state x readiness of '
            'the clients x reaction; random histories (1, 2, 3-4 clients) aimed at partial counts 1, n-1, n, n+1. A case is non-trivial when the '
            'implementation had a backlog at some point (sb>0), or got a poll event while a client was suspended, or gave a connection '
            'up; distinct = distinct op text')
    assumptions = ['stream socket: the kernel delivers the bytes it accepted from send, in order, to the peer (FIFO wire in the model)',
                   'epoll is level-triggered and reports only registered events plus EPOLLHUP/EPOLLERR (kernel_filter in the model, '
                   'the interposed epoll_wait in the harness); one epoll_wait reports a descriptor at most once',
                   'send returns -1/EAGAIN, -1/error, 0, or 1..n (send_ret); a send of 0 bytes returns 0',
                   'every write size and backlog is < 2^31 bytes ((int)size in Socket::send is not modelled)',
                   'callbacks do not re-enter Server::run; every one-client operation calls Poll::set/remove at most once',
                   'the harness reports every send call on a client descriptor, every callback, every reaction, what the kernel finds when '
                   'epoll_wait asks it (socket writable / unread input) and whether a run() ended on the interrupt, in real-time order '
                   '(trace section t= of its lines)']

    def __init__(self):
        Check.__init__(self)
        h = hashlib.sha256(open(os.path.join(VERIF, 'harness', 'serverwrite_kernel.h'), 'rb').read()).hexdigest()[:12]
        self.harness_flags = ['-DSK_HDR_HASH=0x' + h]      # header content takes part in the build key

    @staticmethod
    def field(l, name):
        k = l.find(' ' + name + '=')
        return l[k + len(name) + 2:].split(' ')[0].split('/') if k >= 0 else []

    def run_impl(self, cases, tag='impl'):
        """a tree on which most cases crash or hang: every crash restarts the harness (vf gives up only after 400 per call) and
        every hang costs the watchdog time - stop a stream after CRASH_LIMIT crashes (HANG_BUDGET time-outs per run) and
        report what has been seen; the cases not run are marked `! notrun` (dropped by vf)"""
        res, crashes = [], {}
        step = 200
        hangs = getattr(self, '_hangs', 0)
        for i in range(0, len(cases), step):
            if len(crashes) >= self.CRASH_LIMIT or hangs >= self.HANG_BUDGET:
                res += [['! notrun'] for _ in cases[i:]]
                log('[C13] stream %s: %d harness crashes (%d time-outs so far in this run), %d cases not run' % (tag, len(crashes), hangs, len(cases) - i))
                break
            r, c = run_exe_on_cases(self.exes['impl'], cases[i:i + step], os.path.join(BUILD, self.id, 'run'), tag, is_impl=True,
                                    per_case_timeout=self.per_case_timeout,
                                    env={'ASAN_OPTIONS': 'detect_leaks=0:abort_on_error=0:allocator_may_return_null=1:max_allocation_size_mb=2048:symbolize=0'})
            res += r
            for k, v in c.items():
                crashes[i + k] = v
                if v[0] == 'timeout':
                    hangs += 1
        self._hangs = hangs
        return res, crashes

    def nontrivial(self, case, obs):
        backlog = any(any(v not in ('0', '-') for v in self.field(l, 'sb')) for l in obs)
        susp_ev = any(('1' in self.field(l, 'susp') and l.split(' ')[1].split('.')[-1] in ('ev', 'evs', 'poll'))
                      for l in obs if len(l.split(' ')) > 1)
        gave_up = any('onClosed' in ','.join(self.field(l, 'cb')) for l in obs)
        return backlog or susp_ev or gave_up

    # ---- the property oracle -------------------------------------------------------------------
    # The implementation's observations are turned into the ordered event trace of each client and judged by
    # the extracted monitor of coq/ServerWrite/ServerWriteMonitor.v (`driver monitor`): stream / size / onWrite /
    # suspended / resumed / progress / peer - the clauses of the property text, nothing about the number or size of send
    # calls, the order of callbacks of different clients, or onClosed.  The exact
    # call-by-call predictions (cb=, tx=, sends=, k=) are compared with the extracted MODEL only (correspondence).
    RUN_OPS = ('ev', 'evs', 'evsi', 'poll', 'tick')
    LETTERS = 'ABCD'

    @classmethod
    def split_name(cls, name):
        """'B.write' -> (1, 'write') ; 'write' -> (0, 'write')"""
        if len(name) > 2 and name[1] == '.' and name[0] in cls.LETTERS:
            return cls.LETTERS.index(name[0]), name[2:]
        return 0, name

    @staticmethod
    def parse_line(l):
        secs = l.split(' | ')
        head = secs[0].split(' ')
        f = {'name': head[0], 'dead': head[-1] == 'dead'}
        for t in head[1:]:
            if '=' in t:
                k, v = t.split('=', 1)
                f[k] = v
        for sec in secs[1:]:
            for t in sec.split(' '):
                if '=' in t:
                    k, v = t.split('=', 1)
                    f[k] = v
        f['trace'] = [] if f.get('t', '-') == '-' else f['t'].split(',')
        return f

    def trace_events(self, obs):
        """event lines for `driver monitor` from the observation lines of one case"""
        ev = []
        pending = []                                   # lines of operations executed from inside callbacks, oldest first

        def sizes(f):
            for c, v in enumerate(f.get('sb', '-').split('/')):
                if v != '-':
                    ev.append('sz %d %s' % (c, v))

        def plain(f):
            """an operation that delivers no callbacks (everything but run())"""
            if f['dead']:
                return
            idx, opn = self.split_name(f['name'])
            tx = [('' if x == '-' else x) for x in f.get('tx', '-').split('/')]
            if opn in ('write', 'write0'):
                data, taken = None, ''
                for t in f['trace']:
                    if t[0] == 'W':
                        data = t.split(':', 1)[1]
                    elif t[0] == 'S':
                        c, req, ret, kind = t[1:].split(':')
                        if kind[0] == 't':
                            taken += tx[int(c)][:2 * int(ret)]
                            tx[int(c)] = tx[int(c)][2 * int(ret):]
                        elif kind[0] == 'f':
                            ev.append('f %s' % c)
                        # 'w' (a send refused inside a write call) and 'z' (a request of 0 bytes answered 0) are no events:
                        # the write's return value and postponed count say what was accepted
                if data is None:
                    raise ValueError('write line without W token')
                ev.append('w %d %s %s %s %s' % (idx, data, f['r'], f['n'] if opn == 'write' else '-', taken or '-'))
                sizes(f)
            elif opn in ('suspend', 'resume'):
                ev.append('su %d %d' % (idx, 1 if opn == 'suspend' else 0))
                sizes(f)
            elif opn == 'remove':
                ev.append('f %d' % idx)
            elif opn == 'peerread':
                ev.append('pr %d %s' % (idx, f.get('data', '-')))
                sizes(f)
            elif opn == 'peerclose':
                ev.append('pr %d %s' % (idx, f.get('data', '-')))
                ev.append('f %d' % idx)
            else:                                      # read, peerwrite
                sizes(f)

        for l in obs:
            if l == 'react' or l.startswith('!'):
                continue
            if l.startswith('end '):
                for c, v in enumerate(l.split('data=', 1)[1].split('/')):
                    ev.append('pr %d %s' % (c, v))
                continue
            f = self.parse_line(l)
            if f['trace'][:1] == ['~']:
                pending.append(f)
                continue
            opn = self.split_name(f['name'])[1]
            if opn not in self.RUN_OPS:
                plain(f)
                continue
            if f['dead']:
                continue
            tx = [('' if x == '-' else x) for x in f.get('tx', '-').split('/')]
            ended = False              # the run() returned after the kernel reported the interrupt (token R; X: an event
                                       # without flags ended it while the harness's interrupt was pending - no run end for the monitor)
            for t in f['trace']:
                if t[0] == 'S':
                    c, req, ret, kind = t[1:].split(':')
                    if kind[0] == 't':
                        n = 2 * int(ret)
                        if len(tx[int(c)]) < n:
                            raise ValueError('send trace and tx= disagree')
                        ev.append('h %s %s' % (c, tx[int(c)][:n]))
                        tx[int(c)] = tx[int(c)][n:]
                    elif kind[0] in 'wf':
                        ev.append('%s %s' % ('b' if kind[0] == 'w' else 'f', c))
                elif t[0] == 'O':
                    ev.append('wr %s' % t[1:])
                elif t[0] == 'I':
                    ev.append('rd %s' % t[1:])
                elif t == 'R':
                    ended = True
                elif t[0] == 'C':
                    c, cbn = t[1:].split(':')
                    ev.append('cb %s %s' % (c, cbn))
                elif t == '^':
                    if not pending:
                        raise ValueError('reaction marker without a line')
                    plain(pending.pop(0))
            sizes(f)
            if ended:
                ev.append('re')
        if pending:
            raise ValueError('line of a reaction without its marker')
        return ev

    CLAUSES = {
        'stream': 'bytes handed to the operating system are not the next accepted bytes in call order (lost / duplicated / reordered / from a rejected write)',
        'size': 'reported postponed / send-buffer size differs from accepted bytes not yet handed to the operating system',
        'onWrite': 'onWrite while bytes are still queued, a second time for one backlog, without a backlog, or still missing two run() calls after the kernel found the drained socket writable',
        'suspended': 'onRead delivered to a suspended client',
        'progress': 'a backlog reported writable was not offered to the operating system within two run() calls',
        'peer': 'the peer did not read exactly the bytes handed to the operating system',
        'resumed': 'a client that is not suspended got no onRead within two run() calls although the kernel found unread input on its socket',
    }

    def monitor(self, traces, tag='mon'):
        d = os.path.join(BUILD, self.id, 'run')
        os.makedirs(d, exist_ok=True)
        p = os.path.join(d, tag + '.ops')
        with open(p, 'w') as f:
            for i, t in enumerate(traces):
                f.write('case %d\n' % i)
                for e in (t or []):
                    f.write(e + '\n')
                f.write('end\n')
        rc, out, err = sh([self.exes['model'], 'monitor', p], timeout=900)
        if rc != 0:
            raise RuntimeError('monitor failed: ' + err[-2000:])
        res = {}
        for l in out.split('\n'):
            t = l.split()
            if len(t) >= 3 and t[1] == 'verdict':
                res[int(t[0])] = t[2:]
        return res

    def judge(self, cases, impl_obs, spec_obs):
        fails = []
        traces = []
        for i, o in enumerate(impl_obs):
            try:
                traces.append(self.trace_events(o))
            except (ValueError, KeyError, IndexError) as e:
                traces.append(None)
                if not any(l.startswith('!') for l in o):
                    fails.append((i, 0, '[harness output not well-formed]'.ljust(82, '.') + ' %s' % e))
        ver = self.monitor(traces)
        for i, o in enumerate(impl_obs):
            bad = [l for l in o if l.startswith('!')]
            if bad:
                k = o.index(bad[0])
                fails.append((i, k, ('[implementation stopped: %s]' % bad[0].split(' | ')[0]).ljust(82, '.') +
                              ' after `%s`' % (o[k - 1] if k else '<start>')[:300]))
                continue
            if traces[i] is None:
                continue
            v = ver.get(i)
            if v is None:
                fails.append((i, 0, '[monitor gave no verdict]'.ljust(82, '.')))
            elif v[0] != 'ok' and v[2] == 'malformed':
                fails.append((i, 0, '[harness output not well-formed]'.ljust(82, '.') + ' event #%s of the trace is not readable' % v[1]))
            elif v[0] != 'ok':
                k, clause, c = int(v[1]), v[2], int(v[3])
                ctx = ' ; '.join(e if len(e) < 90 else e[:80] + '…' for e in traces[i][max(0, k - 5):k + 1])
                fails.append((i, k, ('[property clause `%s` contradicted]' % clause).ljust(82, '.') +
                              ' client %s: %s. Rejected event #%d, trace so far: … %s' % (self.LETTERS[c], self.CLAUSES.get(clause, clause), k, ctx)))
        fails.sort(key=lambda x: sum(len(l) for l in cases[x[0]]))
        return fails

    # ---- generators ----------------------------------------------------------------------------
    def gen_write_matrix(self, thorough):
        """exhaustive: first write (size x outcome) ; second write (size x outcome) ; write-ready send outcome"""
        cases = []
        sizes = range(0, 6 if thorough else 5)
        outs = lambda n: ['wb', 'full', 'zero', 'err'] + ['s%d' % k for k in range(1, n + 2)]
        for n1 in sizes:
            for o1 in outs(n1):
                seq = Seq()
                w1 = 'write %s %s' % (hexs(seq.take(n1)), o1)
                s1 = sent_of(o1, n1)
                for n2 in ([0, 2] if not thorough else [0, 1, 3]):
                    d2 = seq.take(n2)
                    for o2 in (['wb', 'full', 's1', 'err'] if not thorough else outs(n2)):
                        rest = (n1 - s1 if s1 is not None else 0)
                        rest2 = rest + n2 if rest > 0 else ((n2 - (sent_of(o2, n2) or 0)) if sent_of(o2, n2) is not None else 0)
                        evs = ['wb', 'full', 'zero', 'err'] + ['s%d' % k for k in sorted(set([1, max(1, rest2 - 1), rest2, rest2 + 1]))]
                        for o3 in (evs if (thorough or n2 == 2) else ['full', 's1']):
                            cases.append([w1, 'write %s %s' % (hexs(d2), o2), 'ev o ' + o3, 'tick', 'ev o full', 'tick', 'tick', 'peerread'])
        return Stream('write-matrix', cases, exhaustive=True,
                      note='write size x send outcome x second write x outcome of the write-ready send (exhaustive in the scope)')

    def gen_mask_matrix(self, thorough):
        """exhaustive: state (backlog? suspended? unread input? peer closed?) x readiness mask x outcome"""
        cases = []
        for backlog in (False, True):
            for susp in (False, True):
                for inbound in (False, True):
                    pre = []
                    if backlog:
                        pre.append('write 0102030405 s2')
                    if inbound:
                        pre.append('peerwrite aabb')
                    if susp:
                        pre.append('suspend')
                    for mask in MASKS:
                        for o in (['wb', 's1', 's2', 's3', 's4', 'full', 'zero', 'err'] if backlog else ['full']):
                            cases.append(pre + ['ev %s %s' % (mask, o), 'ev %s full' % mask, 'tick', 'resume', 'poll full', 'tick', 'tick', 'peerread'])
                            if thorough or mask in ('io', 'ioh', 'o'):
                                cases.append(pre + ['react onRead read 1', 'ev %s %s' % (mask, o), 'poll full', 'poll s1', 'poll full', 'tick', 'tick', 'peerread'])
        return Stream('mask-matrix', cases, exhaustive=True,
                      note='readiness mask x {backlog,none} x {suspended,not} x {unread input,none} x outcome (exhaustive in the scope)')

    def gen_all_short(self, thorough):
        """every history of length L over an alphabet that has one representative per case of the proofs"""
        alpha = ['write 0102 wb', 'write 030405 s1', 'write 06 full', 'ev o s1', 'ev o full', 'ev io s1', 'ev io wb',
                 'suspend', 'resume', 'peerwrite 09', 'poll full', 'ev ih s2']
        if thorough:
            alpha += ['ev o err', 'react onRead read 9']
        L = 4 if thorough else 3
        tail = ['resume', 'ev o full', 'ev o full', 'tick', 'tick', 'peerread']
        cases = [list(c) + tail for c in itertools.product(alpha, repeat=L)]
        return Stream('all-short', cases, exhaustive=True, note='all %d histories of length %d over %d representative operations' % (len(cases), L, len(alpha)))

    def gen_starve(self, rng, thorough):
        """a client that stays readable while it has a backlog: real epoll (poll) and scripted events"""
        cases = []
        for n in range(2, 8 if thorough else 6):
            for k in range(0, n):
                seq = Seq()
                o = 'wb' if k == 0 else 's%d' % k
                w = 'write %s %s' % (hexs(seq.take(n)), o)
                for rounds in (1, 3):
                    # the application does not read: the socket stays readable (level-triggered)
                    cases.append([w, 'peerwrite 99'] + ['poll s1'] * rounds + ['poll full', 'peerread'])
                    cases.append([w, 'peerwrite 99'] + ['ev io s1'] * rounds + ['ev io full', 'peerread'])
                    # the peer keeps sending: every onRead reads everything, the peer sends again
                    ops = [w]
                    for r in range(rounds):
                        ops += ['peerwrite %02x' % (0x80 + r), 'react onRead read 100', 'poll s1']
                    ops += ['peerwrite ff', 'poll full', 'peerread']
                    cases.append(ops)
        return Stream('readable-with-backlog', cases, note='write-readiness must be handled while the client stays readable')

    def gen_histories(self, rng, count, fail_rate, react_rate, name, note):
        cases = []
        for _ in range(count):
            seq = Seq(rng.randrange(256))
            t = Track()
            ops = []
            n_ops = rng.randrange(4, 28)
            big = rng.random() < 0.08
            for _ in range(n_ops):
                r = rng.random()
                if r < 0.30:
                    n = rng.choice([0, 1, 1, 2, 3, 4, 5, 7, 8, 16, 33]) if not big else rng.choice([1, 100, 1000, 5000, 20000])
                    if rng.random() < 0.9 and n == 0:
                        n = 2
                    o = aimed_outcome(rng, n, allow_fail=rng.random() < fail_rate)
                    ops.append('%s %s %s' % ('write0' if rng.random() < 0.3 else 'write', hexs(seq.take(n)), o))
                    t.write(n, o)
                elif r < 0.55:
                    mask = rng.choice(['o', 'o', 'io', 'io', 'i', 'oh', 'ioh', 'h', 'ih', '-', 'd', 'od', 'id', 'e', 'oe', 'ie'])
                    o = aimed_outcome(rng, max(t.backlog, 1), allow_fail=rng.random() < fail_rate)
                    ops.append('ev %s %s' % (mask, o))
                    t.ev(mask, o)
                elif r < 0.63:
                    o = aimed_outcome(rng, max(t.backlog, 1), allow_fail=rng.random() < fail_rate)
                    ops.append('poll ' + o)
                    t.ev('o', o)
                elif r < 0.70:
                    ops.append('suspend'); t.susp = True
                elif r < 0.77:
                    ops.append('resume'); t.susp = False
                elif r < 0.83:
                    ops.append('peerread')
                elif r < 0.88:
                    ops.append('peerwrite ' + hexs(data(rng, rng.randrange(1, 5))))
                elif r < 0.91:
                    ops.append('read %d' % rng.choice([1, 2, 100]))
                elif r < 0.93:
                    ops.append('tick')
                elif r < 0.93 + react_rate:
                    cb = rng.choice(['onRead', 'onWrite', 'onClosed'])
                    inner = rng.choice(['read 100', 'read 1', 'suspend', 'resume', 'write %s %s' % (hexs(seq.take(2)), rng.choice(OUTCOMES_BENIGN)),
                                        'write %s full' % hexs(seq.take(1)), 'remove' if rng.random() < 0.3 else 'read 3', 'tick'])
                    ops.append('react %s %s' % (cb, inner))
                elif rng.random() < fail_rate:
                    ops.append(rng.choice(['peerclose', 'remove']))
                else:
                    ops.append('peerread')
            # drain, let the deadlines of the monitor expire, and let the peer read everything
            ops += ['resume', 'ev o full', 'ev o full', 'tick', 'tick', 'peerread']
            cases.append(ops)
        return Stream(name, cases, note=note)

    def gen_two_round(self, thorough):
        """two clients ready in ONE poll round; the callback of the one notified first changes what the other one
        wants (suspend / resume / remove / new backlog / read) before the other one's collected event is delivered"""
        cases = []
        m_first = ['i', 'io', 'o', 'h'] if thorough else ['i', 'io']
        m_other = ['i', 'io', 'o', 'ih', 'oh', 'd', 'e'] if thorough else ['i', 'io', 'oh']
        for F, O in (('A', 'B'), ('B', 'A')):
            reactions = ['%s.suspend' % O, '%s.resume' % O, '%s.remove' % O, '%s.write 0a0b wb' % O, '%s.write 0c full' % O,
                         '%s.read 9' % O, '%s.suspend' % F, '%s.remove' % F]
            if thorough:
                reactions += ['%s.write 0d err' % O, '%s.peerclose' % O, '%s.read 9' % F]
            for pre_f in ([], ['%s.write 0102 wb' % F]):
                for pre_o in ([], ['%s.write 0304 wb' % O], ['%s.suspend' % O], ['%s.write 0304 wb' % O, '%s.suspend' % O]):
                    for m1 in m_first:
                        for m2 in m_other:
                            for rx in reactions:
                                cases.append(['@two', 'A.peerwrite 11', 'B.peerwrite 22'] + pre_f + pre_o +
                                             ['react %s.onRead %s' % (F, rx), 'react %s.onWrite %s' % (F, rx),
                                              'evs %s:%s,%s:%s s1 full full' % (F, m1, O, m2),
                                              'tick full full', '%s.resume' % O, 'evs A:io,B:io full full', 'tick full full', 'tick', 'A.peerread', 'B.peerread'])
        return Stream('two-clients-one-round', cases, exhaustive=True,
                      note='order x backlog/suspended pre-state x readiness of both x what the first callback does to the other client')

    def gen_two_histories(self, rng, count, fail_rate):
        cases = []
        for _ in range(count):
            seqs = {'A': Seq(rng.randrange(256)), 'B': Seq(rng.randrange(256))}
            tr = {'A': Track(), 'B': Track()}
            ops = ['@two']
            for _ in range(rng.randrange(4, 24)):
                X = rng.choice('AB')
                Y = 'B' if X == 'A' else 'A'
                r = rng.random()
                if r < 0.25:
                    n = rng.choice([1, 2, 3, 5, 8])
                    o = aimed_outcome(rng, n, allow_fail=rng.random() < fail_rate)
                    ops.append('%s.%s %s %s' % (X, 'write0' if rng.random() < 0.2 else 'write', hexs(seqs[X].take(n)), o))
                    tr[X].write(n, o)
                elif r < 0.55:
                    order = [X, Y] if rng.random() < 0.8 else [X]
                    evs = ','.join('%s:%s' % (c, rng.choice(['i', 'o', 'io', 'io', 'io', 'ioh', 'oh', 'h', 'd', 'e', 'id'])) for c in order)
                    outs = [aimed_outcome(rng, max(tr[c].backlog, 1), allow_fail=rng.random() < fail_rate) for c in order] + ['full']
                    ops.append('evs %s %s' % (evs, ' '.join(outs)))
                    for c, o in zip(order, outs):
                        tr[c].backlog = 0 if o in ('full', 'zero', 'err') else tr[c].backlog      # rough aim only
                elif r < 0.63:
                    ops.append('%s.suspend' % X)
                elif r < 0.71:
                    ops.append('%s.resume' % X)
                elif r < 0.79:
                    ops.append('%s.peerwrite %s' % (X, hexs(data(rng, rng.randrange(1, 4)))))
                elif r < 0.83:
                    ops.append('%s.peerread' % X)
                elif r < 0.95:
                    cb = rng.choice(['onRead', 'onRead', 'onWrite', 'onClosed'])
                    inner = rng.choice(['%s.suspend' % Y, '%s.suspend' % Y, '%s.resume' % Y, '%s.read 100' % X, '%s.read 1' % Y,
                                        '%s.write %s %s' % (Y, hexs(seqs[Y].take(2)), rng.choice(OUTCOMES_BENIGN)),
                                        '%s.suspend' % X, '%s.remove' % Y if rng.random() < 0.4 else '%s.read 3' % X])
                    ops.append('react %s.%s %s' % (X, cb, inner))
                elif rng.random() < fail_rate:
                    ops.append(rng.choice(['%s.peerclose' % X, '%s.remove' % X]))
                else:
                    ops.append('tick full full')
            ops += ['tick full full', 'A.resume', 'B.resume', 'evs A:o,B:o full full', 'evs A:o,B:o full full', 'tick', 'tick', 'A.peerread', 'B.peerread']
            cases.append(ops)
        return Stream('two-client-histories', cases, note='random histories of two clients of one Server; callbacks of one client act on the other')

    def gen_multi_round(self, thorough):
        """THREE (thorough: also four) clients ready in ONE poll round: while the callback of the first one runs, the cache of
        collected notifications holds more than one entry; the callback acts on the LAST collected client, on a middle
        one, on both in either order (several operations inside one callback invocation)"""
        cases = []
        for n, cfg in ((3, '@three'), (4, '@four')) if thorough else ((3, '@three'),):
            L = self.LETTERS[:n]
            orders = list(itertools.permutations(L)) if n == 3 else [tuple(L), tuple(reversed(L)), ('B', 'D', 'A', 'C'), ('C', 'A', 'D', 'B')]
            for order in orders:
                F, mid, last = order[0], order[1], order[-1]
                reactions = ['%s.suspend' % last, '%s.remove' % last, '%s.write 0a0b wb' % last, '%s.suspend' % mid,
                             '%s.suspend & %s.suspend' % (last, mid), '%s.suspend & %s.suspend' % (mid, last),
                             '%s.suspend & %s.resume' % (last, last), '%s.remove & %s.suspend' % (mid, last)]
                if thorough:
                    reactions += ['%s.resume & %s.suspend' % (last, last), '%s.read 9 & %s.suspend' % (F, last), '%s.remove & %s.suspend' % (F, last)]
                pres = [[], ['%s.write 0304 wb' % last], ['%s.suspend' % last, '%s.write 0506 wb' % mid]]
                maskss = [['i'] * n, ['io'] * n, ['i', 'e'] + ['i'] * (n - 2), ['io', 'i'] + ['oh'] * (n - 2)]
                for pre in pres:
                    for masks in maskss:
                        for rx in reactions:
                            evs = ','.join('%s:%s' % (c, m) for c, m in zip(order, masks))
                            full = ' full' * n
                            head = [cfg] + ['%s.peerwrite %02x' % (c, 0x11 * (i + 1)) for i, c in enumerate(L)] + pre + \
                                   ['react %s.onRead %s' % (F, rx), 'react %s.onWrite %s' % (F, rx)]
                            tail = ['tick' + full] + ['%s.resume' % c for c in L] + \
                                   ['evs %s%s' % (','.join('%s:io' % c for c in L), full), 'tick' + full, 'tick'] + ['%s.peerread' % c for c in L]
                            cases.append(head + ['evs %s s1%s' % (evs, full)] + tail)
                            if thorough or rx == reactions[0] or masks == maskss[0]:
                                # the interrupt races with the readiness: the batch is handed out by the NEXT run()
                                cases.append(head + ['evsi %s%s' % (evs, full), 'tick s1' + full] + tail)
        return Stream('several-clients-one-round', cases, exhaustive=True,
                      note='three (thorough: four) clients collected in one poll round, every order; the first callback acts on the last / a middle / both collected clients; also with the interrupt in the same epoll batch')

    def gen_multi_histories(self, rng, count, fail_rate):
        cases = []
        for _ in range(count):
            n = rng.choice([3, 3, 4])
            L = self.LETTERS[:n]
            seqs = dict((c, Seq(rng.randrange(256))) for c in L)
            ops = ['@three' if n == 3 else '@four']
            for _ in range(rng.randrange(4, 22)):
                X = rng.choice(L)
                Y = rng.choice([c for c in L if c != X])
                r = rng.random()
                if r < 0.22:
                    k = rng.choice([1, 2, 3, 5, 8])
                    o = aimed_outcome(rng, k, allow_fail=rng.random() < fail_rate)
                    ops.append('%s.%s %s %s' % (X, 'write0' if rng.random() < 0.2 else 'write', hexs(seqs[X].take(k)), o))
                elif r < 0.55:
                    order = list(L)
                    rng.shuffle(order)
                    order = order[:rng.choice([n, n, n - 1, 2])]
                    evs = ','.join('%s:%s' % (c, rng.choice(['i', 'o', 'io', 'io', 'io', 'ioh', 'oh', 'h', 'd', 'e', 'id'])) for c in order)
                    outs = [aimed_outcome(rng, rng.choice([1, 2, 5]), allow_fail=rng.random() < fail_rate) for c in order] + ['full']
                    if rng.random() < 0.15:
                        ops.append('evsi %s %s' % (evs, ' '.join(outs)))      # (events still cached from an earlier round are handed out first)
                        ops.append('tick %s' % ' '.join(outs))
                    else:
                        ops.append('evs %s %s' % (evs, ' '.join(outs)))
                elif r < 0.62:
                    ops.append('%s.suspend' % X)
                elif r < 0.70:
                    ops.append('%s.resume' % X)
                elif r < 0.78:
                    ops.append('%s.peerwrite %s' % (X, hexs(data(rng, rng.randrange(1, 4)))))
                elif r < 0.82:
                    ops.append('%s.peerread' % X)
                elif r < 0.95:
                    cb = rng.choice(['onRead', 'onRead', 'onWrite', 'onClosed'])
                    Z = rng.choice(L)
                    inner = [rng.choice(['%s.suspend' % Y, '%s.suspend' % Z, '%s.resume' % Y, '%s.read 100' % X, '%s.read 1' % Y,
                                         '%s.write %s %s' % (Y, hexs(seqs[Y].take(2)), rng.choice(OUTCOMES_BENIGN)),
                                         '%s.suspend' % X, '%s.remove' % Y if rng.random() < 0.4 else '%s.read 3' % X])
                             for _ in range(rng.choice([1, 1, 2, 3]))]
                    ops.append('react %s.%s %s' % (X, cb, ' & '.join(inner)))
                elif rng.random() < fail_rate:
                    ops.append(rng.choice(['%s.peerclose' % X, '%s.remove' % X]))
                else:
                    ops.append('tick' + ' full' * n)
            full = ' full' * n
            ops += ['tick' + full] + ['%s.resume' % c for c in L] + ['evs %s%s' % (','.join('%s:io' % c for c in L), full)] * 2 + \
                   ['tick', 'tick'] + ['%s.peerread' % c for c in L]
            cases.append(ops)
        return Stream('several-client-histories', cases, note='random histories of three / four clients of one Server; callbacks of one client act on the others, several operations per callback')

    def gen_resumed(self, thorough):
        """read notifications come back after resume(): suspended phase x backlog x what reports the input"""
        cases = []
        for pre in ([], ['write 0102 wb'], ['write 0102 s1']):
            for mid in ([], ['ev i full'], ['ev io full'], ['poll full'], ['peerwrite 0b'], ['suspend', 'resume'], ['react onRead suspend', 'ev i full', 'resume']):
                for rep in (['poll full'], ['ev i full'], ['ev io s1'], ['ev io full'], ['ev id full']):
                    cases.append(pre + ['suspend', 'peerwrite 0a'] + mid + ['resume'] + rep + ['tick', 'tick'] + rep + ['tick', 'tick', 'peerread'])
                    cases.append(pre + ['peerwrite 0a', 'suspend', 'resume', 'suspend', 'resume'] + mid + rep + rep + ['tick', 'tick', 'peerread'])
        for X, Y in (('A', 'B'), ('B', 'A')):
            for rx in ('%s.resume' % Y, '%s.resume & %s.suspend & %s.resume' % (Y, Y, Y), '%s.suspend & %s.resume' % (Y, Y)):
                for m in ('i', 'io'):
                    cases.append(['@two', 'A.peerwrite 11', 'B.peerwrite 22', '%s.suspend' % Y, 'react %s.onRead %s' % (X, rx),
                                  'evs %s:%s,%s:%s full full' % (X, m, Y, m), 'tick full full', 'evs A:i,B:i full full', 'tick', 'tick',
                                  'evs B:i,A:i full full', 'tick', 'tick', 'A.peerread', 'B.peerread'])
        return Stream('resumed', cases, exhaustive=True, note='after resume() a report of unread input leads to onRead (suspend/resume sequences x backlog x kind of report)')

    def gen_boundary(self, rng):
        seq = Seq()
        c = []
        # write returning false, then the closing pass ; zero-length writes
        for o in ('zero', 'err', 'full', 'wb', 's1'):
            c.append(['write - ' + o, 'tick', 'write 01 full', 'peerread'])
            c.append(['write 0102 wb', 'write - ' + o, 'ev o full', 'peerread'])
            c.append(['write 0102 ' + o, 'react onClosed remove', 'tick', 'write 03 full', 'tick'])
        # give-up of the backlog, use after give-up, remove from callbacks
        c.append(['write 010203 s1', 'ev o err', 'write 04 full', 'ev o full', 'peerread', 'remove'])
        c.append(['write 010203 s1', 'ev o zero', 'suspend', 'resume', 'tick', 'remove', 'write 05 full'])
        c.append(['write 010203 s1', 'react onClosed remove', 'ev o err', 'tick', 'peerread'])
        c.append(['write 010203 s1', 'react onWrite remove', 'ev io full', 'tick', 'ev o full'])
        c.append(['write 010203 s1', 'peerwrite 07', 'react onRead remove', 'ev io s1', 'tick', 'ev io full'])
        c.append(['write 010203 wb', 'react onWrite write 0405 wb', 'ev o full', 'ev o s1', 'ev o full', 'peerread'])
        c.append(['write 010203 wb', 'react onWrite write 0405 full', 'react onWrite suspend', 'ev io full', 'ev io full', 'peerread'])
        # suspended clients: no onRead whatever is reported ; hang-up routed to the write part
        c.append(['suspend', 'peerwrite 0a', 'ev i full', 'ev ih full', 'ev ioh full', 'poll full', 'resume', 'react onRead read 9', 'poll full'])
        c.append(['write 0102 wb', 'suspend', 'peerwrite 0a', 'ev ih s1', 'ev h full', 'resume', 'poll full', 'peerread'])
        c.append(['suspend', 'suspend', 'write 0102 wb', 'resume', 'resume', 'ev io full', 'suspend', 'ev io full', 'peerread'])
        # peer closes: end of stream, backlog towards a closed peer
        c.append(['peerclose', 'react onRead read 10', 'poll full', 'react onClosed remove', 'tick', 'write 00 full'])
        c.append(['write 010203 s1', 'peerclose', 'react onRead read 10', 'poll full', 'tick', 'ev oh err', 'tick'])
        c.append(['peerwrite 0a0b0c', 'poll full', 'react onRead read 2', 'poll full', 'suspend', 'poll full', 'resume', 'react onRead read 2', 'poll full', 'poll full'])
        # two failures before the next run(): _closingClients is a set, ONE onClosed
        c.append(['write 01 err', 'write 02 zero', 'tick', 'tick'])
        c.append(['peerclose', 'read 1', 'read 1', 'write 01 err', 'tick', 'tick'])
        c.append(['write 01 err', 'write 02 err', 'react onClosed write 03 err', 'tick', 'tick', 'tick'])
        # write without a postponed pointer: failure path, all-sent path, buffered path, append path
        for o in ('err', 'zero', 'full', 'wb', 's1', 's2'):
            c.append(['write0 0102 ' + o, 'write0 03 ' + o, 'ev o s1', 'tick', 'ev o full', 'peerread'])
        c.append(['write0 - full', 'write0 - wb', 'write0 0102030405 s2', 'write0 06 full', 'ev o full', 'peerread'])
        # half hang-up (EPOLLRDHUP) and error condition (EPOLLERR) alone and combined, per interest set
        for pre in ([], ['write 0102 wb'], ['suspend'], ['write 0102 wb', 'suspend']):
            for m in ('d', 'e', 'de', 'h', 'he', 'id', 'od', 'oe', 'ie'):
                c.append(pre + ['peerwrite 0a', 'ev %s s1' % m, 'ev %s full' % m, 'resume', 'poll full', 'peerread'])
        # large blocks through the real socket pair
        for n, k in ((20000, 1), (20000, 19999), (30000, 16384), (4096, 4095)):
            d = data(rng, n, 3)
            c.append(['write %s s%d' % (hexs(d), k), 'write %s full' % hexs(d[:100]), 'ev o s%d' % (n // 2), 'ev io s1', 'ev o full', 'peerread'])
        return Stream('boundary', c, note='write returning false, zero-length writes, give-up, remove inside callbacks, hang-up, large blocks')

    def streams(self, tier, rng):
        thorough = tier == 'thorough'
        out = [self.gen_write_matrix(thorough), self.gen_mask_matrix(thorough), self.gen_all_short(thorough),
               self.gen_starve(rng, thorough), self.gen_boundary(rng), self.gen_resumed(thorough), self.gen_two_round(thorough),
               self.gen_multi_round(thorough),
               self.gen_two_histories(rng, 4000 if thorough else 1000, 0.3),
               self.gen_multi_histories(rng, 3000 if thorough else 800, 0.3)]
        out.append(self.gen_histories(rng, 8000 if thorough else 2500, 0.0, 0.04, 'benign-histories',
                                      'send outcomes would-block / partial / full only (the property\'s quantifier), partial counts aimed at 1, n-1, n, n+1'))
        out.append(self.gen_histories(rng, 4000 if thorough else 1200, 0.5, 0.05, 'faulty-histories',
                                      'also send errors, 0 returns, peer close, remove, use after give-up'))
        return out


CHECK = C13
