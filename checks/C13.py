import os, sys, hashlib
from vf import Check, Stream, hexs, VERIF


def data(rng, n, kind=0):
    if kind == 0:
        return bytes(rng.randrange(256) for _ in range(n))
    return bytes((i * 7 + kind) & 0xff for i in range(n))


class C13(Check):
    id = 'C13'
    comp = 'ServerWrite'
    extracted = ['coq/ServerWrite/model.mli', 'coq/ServerWrite/model.ml', 'ocaml/zconv.ml', 'ocaml/serverwrite_driver.ml']
    harness_sources = ['harness/serverwrite.cpp', 'harness/serverwrite_kernel.cpp']
    per_case_timeout = 20
    level_text = ''
    level_note = ''
    technique = ''
    rule = ''
    assumptions = []

    def __init__(self):
        Check.__init__(self)
        h = hashlib.sha256(open(os.path.join(VERIF, 'harness', 'serverwrite_kernel.h'), 'rb').read()).hexdigest()[:12]
        self.harness_flags = ['-DSK_HDR_HASH=0x' + h]      # header content takes part in the build key

    def streams(self, tier, rng):
        cases = [
            ['write 010203 full', 'peerread'],
            ['write 0102030405 s2', 'write 0607 full', 'ev o s1', 'ev o full', 'peerread'],
            ['write 0102 wb', 'suspend', 'ev io wb', 'resume', 'ev io full', 'ev o full'],
            ['write 0102 wb', 'ev o err', 'tick', 'remove'],
            ['peerwrite 0a0b0c', 'poll full', 'react onRead read 2', 'poll full', 'suspend', 'poll full', 'resume', 'poll full'],
            ['write - full', 'tick'],
            ['peerclose', 'react onRead read 10', 'poll full', 'react onClosed remove', 'tick', 'write 00 full'],
        ]
        return [Stream('smoke', cases)]


CHECK = C13
