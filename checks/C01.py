import bisect, itertools, re
from vf import Check, Stream, first_diff


def cost_bound(n):
    """2*floor(1.4405*log2(n+2)) with exact integers: h <= 1.4405*log2 m  <=>  2^(10000 h) <= m^14405."""
    m = (n + 2) ** 14405
    h = 0
    while (1 << (10000 * (h + 1))) <= m:
        h += 1
    return 2 * h


_BOUND = {}


def bound(n):
    if n not in _BOUND:
        _BOUND[n] = cost_bound(n)
    return _BOUND[n]


class Sim:
    """Only what the generators need to aim their ops: the sorted multiset of keys present
    (never used as an oracle)."""

    def __init__(self, multi):
        self.multi = multi
        self.keys = []

    def ins(self, k):
        if self.multi or not self.has(k):
            bisect.insort_right(self.keys, k)

    def has(self, k):
        i = bisect.bisect_left(self.keys, k)
        return i < len(self.keys) and self.keys[i] == k

    def remk(self, k):
        if self.has(k):
            del self.keys[bisect.bisect_left(self.keys, k)]

    def remi(self, p):
        if 0 <= p < len(self.keys):
            del self.keys[p]


class Gen:
    def __init__(self, rng, multi, krange, hash_mode=False):
        self.rng, self.multi, self.R = rng, multi, krange
        self.sims = [Sim(multi), Sim(multi)]
        self.cur = 0
        self.ops = ['@' + ('multimap' if multi else 'map') + (' hash' if hash_mode else '')]
        self.v = 0

    @property
    def s(self):
        return self.sims[self.cur]

    def val(self):
        self.v += 1
        return self.v

    def key(self):
        return self.rng.randrange(self.R)

    def ins(self, k):
        self.ops.append('ins %d %d' % (k, self.val()))
        self.s.ins(k)

    def hint(self, p, k):
        self.ops.append('hint %d %d %d' % (p, k, self.val()))
        self.s.ins(k)

    def good_hint(self, k):
        """a position whose neighbour tests succeed: first entry with key > k (or >= k)"""
        ks = self.s.keys
        r = self.rng.random()
        if r < 0.5:
            return bisect.bisect_right(ks, k)
        if r < 0.8:
            return max(0, bisect.bisect_left(ks, k) - 1) if ks else 0
        return bisect.bisect_left(ks, k)

    def remk(self, k):
        self.ops.append('remk %d' % k)
        self.s.remk(k)

    def remi(self, p):
        self.ops.append('remi %d' % p)
        self.s.remi(p)

    def remf(self):
        self.ops.append('remf')
        self.s.remi(0)

    def remb(self):
        self.ops.append('remb')
        self.s.remi(len(self.s.keys) - 1)

    def clear(self):
        self.ops.append('clear')
        self.s.keys = []

    def sel(self, b):
        self.ops.append('sel %d' % b)
        self.cur = b

    def copy(self):
        # operator= / copy construction exist for Map and MultiMap
        self.ops.append(self.rng.choice(['copy', 'copyc']))
        self.s.keys = list(self.sims[1 - self.cur].keys)

    def copy_self(self):
        self.ops.append('copys')

    def bulk(self):
        if self.multi:
            return
        self.ops.append('bulk')
        for k in self.sims[1 - self.cur].keys:
            self.s.ins(k)

    def observe(self, n=1):
        rng = self.rng
        for _ in range(n):
            r = rng.random()
            ks = self.s.keys
            k = rng.choice(ks) if ks and rng.random() < 0.7 else rng.randrange(-1, self.R + 1)
            if r < 0.45:
                self.ops.append('find %d' % k)
            elif r < 0.6:
                self.ops.append('has %d' % k)
            elif r < 0.85:
                self.ops.append('count %d' % k)
            elif r < 0.93:
                self.ops.append('front')
            else:
                self.ops.append('back')

    def find_all(self):
        for k in sorted(set(self.s.keys)):
            self.ops.append('find %d' % k)
            if self.multi:
                self.ops.append('count %d' % k)

    def random_op(self, w_ins=0.4, w_hint=0.15, w_rem=0.3):
        rng = self.rng
        r = rng.random()
        n = len(self.s.keys)
        if r < w_ins:
            self.ins(self.key())
        elif r < w_ins + w_hint:
            k = self.key()
            q = rng.random()
            if q < 0.5:
                p = self.good_hint(k)
            elif q < 0.7:
                p = rng.randrange(n + 2)
            elif q < 0.85:
                p = 0
            else:
                p = n
            self.hint(p, k)
        elif r < w_ins + w_hint + w_rem:
            q = rng.random()
            if q < 0.35:
                self.remk(rng.choice(self.s.keys) if n and rng.random() < 0.8 else self.key())
            elif q < 0.8:
                self.remi(rng.randrange(n + 1) if rng.random() < 0.9 else n // 2)
            elif q < 0.9:
                self.remf()
            else:
                self.remb()
        elif r < 0.97:
            self.observe()
        elif r < 0.985:
            self.clear()
        elif r < 0.993:
            self.sel(1 - self.cur)
        elif r < 0.996:
            self.copy()
        elif r < 0.998:
            self.copy_self()
        else:
            self.bulk()


def profile_case(rng, multi, R, length, profile, hash_mode=False):
    g = Gen(rng, multi, R, hash_mode)
    n_build = max(1, (length * 2) // 3)
    if profile == 'ascending':
        for i in range(n_build):
            g.ins(i % R if multi else i)
            if rng.random() < 0.2:
                g.observe()
    elif profile == 'descending':
        for i in range(n_build):
            g.ins((n_build - i) % R if multi else n_build - i)
            if rng.random() < 0.2:
                g.observe()
    elif profile == 'zigzag':
        lo, hi = 0, n_build
        for i in range(n_build):
            if i % 2 == 0:
                g.ins(lo % R if multi else lo); lo += 1
            else:
                g.ins(hi % R if multi else hi); hi -= 1
            if rng.random() < 0.2:
                g.observe()
    elif profile == 'random':
        for _ in range(length):
            g.random_op()
        g.find_all()
        return g.ops
    elif profile == 'internal':
        for _ in range(n_build):
            g.ins(g.key() if rng.random() < 0.7 else rng.randrange(3 * R))
        # remove nodes that are high in the tree: the median ranks (two-child removals)
        while len(g.ops) < length + 1 and g.s.keys:
            n = len(g.s.keys)
            q = rng.random()
            if q < 0.5:
                g.remi(n // 2)
            elif q < 0.7:
                g.remi(rng.choice([n // 4, (3 * n) // 4, n // 2 + 1, max(0, n // 2 - 1)]))
            elif q < 0.85:
                g.remk(g.s.keys[n // 2])
            else:
                g.observe()
        return g.ops
    elif profile == 'hinted':
        for _ in range(length):
            r = rng.random()
            k = g.key()
            n = len(g.s.keys)
            if r < 0.35:
                g.hint(g.good_hint(k), k)
            elif r < 0.5:
                g.hint(rng.randrange(n + 2), k)
            elif r < 0.6:
                g.hint(0, k)
            elif r < 0.7:
                g.hint(n + rng.randrange(2), k)
            elif r < 0.8:
                g.ins(k)
            elif r < 0.9:
                g.remi(rng.randrange(n + 1))
            else:
                g.observe()
        g.find_all()
        return g.ops
    elif profile == 'bulk':
        # two containers, copy / assign / self-assign in both directions (Map and MultiMap), bulk insert (Map).
        # MultiMap: the source holds runs of equal keys whose values differ (built by plain, hinted and
        # descending inserts, thinned by removals), so a copy that reorders a run is visible.
        def fill():
            m = rng.randrange(0, n_build // 2 + 1)
            if multi:
                ks = [rng.randrange(R) for _ in range(rng.randrange(1, 5))]
                for _ in range(m):
                    q = rng.random()
                    k = rng.choice(ks) if q < 0.75 else g.key()
                    if q < 0.55:
                        g.ins(k)
                    elif q < 0.8:
                        g.hint(g.good_hint(k), k)
                    elif g.s.keys:
                        g.remi(rng.randrange(len(g.s.keys)))
            else:
                for _ in range(m):
                    g.ins(g.key() if rng.random() < 0.5 else rng.randrange(4 * R))
        fill()
        g.sel(1)
        fill()
        for _ in range(max(1, length // 10)):
            r = rng.random()
            if r < (0.1 if multi else 0.3):
                g.bulk()
            elif r < 0.5:
                g.copy()
                if rng.random() < 0.5:
                    g.find_all()
            elif r < 0.55:
                g.copy_self()
            elif r < 0.7:
                g.sel(1 - g.cur)
            elif r < 0.85:
                g.random_op()
            else:
                g.observe()
        g.find_all()
        return g.ops
    elif profile == 'equal':
        # runs of equal keys (MultiMap): count / find / remove by key around rotations; key 0 included
        ks = [rng.randrange(min(R, 4)) for _ in range(rng.randrange(1, 4))]
        for _ in range(length):
            r = rng.random()
            k = rng.choice(ks)
            if r < 0.5:
                g.ins(k)
            elif r < 0.6:
                g.hint(g.good_hint(k), k)
            elif r < 0.7:
                g.remk(k)
            elif r < 0.8:
                g.ops.append('count %d' % k)
            elif r < 0.9:
                g.ops.append('find %d' % k)
            else:
                g.remi(rng.randrange(len(g.s.keys) + 1))
        g.find_all()
        return g.ops
    # tail of the build profiles: queries then removals from the inside out
    g.find_all()
    while len(g.ops) < length + 1 and g.s.keys:
        n = len(g.s.keys)
        q = rng.random()
        if q < 0.4:
            g.remi(rng.randrange(n))
        elif q < 0.6:
            g.remk(rng.choice(g.s.keys))
        elif q < 0.7:
            g.remf()
        elif q < 0.8:
            g.remb()
        else:
            g.observe()
    return g.ops



def reset_hint_cases(thorough):
    """A state-resetting operation immediately followed by each kind of hinted insert.
    reset  = clear / copy or assign from an empty container (Map) / removing every entry one by one
             (front, back, by key, by iterator) / removing only the last, only the first entry
    hint   = begin, end, one past end, middle (ranks in the container as it is after the reset)
    key    = below / equal to / between / equal to / above the extremes held before the reset
    Aimed at the sentinel bookkeeping (_begin, endItem.prev, root) the hinted insert reads first:
    c_insert_hint's `position == end()` branch and its `prev`/`next` look-ups."""
    cases = []
    bases = [[10, 20, 30, 40, 50], [10]] + ([[10, 20, 30], [10, 10, 20, 20]] if thorough else [])
    for fl in ('map', 'multimap'):
        resets = ['clear', 'drain_front', 'drain_back', 'drain_key', 'drain_iter', 'remb', 'remf', 'remi_last', 'remk_max']
        resets += ['copy', 'copyc']
        if fl == 'map':
            resets += ['clear_bulk']
        for base in bases:
            if fl == 'map' and len(set(base)) != len(base):
                continue
            lo, hi = min(base), max(base)
            for rs in resets:
                pre = ['@' + fl] + ['ins %d %d' % (k, i + 1) for i, k in enumerate(base)]
                left = sorted(base)
                if rs == 'clear':
                    pre.append('clear'); left = []
                elif rs in ('copy', 'copyc'):
                    pre.append(rs); left = []
                elif rs == 'clear_bulk':
                    pre += ['clear', 'bulk']; left = []
                elif rs == 'drain_front':
                    pre += ['remf'] * len(base); left = []
                elif rs == 'drain_back':
                    pre += ['remb'] * len(base); left = []
                elif rs == 'drain_key':
                    pre += ['remk %d' % k for k in reversed(sorted(base))]; left = []
                elif rs == 'drain_iter':
                    pre += ['remi %d' % (len(base) - 1 - i) for i in range(len(base))]; left = []
                elif rs == 'remb':
                    pre.append('remb'); left = left[:-1]
                elif rs == 'remf':
                    pre.append('remf'); left = left[1:]
                elif rs == 'remi_last':
                    pre.append('remi %d' % (len(base) - 1)); left = left[:-1]
                elif rs == 'remk_max':
                    pre.append('remk %d' % hi); left = left[:-1] if fl == 'map' else [k for k in left if k != hi] + [hi] * (left.count(hi) - 1)
                n = len(left)
                for hp in sorted({0, n, n + 1, n // 2}):
                    for k in sorted({lo - 5, lo, lo + 5, hi, hi + 5}):
                        ops = list(pre)
                        ops.append('hint %d %d 100' % (hp, k))
                        ops += ['find %d' % k, 'count %d' % k, 'front', 'back',
                                'hint %d %d 101' % (n + 1, k + 1), 'hint 0 %d 102' % (lo - 6), 'ins %d 103' % (hi + 7),
                                'find %d' % (k + 1), 'count %d' % (lo - 6), 'remb', 'remf', 'back', 'front']
                        cases.append(ops)
    return cases


def drain_case(rng, multi, N, pattern, how):
    """Fill ascending 1..N, then remove many keys from one side; finds of every remaining key at
    check points.  Removals from the shorter side leave a node's height unchanged while its slope
    reaches +-2: the branch of the removal loop where re-balancing (rebal_shrink_l/_r in the proofs)
    is needed although the height did not change.  Depth and comparison count are the oracle."""
    g = Gen(rng, multi, N + 2)
    for i in range(1, N + 1):
        g.ins(i // 2 if (multi and pattern == 'dups') else i)
    if pattern in ('median', 'quartiles'):
        # two-child removals high in the tree: the successor/predecessor is unlinked deep below
        # the removed node and every node on the way back up must be re-balanced (pop_min/pop_max)
        j = 0
        while len(g.s.keys) > max(3, N // 8):
            n = len(g.s.keys)
            if pattern == 'median':
                r = n // 2
            else:
                r = (n // 4, (3 * n) // 4, n // 2)[j % 3]
            if how == 'key':
                g.remk(g.s.keys[r])
            else:
                g.remi(r)
            j += 1
            if j % max(1, N // 6) == 0:
                g.find_all()
        g.find_all()
        return g.ops
    keys = lambda: list(g.s.keys)
    def keep(k):
        if pattern == 'pow2':
            return k & (k - 1) == 0
        if pattern == 'every8':
            return k % 8 == 0
        return False
    if pattern in ('pow2', 'every8'):
        victims = [k for k in reversed(sorted(set(keys()))) if not keep(k)]          # from the back
    elif pattern == 'pow2_front':
        top = max(keys())
        victims = [k for k in sorted(set(keys())) if (top + 1 - k) & (top - k) != 0]  # from the front, mirrored
    elif pattern == 'front':
        ks = sorted(set(keys())); victims = ks[:(len(ks) * 7) // 8]
    elif pattern == 'back':
        ks = sorted(set(keys())); victims = list(reversed(ks[len(ks) // 8:]))
    else:  # dups
        ks = sorted(set(keys())); victims = [k for k in reversed(ks) if k % 4 != 0]
    step = max(1, len(victims) // 4)
    for j, k in enumerate(victims):
        if how == 'key':
            g.remk(k)
        elif how == 'iter':
            ks = g.s.keys
            g.remi(bisect.bisect_left(ks, k))
        else:  # removeFront / removeBack where the victim is the extreme, else iterator
            ks = g.s.keys
            if ks and ks[0] == k:
                g.remf()
            elif ks and ks[-1] == k:
                g.remb()
            else:
                g.remi(bisect.bisect_left(ks, k))
        if (j + 1) % step == 0:
            g.find_all()
    g.find_all()
    return g.ops


def tree_depth(tokens):
    """real depth of the tree printed in preorder (`.` = empty)"""
    pos = 0
    best = 0
    stack = [0]          # depth of the node whose subtree is being read
    # iterative preorder parse: each node token is followed by its left and right subtrees
    pending = [1]        # number of subtrees still to read at each level
    depth = 0
    for t in tokens:
        while pending and pending[-1] == 0:
            pending.pop(); depth -= 1
        if not pending:
            break
        pending[-1] -= 1
        if t != '.':
            depth += 1
            best = max(best, depth)
            pending.append(2)
    return best

PROFILES = ['ascending', 'descending', 'zigzag', 'random', 'internal', 'hinted', 'bulk', 'equal']
MUT = ('ins', 'hint', 'hintc', 'remk', 'remi', 'remf', 'remb', 'copy', 'copyc', 'bulk')


class C01(Check):
    id = 'C01'
    comp = 'Avl'
    extracted = ['coq/Avl/model.mli', 'coq/Avl/model.ml', 'ocaml/zconv.ml', 'ocaml/avl_driver.ml']
    harness_sources = ['harness/avl.cpp']
    per_case_timeout = 5
    level_text = ('Theorems in Coq (coq/Avl, 31 in Properties_C01.v), for every history of insert (plain and hinted), remove by key / '
                  'iterator, removeFront/removeBack, clear, copy construction / operator= / self-assignment (Map and MultiMap), '
                  'Map::insert(other), find/contains/count/front/back on two containers. NODE LEVEL: '
                  'the AVL invariant of the model (stored height = real height, sibling heights differ by at most 1, in-order sequence '
                  'sorted - strict for Map, non-strict for MultiMap -, size counter = number of nodes) holds initially and is preserved '
                  'by every operation; every operation refines the reference sorted (multi)map (contents, size, find/contains, count, '
                  'front/back, returned iterator; a plain MultiMap insert lands after all keys <= k; a copy holds the source\'s keys and '
                  'values in the source\'s order - runs of equal keys of a MultiMap included - as new entries and leaves the source '
                  'untouched; remove(key) removes exactly the first entry of the run of equal keys; the position a hinted MultiMap '
                  'insert chooses passes the reference\'s order test in every reachable state, so the reference never rejects); find makes at most 2*floor(1.4405*log2(n+2)) comparisons (integer '
                  'form without axioms via fib(h+2) <= n+1 and 1.61803^121 >= 2^84; real-number form with ln/Int_part). '
                  'POINTER LEVEL (AvlHeap*.v): a machine on a heap of Items (slot -> key, value, parent, left, right, height, slope, prev, next) '
                  'plus root, _begin, endItem.prev, _size performs the individual field writes of the C++ in the C++\'s order: '
                  'descending insert from any cell (plain and the four hinted entries), list threading, the upward loop with its '
                  '"height unchanged -> break", rebal/shiftl/shiftr/rotl/rotr/updateHeightAndSlope, remove(Iterator) with the leaf / '
                  'one-child / two-children cases (neighbour chosen by the stored heights, direct child or deeper, every re-linking write), '
                  'the rebalParent loop with its jump to *cell, rebalParentUpwards, list un-threading, find (both flavours), clear, the '
                  'copy and insert(other) loops. Proved for every history (cell_machine_refines_tree, cell_machine_never_faults): the '
                  'machine never dereferences null nor exhausts a loop bound, and after every operation its cells satisfy Rep with the '
                  'node-level tree; under Rep (threaded_list_is_inorder, parent_links_consistent): the next chain from _begin and the '
                  'prev chain from endItem.prev are exactly the in-order sequence, endItem.prev is the maximum, _size the node count, every '
                  'Item\'s parent/left/right are the Item above / the subtree roots, children point back, height = stored height, slope = '
                  'height(left) - height(right); early_exit_is_sound: stopping when the height did not change yields the tree that '
                  're-balancing up to the root yields (used in the loop theorems upward_loop_computes_rebuild and '
                  'rebal_parent_loop_computes_rebuild). The models are '
                  'tied to the code by running the extracted node-level model, the extracted cell machine, the extracted reference and '
                  'the ASan/UBSan build of the working tree on the same histories: results, iteration, tree shape with stored heights and, '
                  'slot by slot, the raw fields key/value/parent/left/right/height/slope/prev/next of every live Item plus root, _begin, '
                  'endItem.prev, _size (read through an access override) are compared after every operation (of both containers after '
                  'copy / assignment / insert(other)), plus the comparison counter of every find; the const overloads of front/back and '
                  'of the iterator ++/--/*/-> are cross-checked against the non-const ones.')
    level_note = ('The theorems are about the models; the tie to the code is differential. Since round 3 the pointer level is proved, '
                  'not only compared: the cell machine (field writes in the code\'s order, early exits included) refines the node-level '
                  'model for all histories, and the node-level model refines the reference. Still validated by correspondence only: '
                  'that the cell machine\'s writes are the C++\'s (raw field dump of every live Item after every operation); the free '
                  'list / block allocator (a slot of the machine is the allocation number and is never reused - the harness renames '
                  'addresses to allocation numbers - so address reuse after remove/clear is not modelled), destructor calls, '
                  'endItem.parent / endItem.next (never accessed after construction), the removed Item\'s own fields. The public '
                  'results (returned iterators, find/count/front/back) are those of the node-level model; at the pointer level the '
                  'returned Item of insert and the `item->next` of remove are proved to be the slots at the node-level ranks. The cell '
                  'heap is kept as two maps (tree fields, list fields; structure of arrays), so the relative order of a tree write and a '
                  'list write inside one operation is not represented (they touch disjoint fields). '
                  'Copy construction and operator= (Map and MultiMap) are modelled as sequential plain inserts of '
                  'the source\'s entries in iteration order, Map::insert(other) as plain + hinted inserts, as the code does; MultiMap '
                  'has no insert(other) (the op is a no-op there); insert(other) of a Map into itself is not driven. The new entries '
                  'of a copy are numbered by the harness in iteration order (the values, which differ inside every generated run of '
                  'equal keys, show the order of a run). Choices where the property text is silent: MultiMap::remove(key) removes one '
                  'entry, the first of the run of equal keys (theorem remove_key_removes_first_of_run), as the code does; the place of '
                  'a hinted MultiMap insert inside a run of equal keys is an input of the reference, which only checks that the order '
                  'is kept. find_cost_logarithmic_real depends on the axioms of Coq\'s classical real numbers; the other 30 theorems are '
                  'closed under the global context. Trusted: Coq kernel, AvlSpec.v as the reading of the property text, extraction, '
                  'OCaml driver (it re-tabulates the extracted heap closures after every operation), harness, comparison-counting key type.')
    technique = 'Coq proof about two executable Gallina models (node level: invariant + refinement + cost bound; pointer level: cell machine refines the node level via a representation relation); extracted models and reference run against the sanitizer build of the code on generated histories, raw Item fields compared'
    rule = ('cases = operation histories on two Map or two MultiMap objects: boundary (empty, single entry, key 0, negatives, '
            'equal keys, copy/assign/self-assign over empty and non-empty targets), build profiles (ascending/descending/zigzag/'
            'random/internal two-child removals/hinted/copy+assign+self-assign (both flavours, MultiMap sources with runs of equal '
            'keys built by plain and hinted inserts) and insert(other) (Map)/equal-key runs) over key ranges 4..200 and lengths 3..300, a small exhaustive scope of {reset op} x {hint position} x {key vs old '
            'extremes} (448 cases quick, 908 thorough), every tree shape of 5 (quick) / 4..6 (thorough) keys x every removal rank followed by plain/hinted inserts and removals, and fill-then-drain histories (one side, all but powers of two, repeated median/quartile removals) up to 60 (quick) / 255 (thorough) entries; oracles: reference results line by line (hinted MultiMap positions checked relationally), comparison count and real tree depth against 2*floor(1.4405*log2(n+2)); a case is '
            'non-trivial when it has at least 3 mutating operations and reaches at least 3 entries; distinct = distinct op text')
    assumptions = ['keys and values are int (the code is a template; the harness instantiates a comparison-counting int key)',
                   'the allocator succeeds (no out-of-memory path is modelled)',
                   'Coq classical real-number axioms for find_cost_logarithmic_real only (sig_forall_dec, sig_not_dec, functional_extensionality_dep, classic)']

    def nontrivial(self, case, obs):
        muts = sum(1 for l in case if l.split(' ', 1)[0] in MUT)
        mx = 0
        for l in obs:
            p = l.split(' | ')
            if len(p) >= 2:
                try:
                    mx = max(mx, int(p[1].split(' ')[0]))
                except ValueError:
                    pass
        return muts >= 3 and mx >= 3

    def relational(self, cases, impl_obs, spec_obs):
        """The place a hinted MultiMap insert takes inside a run of equal keys is not fixed by the
        property (it depends on the tree shape).  The reference takes that position as an input and
        checks it.  Where the implementation chose another position than the model, re-run the
        reference with the implementation's choice (`hintc p k v r`): a position that breaks the
        order is rejected (`!bad-choice`), a legitimate one is followed from then on."""
        spec_obs = [list(s) for s in spec_obs]
        cur = [list(c) for c in cases]
        pending = list(range(len(cases)))
        for _ in range(1000):
            redo = []
            for i in pending:
                c = cur[i]
                if not c or not c[0].startswith('@') or 'multimap' not in c[0][1:].split():
                    continue
                k = first_diff(spec_obs[i], impl_obs[i])
                ops = c[1:]
                if k is None or k >= len(ops) or k >= len(impl_obs[i]):
                    continue
                t = ops[k].split()
                m = re.match(r'^@(\d+):', impl_obs[i][k])
                if t[0] not in ('hint', 'hintc') or not m or (t[0] == 'hintc' and t[4] == m.group(1)):
                    continue
                ops[k] = 'hintc %s %s %s %s' % (t[1], t[2], t[3], m.group(1))
                cur[i] = [c[0]] + ops
                redo.append(i)
            if not redo:
                break
            res = self.run_spec([cur[i] for i in redo], tag='rel_spec')
            for i, s in zip(redo, res):
                spec_obs[i] = s
            pending = redo
        return spec_obs

    def judge(self, cases, impl_obs, spec_obs):
        spec_obs = self.relational(cases, impl_obs, spec_obs)
        fails = Check.judge(self, cases, impl_obs, spec_obs)
        seen = {i for (i, _, _) in fails}
        # the cost clause: comparisons of a find <= 2*floor(1.4405*log2(n+2))
        for i, obs in enumerate(impl_obs):
            if i in seen:
                continue
            for k, l in enumerate(obs):
                m = re.match(r'^\S+ c=(\d+) \| (\d+) ', l)
                if not m:
                    continue
                n = int(m.group(2))
                if int(m.group(1)) > bound(n):
                    fails.append((i, k, 'find made %s key comparisons among %s entries, bound is %d' % (m.group(1), n, bound(n))))
                    break
                # "logarithmically deep": the real depth of the Item tree (read from the L-int dump,
                # not from the stored height fields) obeys the same bound (theorem height_logarithmic)
                secs = l.split(' | ')
                if len(secs) >= 3 and not secs[2].startswith('#'):
                    d = tree_depth(secs[2].split(' ')[0].split(','))
                    if 2 * d > bound(n):
                        fails.append((i, k, 'tree of %d entries is %d levels deep, bound is %d' % (n, d, bound(n) // 2)))
                        break
        return fails

    def streams(self, tier, rng):
        thorough = tier == 'thorough'
        out = []
        # boundary stream: empty containers, single entries, key 0 (the sentinel's default key), negatives
        cases = []
        for fl in ('map', 'multimap'):
            cases.append(['@' + fl, 'find 0', 'has 0', 'count 0', 'front', 'back', 'remf', 'remb', 'remk 0', 'remi 0', 'clear', 'hint 0 0 1', 'count 0', 'find 0', 'remb', 'count 0'])
            cases.append(['@' + fl, 'ins 0 1', 'count 0', 'find 0', 'count 1', 'remk 0', 'count 0'])
            cases.append(['@' + fl, 'ins -5 1', 'ins -7 2', 'ins 0 3', 'ins -6 4', 'count 0', 'count -6', 'find -7', 'hint 9 -8 5', 'hint 0 -9 6', 'back', 'front'])
            cases.append(['@' + fl, 'ins 5 1', 'ins 5 2', 'ins 5 3', 'count 5', 'find 5', 'remk 5', 'count 5', 'find 5'])
            cases.append(['@' + fl, 'sel 1', 'ins 1 1', 'sel 0', 'copy', 'bulk', 'copyc', 'sel 1', 'bulk', 'bulk', 'copy', 'clear', 'sel 0', 'copy'])
            cases.append(['@' + fl, 'copys', 'ins 2 1', 'copys', 'ins 1 2', 'ins 3 3', 'copys', 'find 2', 'sel 1', 'copys', 'copy', 'copys', 'remf', 'sel 0', 'copyc', 'copys', 'back'])
            # copy / assign over a non-empty target, then keep using both objects
            cases.append(['@' + fl, 'ins 4 1', 'ins 2 2', 'ins 6 3', 'sel 1', 'ins 9 4', 'ins 8 5', 'ins 7 6', 'ins 1 7', 'copy', 'ins 5 8', 'remk 2',
                          'sel 0', 'find 2', 'count 4', 'copyc', 'hint 0 0 9', 'sel 1', 'back', 'front', 'remb', 'sel 0', 'back'])
        # MultiMap copies keep the order inside runs of equal keys (values tell the entries apart)
        cases.append(['@multimap', 'ins 5 1', 'ins 5 2', 'ins 5 3', 'sel 1', 'copy', 'find 5', 'count 5', 'front', 'back', 'remk 5', 'front', 'sel 0', 'copyc', 'front', 'count 5'])
        cases.append(['@multimap', 'ins 3 1', 'ins 5 2', 'ins 3 3', 'ins 5 4', 'hint 0 3 5', 'hint 9 5 6', 'ins 4 7', 'ins 3 8', 'sel 1', 'ins 3 9', 'copyc',
                      'count 3', 'find 3', 'find 5', 'remk 3', 'find 3', 'sel 0', 'copy', 'count 3', 'find 3', 'remf', 'remb', 'sel 1', 'copy', 'back'])
        out.append(Stream('boundary', cases))
        # profile streams
        reps = 20 if thorough else 2
        for prof in PROFILES:
            cases = []
            for multi in (False, True):
                if prof == 'equal' and not multi:
                    continue
                for R in (4, 8, 30, 200):
                    for length in ([1, 2, 3, 5, 8, 13, 21, 40, 80, 150, 300] if thorough else [3, 7, 12, 25, 60, 140, 300]):
                        for _ in range(reps if length < 100 else max(1, reps // 2)):
                            cases.append(profile_case(rng, multi, R, length, prof))
            out.append(Stream(prof, cases))
        # reset followed by hinted insert (small exhaustive scope)
        out.append(Stream('reset_hint', reset_hint_cases(thorough)))
        # every tree shape of n keys (all insertion orders), every removal rank, then a few more operations:
        # the case split of remove() at the pointer level (leaf / one child / successor or predecessor as direct
        # child or deeper) in every small configuration, with the raw cells compared after each step
        cases = []
        for fl in ('map', 'multimap'):
            for n in ((4, 5, 6) if thorough else (5,)):
                for perm in itertools.permutations(range(1, n + 1)):
                    if fl == 'multimap' and n > 4 and perm[0] > 2:
                        continue
                    pre = ['@' + fl] + ['ins %d %d' % (10 * k, i + 1) for i, k in enumerate(perm)]
                    for r in range(n):
                        cases.append(pre + ['remi %d' % r, 'ins 5 90', 'hint %d 35 91' % (n // 2), 'remb', 'remf', 'remi 1'])
        out.append(Stream('shapes', cases))
        # fill ascending, drain one side: balance is the only thing at stake
        cases = []
        for multi in (False, True):
            for N in ([15, 31, 63, 100, 127, 200, 255] if thorough else [15, 31, 60]):
                for pattern in ('pow2', 'pow2_front', 'every8', 'front', 'back', 'median', 'quartiles') + (('dups',) if multi else ()):
                    for how in (('key', 'iter', 'ends') if (thorough or N <= 31) else (rng.choice(['key', 'iter', 'ends']),)):
                        cases.append(drain_case(rng, multi, N, pattern, how))
        out.append(Stream('drain', cases))
        return out


CHECK = C01
