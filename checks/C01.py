import bisect, itertools, re
from vf import Check, Stream


def cost_bound(n):
    """2*floor(1.4405*log2(n+2)) with exact integers: h <= 1.4405*log2 m  <=>  2^(10000 h) <= m^14405."""
    m = (n + 2) ** 14405
    h = 0
    while (1 << (10000 * (h + 1))) <= m:
        h += 1
    return 2 * h


_BOUND = {}


def bound(n):
    if n not in _BOUND:
        _BOUND[n] = cost_bound(n)
    return _BOUND[n]


class Sim:
    """Only what the generators need to aim their ops: the sorted multiset of keys present
    (never used as an oracle)."""

    def __init__(self, multi):
        self.multi = multi
        self.keys = []

    def ins(self, k):
        if self.multi or not self.has(k):
            bisect.insort_right(self.keys, k)

    def has(self, k):
        i = bisect.bisect_left(self.keys, k)
        return i < len(self.keys) and self.keys[i] == k

    def remk(self, k):
        if self.has(k):
            del self.keys[bisect.bisect_left(self.keys, k)]

    def remi(self, p):
        if 0 <= p < len(self.keys):
            del self.keys[p]


class Gen:
    def __init__(self, rng, multi, krange, hash_mode=False):
        self.rng, self.multi, self.R = rng, multi, krange
        self.sims = [Sim(multi), Sim(multi)]
        self.cur = 0
        self.ops = ['@' + ('multimap' if multi else 'map') + (' hash' if hash_mode else '')]
        self.v = 0

    @property
    def s(self):
        return self.sims[self.cur]

    def val(self):
        self.v += 1
        return self.v

    def key(self):
        return self.rng.randrange(self.R)

    def ins(self, k):
        self.ops.append('ins %d %d' % (k, self.val()))
        self.s.ins(k)

    def hint(self, p, k):
        self.ops.append('hint %d %d %d' % (p, k, self.val()))
        self.s.ins(k)

    def good_hint(self, k):
        """a position whose neighbour tests succeed: first entry with key > k (or >= k)"""
        ks = self.s.keys
        r = self.rng.random()
        if r < 0.5:
            return bisect.bisect_right(ks, k)
        if r < 0.8:
            return max(0, bisect.bisect_left(ks, k) - 1) if ks else 0
        return bisect.bisect_left(ks, k)

    def remk(self, k):
        self.ops.append('remk %d' % k)
        self.s.remk(k)

    def remi(self, p):
        self.ops.append('remi %d' % p)
        self.s.remi(p)

    def remf(self):
        self.ops.append('remf')
        self.s.remi(0)

    def remb(self):
        self.ops.append('remb')
        self.s.remi(len(self.s.keys) - 1)

    def clear(self):
        self.ops.append('clear')
        self.s.keys = []

    def sel(self, b):
        self.ops.append('sel %d' % b)
        self.cur = b

    def copy(self):
        if self.multi:
            return
        self.ops.append(self.rng.choice(['copy', 'copyc']))
        self.s.keys = list(self.sims[1 - self.cur].keys)

    def bulk(self):
        if self.multi:
            return
        self.ops.append('bulk')
        for k in self.sims[1 - self.cur].keys:
            self.s.ins(k)

    def observe(self, n=1):
        rng = self.rng
        for _ in range(n):
            r = rng.random()
            ks = self.s.keys
            k = rng.choice(ks) if ks and rng.random() < 0.7 else rng.randrange(-1, self.R + 1)
            if r < 0.45:
                self.ops.append('find %d' % k)
            elif r < 0.6:
                self.ops.append('has %d' % k)
            elif r < 0.85:
                self.ops.append('count %d' % k)
            elif r < 0.93:
                self.ops.append('front')
            else:
                self.ops.append('back')

    def find_all(self):
        for k in sorted(set(self.s.keys)):
            self.ops.append('find %d' % k)
            if self.multi:
                self.ops.append('count %d' % k)

    def random_op(self, w_ins=0.4, w_hint=0.15, w_rem=0.3):
        rng = self.rng
        r = rng.random()
        n = len(self.s.keys)
        if r < w_ins:
            self.ins(self.key())
        elif r < w_ins + w_hint:
            k = self.key()
            q = rng.random()
            if q < 0.5:
                p = self.good_hint(k)
            elif q < 0.7:
                p = rng.randrange(n + 2)
            elif q < 0.85:
                p = 0
            else:
                p = n
            self.hint(p, k)
        elif r < w_ins + w_hint + w_rem:
            q = rng.random()
            if q < 0.35:
                self.remk(rng.choice(self.s.keys) if n and rng.random() < 0.8 else self.key())
            elif q < 0.8:
                self.remi(rng.randrange(n + 1) if rng.random() < 0.9 else n // 2)
            elif q < 0.9:
                self.remf()
            else:
                self.remb()
        elif r < 0.97:
            self.observe()
        elif r < 0.985:
            self.clear()
        elif r < 0.993:
            self.sel(1 - self.cur)
        elif r < 0.997:
            self.copy()
        else:
            self.bulk()


def profile_case(rng, multi, R, length, profile, hash_mode=False):
    g = Gen(rng, multi, R, hash_mode)
    n_build = max(1, (length * 2) // 3)
    if profile == 'ascending':
        for i in range(n_build):
            g.ins(i % R if multi else i)
            if rng.random() < 0.2:
                g.observe()
    elif profile == 'descending':
        for i in range(n_build):
            g.ins((n_build - i) % R if multi else n_build - i)
            if rng.random() < 0.2:
                g.observe()
    elif profile == 'zigzag':
        lo, hi = 0, n_build
        for i in range(n_build):
            if i % 2 == 0:
                g.ins(lo % R if multi else lo); lo += 1
            else:
                g.ins(hi % R if multi else hi); hi -= 1
            if rng.random() < 0.2:
                g.observe()
    elif profile == 'random':
        for _ in range(length):
            g.random_op()
        g.find_all()
        return g.ops
    elif profile == 'internal':
        for _ in range(n_build):
            g.ins(g.key() if rng.random() < 0.7 else rng.randrange(3 * R))
        # remove nodes that are high in the tree: the median ranks (two-child removals)
        while len(g.ops) < length + 1 and g.s.keys:
            n = len(g.s.keys)
            q = rng.random()
            if q < 0.5:
                g.remi(n // 2)
            elif q < 0.7:
                g.remi(rng.choice([n // 4, (3 * n) // 4, n // 2 + 1, max(0, n // 2 - 1)]))
            elif q < 0.85:
                g.remk(g.s.keys[n // 2])
            else:
                g.observe()
        return g.ops
    elif profile == 'hinted':
        for _ in range(length):
            r = rng.random()
            k = g.key()
            n = len(g.s.keys)
            if r < 0.35:
                g.hint(g.good_hint(k), k)
            elif r < 0.5:
                g.hint(rng.randrange(n + 2), k)
            elif r < 0.6:
                g.hint(0, k)
            elif r < 0.7:
                g.hint(n + rng.randrange(2), k)
            elif r < 0.8:
                g.ins(k)
            elif r < 0.9:
                g.remi(rng.randrange(n + 1))
            else:
                g.observe()
        g.find_all()
        return g.ops
    elif profile == 'bulk':
        # two containers, copy / assign / bulk insert in both directions (Map only)
        for _ in range(rng.randrange(0, n_build // 2 + 1)):
            g.ins(g.key() if rng.random() < 0.5 else rng.randrange(4 * R))
        g.sel(1)
        for _ in range(rng.randrange(0, n_build // 2 + 1)):
            g.ins(g.key() if rng.random() < 0.5 else rng.randrange(4 * R))
        for _ in range(max(1, length // 10)):
            r = rng.random()
            if r < 0.3:
                g.bulk()
            elif r < 0.55:
                g.copy()
            elif r < 0.7:
                g.sel(1 - g.cur)
            elif r < 0.85:
                g.random_op()
            else:
                g.observe()
        g.find_all()
        return g.ops
    elif profile == 'equal':
        # runs of equal keys (MultiMap): count / find / remove by key around rotations; key 0 included
        ks = [rng.randrange(min(R, 4)) for _ in range(rng.randrange(1, 4))]
        for _ in range(length):
            r = rng.random()
            k = rng.choice(ks)
            if r < 0.5:
                g.ins(k)
            elif r < 0.6:
                g.hint(g.good_hint(k), k)
            elif r < 0.7:
                g.remk(k)
            elif r < 0.8:
                g.ops.append('count %d' % k)
            elif r < 0.9:
                g.ops.append('find %d' % k)
            else:
                g.remi(rng.randrange(len(g.s.keys) + 1))
        g.find_all()
        return g.ops
    # tail of the build profiles: queries then removals from the inside out
    g.find_all()
    while len(g.ops) < length + 1 and g.s.keys:
        n = len(g.s.keys)
        q = rng.random()
        if q < 0.4:
            g.remi(rng.randrange(n))
        elif q < 0.6:
            g.remk(rng.choice(g.s.keys))
        elif q < 0.7:
            g.remf()
        elif q < 0.8:
            g.remb()
        else:
            g.observe()
    return g.ops


PROFILES = ['ascending', 'descending', 'zigzag', 'random', 'internal', 'hinted', 'bulk', 'equal']
MUT = ('ins', 'hint', 'remk', 'remi', 'remf', 'remb', 'copy', 'copyc', 'bulk')


class C01(Check):
    id = 'C01'
    comp = 'Avl'
    extracted = ['coq/Avl/model.mli', 'coq/Avl/model.ml', 'ocaml/zconv.ml', 'ocaml/avl_driver.ml']
    harness_sources = ['harness/avl.cpp']
    per_case_timeout = 20
    level_text = ''
    level_note = ''
    technique = ''
    rule = ''
    assumptions = []

    def nontrivial(self, case, obs):
        muts = sum(1 for l in case if l.split(' ', 1)[0] in MUT)
        mx = 0
        for l in obs:
            p = l.split(' | ')
            if len(p) >= 2:
                try:
                    mx = max(mx, int(p[1].split(' ')[0]))
                except ValueError:
                    pass
        return muts >= 3 and mx >= 3

    def judge(self, cases, impl_obs, spec_obs):
        fails = Check.judge(self, cases, impl_obs, spec_obs)
        seen = {i for (i, _, _) in fails}
        # the cost clause: comparisons of a find <= 2*floor(1.4405*log2(n+2))
        for i, obs in enumerate(impl_obs):
            if i in seen:
                continue
            for k, l in enumerate(obs):
                m = re.match(r'^\S+ c=(\d+) \| (\d+) ', l)
                if m and int(m.group(1)) > bound(int(m.group(2))):
                    fails.append((i, k, 'find made %s key comparisons among %s entries, bound is %d' % (m.group(1), m.group(2), bound(int(m.group(2))))))
                    break
        return fails

    def streams(self, tier, rng):
        thorough = tier == 'thorough'
        out = []
        # boundary stream: empty containers, single entries, key 0 (the sentinel's default key), negatives
        cases = []
        for fl in ('map', 'multimap'):
            cases.append(['@' + fl, 'find 0', 'has 0', 'count 0', 'front', 'back', 'remf', 'remb', 'remk 0', 'remi 0', 'clear', 'hint 0 0 1', 'count 0', 'find 0', 'remb', 'count 0'])
            cases.append(['@' + fl, 'ins 0 1', 'count 0', 'find 0', 'count 1', 'remk 0', 'count 0'])
            cases.append(['@' + fl, 'ins -5 1', 'ins -7 2', 'ins 0 3', 'ins -6 4', 'count 0', 'count -6', 'find -7', 'hint 9 -8 5', 'hint 0 -9 6', 'back', 'front'])
            cases.append(['@' + fl, 'ins 5 1', 'ins 5 2', 'ins 5 3', 'count 5', 'find 5', 'remk 5', 'count 5', 'find 5'])
            cases.append(['@' + fl, 'sel 1', 'ins 1 1', 'sel 0', 'copy', 'bulk', 'copyc', 'sel 1', 'bulk', 'bulk', 'copy', 'clear', 'sel 0', 'copy'])
        out.append(Stream('boundary', cases))
        # profile streams
        reps = 10 if thorough else 2
        for prof in PROFILES:
            cases = []
            for multi in (False, True):
                if prof == 'bulk' and multi:
                    continue
                if prof == 'equal' and not multi:
                    continue
                for R in (4, 8, 30, 200):
                    for length in ([1, 2, 3, 5, 8, 13, 21, 40, 80, 150, 300] if thorough else [3, 7, 12, 25, 60, 140, 300]):
                        for _ in range(reps if length < 100 else max(1, reps // 2)):
                            cases.append(profile_case(rng, multi, R, length, prof))
            out.append(Stream(prof, cases))
        return out


CHECK = C01
