import bisect, itertools, math, os, re, time
import vf
from vf import Check, Stream, first_diff


def cost_bound(n):
    """2*floor(1.4405*log2(n+2)) with exact integers: h <= 1.4405*log2 m  <=>  2^(10000 h) <= m^14405."""
    m = (n + 2) ** 14405
    h = 0
    while (1 << (10000 * (h + 1))) <= m:
        h += 1
    return 2 * h


_BOUND = {}


def bound(n):
    if n not in _BOUND:
        _BOUND[n] = cost_bound(n)
    return _BOUND[n]


class Sim:
    """Only what the generators need to aim their ops: the sorted multiset of keys present
    (never used as an oracle)."""

    def __init__(self, multi):
        self.multi = multi
        self.keys = []

    def ins(self, k):
        if self.multi or not self.has(k):
            bisect.insort_right(self.keys, k)

    def has(self, k):
        i = bisect.bisect_left(self.keys, k)
        return i < len(self.keys) and self.keys[i] == k

    def remk(self, k):
        if self.has(k):
            del self.keys[bisect.bisect_left(self.keys, k)]

    def remi(self, p):
        if 0 <= p < len(self.keys):
            del self.keys[p]


class Gen:
    def __init__(self, rng, multi, krange, hash_mode=False):
        self.rng, self.multi, self.R = rng, multi, krange
        self.sims = [Sim(multi), Sim(multi)]
        self.cur = 0
        self.ops = ['@' + ('multimap' if multi else 'map') + (' hash' if hash_mode else '')]
        self.v = 0

    @property
    def s(self):
        return self.sims[self.cur]

    def val(self):
        self.v += 1
        return self.v

    def key(self):
        return self.rng.randrange(self.R)

    def ins(self, k):
        self.ops.append('ins %d %d' % (k, self.val()))
        self.s.ins(k)

    def hint(self, p, k):
        self.ops.append('hint %d %d %d' % (p, k, self.val()))
        self.s.ins(k)

    def good_hint(self, k):
        """a position whose neighbour tests succeed: first entry with key > k (or >= k)"""
        ks = self.s.keys
        r = self.rng.random()
        if r < 0.5:
            return bisect.bisect_right(ks, k)
        if r < 0.8:
            return max(0, bisect.bisect_left(ks, k) - 1) if ks else 0
        return bisect.bisect_left(ks, k)

    def remk(self, k):
        self.ops.append('remk %d' % k)
        self.s.remk(k)

    def remi(self, p):
        self.ops.append('remi %d' % p)
        self.s.remi(p)

    def remf(self):
        self.ops.append('remf')
        self.s.remi(0)

    def remb(self):
        self.ops.append('remb')
        self.s.remi(len(self.s.keys) - 1)

    def clear(self):
        self.ops.append('clear')
        self.s.keys = []

    def sel(self, b):
        self.ops.append('sel %d' % b)
        self.cur = b

    def copy(self):
        # operator= / copy construction exist for Map and MultiMap
        self.ops.append(self.rng.choice(['copy', 'copyc']))
        self.s.keys = list(self.sims[1 - self.cur].keys)

    def copy_self(self):
        self.ops.append('copys')

    def bulk(self):
        if self.multi:
            return
        self.ops.append('bulk')
        for k in self.sims[1 - self.cur].keys:
            self.s.ins(k)

    def observe(self, n=1):
        rng = self.rng
        for _ in range(n):
            r = rng.random()
            ks = self.s.keys
            k = rng.choice(ks) if ks and rng.random() < 0.7 else rng.randrange(-1, self.R + 1)
            if r < 0.45:
                self.ops.append('find %d' % k)
            elif r < 0.6:
                self.ops.append('has %d' % k)
            elif r < 0.85:
                self.ops.append('count %d' % k)
            elif r < 0.93:
                self.ops.append('front')
            else:
                self.ops.append('back')

    def find_all(self):
        for k in sorted(set(self.s.keys)):
            self.ops.append('find %d' % k)
            if self.multi:
                self.ops.append('count %d' % k)

    def random_op(self, w_ins=0.4, w_hint=0.15, w_rem=0.3):
        rng = self.rng
        r = rng.random()
        n = len(self.s.keys)
        if r < w_ins:
            self.ins(self.key())
        elif r < w_ins + w_hint:
            k = self.key()
            q = rng.random()
            if q < 0.5:
                p = self.good_hint(k)
            elif q < 0.7:
                p = rng.randrange(n + 2)
            elif q < 0.85:
                p = 0
            else:
                p = n
            self.hint(p, k)
        elif r < w_ins + w_hint + w_rem:
            q = rng.random()
            if q < 0.35:
                self.remk(rng.choice(self.s.keys) if n and rng.random() < 0.8 else self.key())
            elif q < 0.8:
                self.remi(rng.randrange(n + 1) if rng.random() < 0.9 else n // 2)
            elif q < 0.9:
                self.remf()
            else:
                self.remb()
        elif r < 0.97:
            self.observe()
        elif r < 0.985:
            self.clear()
        elif r < 0.993:
            self.sel(1 - self.cur)
        elif r < 0.996:
            self.copy()
        elif r < 0.998:
            self.copy_self()
        else:
            self.bulk()


def profile_case(rng, multi, R, length, profile, hash_mode=False):
    g = Gen(rng, multi, R, hash_mode)
    n_build = max(1, (length * 2) // 3)
    if profile == 'ascending':
        for i in range(n_build):
            g.ins(i % R if multi else i)
            if rng.random() < 0.2:
                g.observe()
    elif profile == 'descending':
        for i in range(n_build):
            g.ins((n_build - i) % R if multi else n_build - i)
            if rng.random() < 0.2:
                g.observe()
    elif profile == 'zigzag':
        lo, hi = 0, n_build
        for i in range(n_build):
            if i % 2 == 0:
                g.ins(lo % R if multi else lo); lo += 1
            else:
                g.ins(hi % R if multi else hi); hi -= 1
            if rng.random() < 0.2:
                g.observe()
    elif profile == 'random':
        for _ in range(length):
            g.random_op()
        g.find_all()
        return g.ops
    elif profile == 'internal':
        for _ in range(n_build):
            g.ins(g.key() if rng.random() < 0.7 else rng.randrange(3 * R))
        # remove nodes that are high in the tree: the median ranks (two-child removals)
        while len(g.ops) < length + 1 and g.s.keys:
            n = len(g.s.keys)
            q = rng.random()
            if q < 0.5:
                g.remi(n // 2)
            elif q < 0.7:
                g.remi(rng.choice([n // 4, (3 * n) // 4, n // 2 + 1, max(0, n // 2 - 1)]))
            elif q < 0.85:
                g.remk(g.s.keys[n // 2])
            else:
                g.observe()
        return g.ops
    elif profile == 'hinted':
        for _ in range(length):
            r = rng.random()
            k = g.key()
            n = len(g.s.keys)
            if r < 0.35:
                g.hint(g.good_hint(k), k)
            elif r < 0.5:
                g.hint(rng.randrange(n + 2), k)
            elif r < 0.6:
                g.hint(0, k)
            elif r < 0.7:
                g.hint(n + rng.randrange(2), k)
            elif r < 0.8:
                g.ins(k)
            elif r < 0.9:
                g.remi(rng.randrange(n + 1))
            else:
                g.observe()
        g.find_all()
        return g.ops
    elif profile == 'bulk':
        # two containers, copy / assign / self-assign in both directions (Map and MultiMap), bulk insert (Map).
        # MultiMap: the source holds runs of equal keys whose values differ (built by plain, hinted and
        # descending inserts, thinned by removals), so a copy that reorders a run is visible.
        def fill():
            m = rng.randrange(0, n_build // 2 + 1)
            if multi:
                ks = [rng.randrange(R) for _ in range(rng.randrange(1, 5))]
                for _ in range(m):
                    q = rng.random()
                    k = rng.choice(ks) if q < 0.75 else g.key()
                    if q < 0.55:
                        g.ins(k)
                    elif q < 0.8:
                        g.hint(g.good_hint(k), k)
                    elif g.s.keys:
                        g.remi(rng.randrange(len(g.s.keys)))
            else:
                for _ in range(m):
                    g.ins(g.key() if rng.random() < 0.5 else rng.randrange(4 * R))
        fill()
        g.sel(1)
        fill()
        for _ in range(max(1, length // 10)):
            r = rng.random()
            if r < (0.1 if multi else 0.3):
                g.bulk()
            elif r < 0.5:
                g.copy()
                if rng.random() < 0.5:
                    g.find_all()
            elif r < 0.55:
                g.copy_self()
            elif r < 0.7:
                g.sel(1 - g.cur)
            elif r < 0.85:
                g.random_op()
            else:
                g.observe()
        g.find_all()
        return g.ops
    elif profile == 'equal':
        # runs of equal keys (MultiMap): count / find / remove by key around rotations; key 0 included
        ks = [rng.randrange(min(R, 4)) for _ in range(rng.randrange(1, 4))]
        for _ in range(length):
            r = rng.random()
            k = rng.choice(ks)
            if r < 0.5:
                g.ins(k)
            elif r < 0.6:
                g.hint(g.good_hint(k), k)
            elif r < 0.7:
                g.remk(k)
            elif r < 0.8:
                g.ops.append('count %d' % k)
            elif r < 0.9:
                g.ops.append('find %d' % k)
            else:
                g.remi(rng.randrange(len(g.s.keys) + 1))
        g.find_all()
        return g.ops
    # tail of the build profiles: queries then removals from the inside out
    g.find_all()
    while len(g.ops) < length + 1 and g.s.keys:
        n = len(g.s.keys)
        q = rng.random()
        if q < 0.4:
            g.remi(rng.randrange(n))
        elif q < 0.6:
            g.remk(rng.choice(g.s.keys))
        elif q < 0.7:
            g.remf()
        elif q < 0.8:
            g.remb()
        else:
            g.observe()
    return g.ops



def reset_hint_cases(thorough):
    """A state-resetting operation immediately followed by each kind of hinted insert.
    reset  = clear / copy or assign from an empty container (Map) / removing every entry one by one
             (front, back, by key, by iterator) / removing only the last, only the first entry
    hint   = begin, end, one past end, middle (ranks in the container as it is after the reset)
    key    = below / equal to / between / equal to / above the extremes held before the reset
    Aimed at the sentinel bookkeeping (_begin, endItem.prev, root) the hinted insert reads first:
    c_insert_hint's `position == end()` branch and its `prev`/`next` look-ups."""
    cases = []
    bases = [[10, 20, 30, 40, 50], [10]] + ([[10, 20, 30], [10, 10, 20, 20]] if thorough else [])
    for fl in ('map', 'multimap'):
        resets = ['clear', 'drain_front', 'drain_back', 'drain_key', 'drain_iter', 'remb', 'remf', 'remi_last', 'remk_max']
        resets += ['copy', 'copyc']
        if fl == 'map':
            resets += ['clear_bulk']
        for base in bases:
            if fl == 'map' and len(set(base)) != len(base):
                continue
            lo, hi = min(base), max(base)
            for rs in resets:
                pre = ['@' + fl] + ['ins %d %d' % (k, i + 1) for i, k in enumerate(base)]
                left = sorted(base)
                if rs == 'clear':
                    pre.append('clear'); left = []
                elif rs in ('copy', 'copyc'):
                    pre.append(rs); left = []
                elif rs == 'clear_bulk':
                    pre += ['clear', 'bulk']; left = []
                elif rs == 'drain_front':
                    pre += ['remf'] * len(base); left = []
                elif rs == 'drain_back':
                    pre += ['remb'] * len(base); left = []
                elif rs == 'drain_key':
                    pre += ['remk %d' % k for k in reversed(sorted(base))]; left = []
                elif rs == 'drain_iter':
                    pre += ['remi %d' % (len(base) - 1 - i) for i in range(len(base))]; left = []
                elif rs == 'remb':
                    pre.append('remb'); left = left[:-1]
                elif rs == 'remf':
                    pre.append('remf'); left = left[1:]
                elif rs == 'remi_last':
                    pre.append('remi %d' % (len(base) - 1)); left = left[:-1]
                elif rs == 'remk_max':
                    pre.append('remk %d' % hi); left = left[:-1] if fl == 'map' else [k for k in left if k != hi] + [hi] * (left.count(hi) - 1)
                n = len(left)
                for hp in sorted({0, n, n + 1, n // 2}):
                    for k in sorted({lo - 5, lo, lo + 5, hi, hi + 5}):
                        ops = list(pre)
                        ops.append('hint %d %d 100' % (hp, k))
                        ops += ['find %d' % k, 'count %d' % k, 'front', 'back',
                                'hint %d %d 101' % (n + 1, k + 1), 'hint 0 %d 102' % (lo - 6), 'ins %d 103' % (hi + 7),
                                'find %d' % (k + 1), 'count %d' % (lo - 6), 'remb', 'remf', 'back', 'front']
                        cases.append(ops)
    return cases


def drain_case(rng, multi, N, pattern, how):
    """Fill ascending 1..N, then remove many keys from one side; finds of every remaining key at
    check points.  Removals from the shorter side leave a node's height unchanged while its slope
    reaches +-2: the branch of the removal loop where re-balancing (rebal_shrink_l/_r in the proofs)
    is needed although the height did not change.  Depth and comparison count are the oracle."""
    g = Gen(rng, multi, N + 2)
    for i in range(1, N + 1):
        g.ins(i // 2 if (multi and pattern == 'dups') else i)
    if pattern in ('median', 'quartiles'):
        # two-child removals high in the tree: the successor/predecessor is unlinked deep below
        # the removed node and every node on the way back up must be re-balanced (pop_min/pop_max)
        j = 0
        while len(g.s.keys) > max(3, N // 8):
            n = len(g.s.keys)
            if pattern == 'median':
                r = n // 2
            else:
                r = (n // 4, (3 * n) // 4, n // 2)[j % 3]
            if how == 'key':
                g.remk(g.s.keys[r])
            else:
                g.remi(r)
            j += 1
            if j % max(1, N // 6) == 0:
                g.find_all()
        g.find_all()
        return g.ops
    keys = lambda: list(g.s.keys)
    def keep(k):
        if pattern == 'pow2':
            return k & (k - 1) == 0
        if pattern == 'every8':
            return k % 8 == 0
        return False
    if pattern in ('pow2', 'every8'):
        victims = [k for k in reversed(sorted(set(keys()))) if not keep(k)]          # from the back
    elif pattern == 'pow2_front':
        top = max(keys())
        victims = [k for k in sorted(set(keys())) if (top + 1 - k) & (top - k) != 0]  # from the front, mirrored
    elif pattern == 'front':
        ks = sorted(set(keys())); victims = ks[:(len(ks) * 7) // 8]
    elif pattern == 'back':
        ks = sorted(set(keys())); victims = list(reversed(ks[len(ks) // 8:]))
    else:  # dups
        ks = sorted(set(keys())); victims = [k for k in reversed(ks) if k % 4 != 0]
    step = max(1, len(victims) // 4)
    for j, k in enumerate(victims):
        if how == 'key':
            g.remk(k)
        elif how == 'iter':
            ks = g.s.keys
            g.remi(bisect.bisect_left(ks, k))
        else:  # removeFront / removeBack where the victim is the extreme, else iterator
            ks = g.s.keys
            if ks and ks[0] == k:
                g.remf()
            elif ks and ks[-1] == k:
                g.remb()
            else:
                g.remi(bisect.bisect_left(ks, k))
        if (j + 1) % step == 0:
            g.find_all()
    g.find_all()
    return g.ops



def avl_shape(h, rng, p_full, lean):
    """A random AVL shape of height h as nested pairs (left, right), None = empty.  p_full = 0 gives the sparsest
    trees (Fibonacci trees: every node's subtrees differ by one level); lean = 'l' / 'r' / 'x' puts the deeper
    subtree always left / always right / on a random side (a zigzag path needs double rotations)."""
    if h <= 0:
        return None
    if h == 1:
        return (None, None)
    if rng.random() < p_full:
        return (avl_shape(h - 1, rng, p_full, lean), avl_shape(h - 1, rng, p_full, lean))
    left_deep = lean == 'l' or (lean == 'x' and rng.random() < 0.5)
    a, b = avl_shape(h - 1, rng, p_full, lean), avl_shape(h - 2, rng, p_full, lean)
    return (a, b) if left_deep else (b, a)


def shape_size(t):
    return 0 if t is None else 1 + shape_size(t[0]) + shape_size(t[1])


def shape_height(t):
    return 0 if t is None else 1 + max(shape_height(t[0]), shape_height(t[1]))


def shape_level_order(t, step=3):
    """keys (in-order rank * step + step) of the shape in level order: inserting them in this order builds exactly
    this shape without a single rotation (every prefix is an AVL tree), plus [(key, depth, is_leaf, lightness)]"""
    info = []
    def walk(t, lo, depth, light):
        if t is None:
            return
        nl = shape_size(t[0])
        key = (lo + nl) * step + step
        hl, hr = shape_height(t[0]), shape_height(t[1])
        info.append((depth, key, t[0] is None and t[1] is None, light))
        walk(t[0], lo, depth + 1, light + (1 if hl < hr else 0))
        walk(t[1], lo + nl + 1, depth + 1, light + (1 if hr < hl else 0))
    walk(t, 0, 0, 0)
    info.sort()
    return [k for (_, k, _, _) in info], info


def sparse_case(rng, multi, h, p_full, lean, length, mode):
    """Build a sparsest (or nearly sparsest) AVL tree of height h - where alone the depth bound is tight - and then
    remove / insert where re-balancing is triggered: a leaf on the shallow side of a node shortens the shallow side,
    the node's slope reaches +-2 and the kind of rotation depends on the slope of its deep child (same sign: single,
    opposite sign: double, 0: the case only a removal can produce); in a Fibonacci tree the rotations cascade to the
    root.  Finds of every key and of two absent keys at check points; depth and comparison count are the oracle."""
    g = Gen(rng, multi, 10 ** 6)
    t = avl_shape(h, rng, p_full, lean)
    order, info = shape_level_order(t)
    for k in order:
        g.ins(k)
    top = max(order) + 3
    def probe():
        g.find_all()
        g.ops.append('find -1')
        g.ops.append('find %d' % (top + 1000))
    probe()
    leaves = [(light, -depth, k) for (depth, k, leaf, light) in info if leaf]
    # shallow-side leaves first: the leaf with the most "lighter side" turns above it, then the shallowest
    leaves.sort(reverse=True)
    targets = [k for (_, _, k) in leaves]
    n_ops = 0
    while n_ops < length and g.s.keys:
        r = rng.random()
        ks = g.s.keys
        if mode == 'shallow' and targets and r < 0.6:
            k = targets.pop(0)
            if g.s.has(k):
                g.remk(k) if rng.random() < 0.5 else g.remi(bisect.bisect_left(ks, k))
        elif r < (0.75 if mode != 'churn' else 0.5):
            k = rng.choice(ks)
            q = rng.random()
            if q < 0.5:
                g.remk(k)
            elif q < 0.9:
                g.remi(bisect.bisect_left(ks, k))
            elif q < 0.95:
                g.remf()
            else:
                g.remb()
        else:
            k = rng.choice(ks) + rng.choice([-1, 1, -2, 2]) if rng.random() < 0.8 else rng.randrange(top)
            if rng.random() < 0.8:
                g.ins(k)
            else:
                g.hint(g.good_hint(k), k)
        n_ops += 1
        if n_ops % 6 == 0:
            g.ops.append('find -1')
            g.ops.append('find %d' % (top + 1000))
        if n_ops % 15 == 0:
            probe()
    probe()
    return g.ops


def sparse_cases(rng, thorough):
    cases = []
    for multi in (False, True):
        for h in ((3, 4, 5, 6, 7, 8, 9) if thorough else (4, 5, 6, 7)):
            for lean in ('l', 'r', 'x'):
                for p_full in (0.0, 0.2):
                    for mode in ('shallow', 'random', 'churn'):
                        for _ in range(3 if thorough else 1):
                            n = shape_size(avl_shape(h, rng, 0.0, 'l'))
                            cases.append(sparse_case(rng, multi, h, p_full, lean, min(60, max(6, n)), mode))
    return cases


def tree_depth(tokens):
    """real depth of the tree printed in preorder (`.` = empty)"""
    pos = 0
    best = 0
    stack = [0]          # depth of the node whose subtree is being read
    # iterative preorder parse: each node token is followed by its left and right subtrees
    pending = [1]        # number of subtrees still to read at each level
    depth = 0
    for t in tokens:
        while pending and pending[-1] == 0:
            pending.pop(); depth -= 1
        if not pending:
            break
        pending[-1] -= 1
        if t != '.':
            depth += 1
            best = max(best, depth)
            pending.append(2)
    return best

_IT = re.compile(r'^@(-?\d+):(-?\d+):(-?\d+):-?\d+(.*)$')
_ENT = re.compile(r'^-?\d+:-?\d+:-?\d+(,-?\d+:-?\d+:-?\d+)*$')


def public_view(line):
    """The part of an observation line the property text speaks about, with the harness's entry labels removed:
    result (a returned iterator as rank:key:value, the accessor flags kept), comparison count, size, emptiness and
    the entries in iteration order as key:value.  The label of an entry (`slot` = its allocation number, handed
    out by the harness) and everything behind the second ` | ` (tree, Item fields) are not part of it."""
    out = []
    for sec in line.split(' | ')[:2]:
        toks = []
        for t in sec.split(' '):
            m = _IT.match(t)
            if m:
                t = '@%s:%s:%s%s' % (m.group(1), m.group(2), m.group(3), m.group(4))
            elif _ENT.match(t):
                t = ','.join(e.rsplit(':', 1)[0] for e in t.split(','))
            toks.append(t)
        out.append(' '.join(toks))
    return ' | '.join(out)


def property_diff(spec, impl):
    """index of the first line on which the implementation's public observation leaves the reference's
    expectation (wildcards `?` of the reference honoured), entries compared by rank/key/value - never by label"""
    k = first_diff(spec, impl)
    if k is None:
        return None
    return first_diff([public_view(l) for l in spec], [public_view(l) for l in impl])


PROFILES = ['ascending', 'descending', 'zigzag', 'random', 'internal', 'hinted', 'bulk', 'equal']
MUT = ('ins', 'hint', 'hintc', 'remk', 'remi', 'remf', 'remb', 'copy', 'copyc', 'bulk')


class C01(Check):
    id = 'C01'
    comp = 'Avl'
    extracted = ['coq/Avl/model.mli', 'coq/Avl/model.ml', 'ocaml/zconv.ml', 'ocaml/avl_driver.ml']
    harness_sources = ['harness/avl.cpp']
    per_case_timeout = 5
    level_text = ('Theorems in Coq (coq/Avl, 33 in Properties_C01.v), for every history of insert (plain and hinted), remove by key / '
                  'iterator, removeFront/removeBack, clear, copy construction / operator= / self-assignment (Map and MultiMap), '
                  'Map::insert(other), find/contains/count/front/back on two containers. NODE LEVEL: '
                  'the AVL invariant of the model (stored height = real height, sibling heights differ by at most 1, in-order sequence '
                  'sorted - strict for Map, non-strict for MultiMap -, size counter = number of nodes) holds initially and is preserved '
                  'by every operation; every operation refines the reference sorted (multi)map (contents, size, find/contains, count, '
                  'front/back, returned iterator; a plain MultiMap insert lands after all keys <= k; a copy holds the source\'s keys and '
                  'values in the source\'s order - runs of equal keys of a MultiMap included - as new entries and leaves the source '
                  'untouched; MultiMap::remove(key): the reference takes the rank of the removed entry as an input and accepts every entry that '
                  'holds the key - exactly that entry goes, the count of the key drops by one, nothing else changes - and rejects a rank without the key '
                  'or a remove that takes nothing although the key is present (reference_remove_key_accepts_any_entry_of_the_run); the MODEL removes '
                  'the first entry of the run, and that rank and the position a hinted MultiMap insert chooses pass the reference\'s tests in every '
                  'reachable state, so the reference never rejects); find makes at most 2*floor(1.4405*log2(n+2)) comparisons (integer '
                  'form without axioms via fib(h+2) <= n+1 and 1.61803^121 >= 2^84; real-number form with ln/Int_part). '
                  'POINTER LEVEL (AvlHeap*.v): a machine on a heap of Items (slot -> key, value, parent, left, right, height, slope, prev, next) '
                  'plus root, _begin, endItem.prev, _size performs the individual field writes of the C++ in the C++\'s order: '
                  'descending insert from any cell (plain and the four hinted entries), list threading, the upward loop with its '
                  '"height unchanged -> break", rebal/shiftl/shiftr/rotl/rotr/updateHeightAndSlope, remove(Iterator) with the leaf / '
                  'one-child / two-children cases (neighbour chosen by the stored heights, direct child or deeper, every re-linking write), '
                  'the rebalParent loop with its jump to *cell, rebalParentUpwards, list un-threading, find (both flavours), clear, the '
                  'copy and insert(other) loops. Proved for every history (cell_machine_refines_tree, cell_machine_never_faults): the '
                  'machine never dereferences null nor exhausts a loop bound, and after every operation its cells satisfy Rep with the '
                  'node-level tree; under Rep (threaded_list_is_inorder, parent_links_consistent): the next chain from _begin and the '
                  'prev chain from endItem.prev are exactly the in-order sequence, endItem.prev is the maximum, _size the node count, every '
                  'Item\'s parent/left/right are the Item above / the subtree roots, children point back, height = stored height, slope = '
                  'height(left) - height(right); early_exit_is_sound: stopping when the height did not change yields the tree that '
                  're-balancing up to the root yields (used in the loop theorems upward_loop_computes_rebuild and '
                  'rebal_parent_loop_computes_rebuild). The models are '
                  'tied to the code by running the extracted node-level model, the extracted cell machine, the extracted reference and '
                  'the ASan/UBSan build of the working tree on the same histories: results, iteration, tree shape with stored heights and, '
                  'slot by slot, the raw fields key/value/parent/left/right/height/slope/prev/next of every live Item plus root, _begin, '
                  'endItem.prev, _size (read through an access override) are compared after every operation (of both containers after '
                  'copy / assignment / insert(other)), plus the comparison counter of every find; for every iterator an operation returns, every accessor of the Iterator class - key(), '
                  'operator* and operator-> (const and non-const overload each), ++ and -- (in place and as const members), == and != - is compared '
                  'with the raw Item it designates (key/value addresses, next/prev), and the const overloads of front/back with the non-const ones. '
                  'The real depth of the Item tree after every operation and the comparison count of every find are judged against the bound; '
                  'when the Item fields differ from the model although results and contents agree, an adversarial search (3 explorers in lock step, '
                  'seeded from VERIF_SEED, a fixed number of rounds; archive of histories by entries/depth/imbalance, started from sparsest '
                  'trees) proposes histories (inserts / removals by key) that may break the bound; the property oracle decides. '
                  'PROPERTY ORACLE (round 6): the public part of every observation line - result, returned iterator as rank:key:value '
                  'in the implementation\'s own iteration order, size, entries as key:value - against the reference, plus the comparison / '
                  'depth bound; entry labels (allocation numbers), tree and Item fields are compared with the MODEL only (correspondence). '
                  'A failure is reported only when it repeats on a second, isolated run of the case.')
    level_note = ('The theorems are about the models; the tie to the code is differential. Since round 3 the pointer level is proved, '
                  'not only compared: the cell machine (field writes in the code\'s order, early exits included) refines the node-level '
                  'model for all histories, and the node-level model refines the reference. Still validated by correspondence only: '
                  'that the cell machine\'s writes are the C++\'s (raw field dump of every live Item after every operation); the free '
                  'list / block allocator (a slot of the machine is the allocation number and is never reused - the harness renames '
                  'addresses to allocation numbers - so address reuse after remove/clear is not modelled), destructor calls, '
                  'endItem.parent / endItem.next (never accessed after construction), the removed Item\'s own fields. The public '
                  'results (returned iterators, find/count/front/back) are those of the node-level model; at the pointer level the '
                  'returned Item of insert and the `item->next` of remove are proved to be the slots at the node-level ranks. The cell '
                  'heap is kept as two maps (tree fields, list fields; structure of arrays), so the relative order of a tree write and a '
                  'list write inside one operation is not represented (they touch disjoint fields). '
                  'Copy construction and operator= (Map and MultiMap) are modelled as sequential plain inserts of '
                  'the source\'s entries in iteration order, Map::insert(other) as plain + hinted inserts, as the code does; MultiMap '
                  'has no insert(other) (the op is a no-op there); insert(other) of a Map into itself is not driven. The new entries '
                  'of a copy are numbered by the harness in iteration order (the values, which differ inside every generated run of '
                  'equal keys, show the order of a run). Where the property text is silent the reference is relational (round 5 for remove): '
                  'which entry of a run of equal keys MultiMap::remove(key) takes, and the place of a hinted MultiMap insert inside a run '
                  'of equal keys, are inputs of the reference, which checks them (an entry holding the key / the order is kept); the harness '
                  'observes which Item disappeared instead of assuming it. That the code takes the FIRST entry of the run is a theorem about '
                  'the model only (remove_key_removes_first_of_run): a change of that choice is a model/implementation difference '
                  '(no-failing-input-found), not a property failure. That remove(key) takes exactly one entry (not all equal keys) remains '
                  'the reading of the text adopted since round 2; find(key) on a run answers its first entry in the reference (an STL '
                  'lower_bound-style reference; the text does not say more). find_cost_logarithmic_real depends on the axioms of Coq\'s classical real numbers; the other 32 theorems are '
                  'closed under the global context. Round 6: the allocation number (slot) the harness gives every new entry, the tree and the raw Item fields are '
                  'model-only observations: a difference there is a correspondence break (no-failing-input-found), never a failing input; the property '
                  'oracle names entries by rank, key and value in the implementation\'s own iteration order (values are distinct inside every generated run of '
                  'equal keys). The watchdog of the harness (5 s per case) measures wall-clock time: a stall of the machine could end a case early and used to be '
                  'reported as a failing input (`implementation gives ! timeout`, the false alarm on harmless/C01-h1); now such a case is run again and only a '
                  'failure that repeats counts. The depth search and the shrinking are bounded by counted steps, all their random choices come from VERIF_SEED. '
                  'The depth search is a search, not a proof: it found the two audit edits (double rotation on a '
                  'slope-0 child) in every trial (4..90 s, i.e. 17..160 of the 600 rounds), but a slip that needs a rarer history can still end as no-failing-input-found. Trusted: Coq kernel, AvlSpec.v as the reading of the property text, extraction, '
                  'OCaml driver (it re-tabulates the extracted heap closures after every operation), harness, comparison-counting key type.')
    technique = 'Coq proof about two executable Gallina models (node level: invariant + refinement + cost bound; pointer level: cell machine refines the node level via a representation relation); extracted models and reference run against the sanitizer build of the code on generated histories, raw Item fields compared'
    rule = ('cases = operation histories on two Map or two MultiMap objects: boundary (empty, single entry, key 0, negatives, '
            'equal keys, copy/assign/self-assign over empty and non-empty targets), build profiles (ascending/descending/zigzag/'
            'random/internal two-child removals/hinted/copy+assign+self-assign (both flavours, MultiMap sources with runs of equal '
            'keys built by plain and hinted inserts) and insert(other) (Map)/equal-key runs) over key ranges 4..200 and lengths 3..300, a small exhaustive scope of {reset op} x {hint position} x {key vs old '
            'extremes} (448 cases quick, 908 thorough), every tree shape of 5 (quick) / 4..6 (thorough) keys x every removal rank followed by plain/hinted inserts and removals, fill-then-drain histories (one side, all but powers of two, repeated median/quartile removals) up to 60 (quick) / 255 (thorough) entries, and sparsest AVL trees (Fibonacci trees of height 4..7 quick / 3..9 thorough, deeper side left / right / random, optionally with a few complete subtrees) built in level order without a rotation and then thinned from the shallow side, at random, or churned with inserts next to existing keys (144 quick / 756 thorough); after a model/implementation difference in the Item fields an adversarial depth search (600 rounds quick / 1800 thorough of 3 seeded explorers in lock step - steps, not seconds -, implementation alone) proposes histories that the property oracle then judges; a case that ended in a crash / watchdog line is run again alone (first 6 of a run) and every failing case is run a second time with twice the watchdog time: only a failure that repeats is reported; the harness is restarted at most 150 times (30 watchdog timeouts) per run; oracles: reference results line by line on the public part (iterators and entries by rank/key/value, not by allocation number; hinted MultiMap positions and the entry MultiMap::remove(key) takes checked relationally), iterator accessors against the raw Item, comparison count and real tree depth against 2*floor(1.4405*log2(n+2)); a case is '
            'non-trivial when it has at least 3 mutating operations and reaches at least 3 entries; distinct = distinct op text')
    assumptions = ['keys and values are int (the code is a template; the harness instantiates a comparison-counting int key)',
                   'the allocator succeeds (no out-of-memory path is modelled)',
                   'Coq classical real-number axioms for find_cost_logarithmic_real only (sig_forall_dec, sig_not_dec, functional_extensionality_dep, classic)']

    def nontrivial(self, case, obs):
        muts = sum(1 for l in case if l.split(' ', 1)[0] in MUT)
        mx = 0
        for l in obs:
            p = l.split(' | ')
            if len(p) >= 2:
                try:
                    mx = max(mx, int(p[1].split(' ')[0]))
                except ValueError:
                    pass
        return muts >= 3 and mx >= 3

    @staticmethod
    def entries(line):
        """entries of the public state section of an observation line (None when hashed / missing)"""
        p = line.split(' | ')
        if len(p) < 2:
            return None
        t = p[1].split(' ')
        if len(t) != 3 or t[2].startswith('#'):
            return None
        return [] if t[2] == '-' else t[2].split(',')

    @staticmethod
    def removed_rank(before, after):
        """rank of the one entry of `before` that is missing in `after` (everything else in place), else None"""
        if before is None or after is None or len(before) != len(after) + 1:
            return None
        r = 0
        while r < len(after) and before[r] == after[r]:
            r += 1
        return r if before[r + 1:] == after[r:] else None

    def relational(self, cases, impl_obs, spec_obs):
        """Two decisions of a MultiMap are not fixed by the property text: the place a hinted insert takes inside a
        run of equal keys (it depends on the tree shape) and which entry of a run of equal keys remove(key) takes.
        The reference takes the decision as an input and checks it.  Where the implementation decided otherwise
        than the model, re-run the reference with the implementation's decision (`hintc p k v r` / `remkc k r`,
        r = the rank the implementation's observations show): a position that breaks the order, a rank that does
        not hold the key, or a remove that took nothing or several entries is rejected (`!bad-choice` / the plain
        mismatch stays), a legitimate decision is followed from then on."""
        spec_obs = [list(s) for s in spec_obs]
        cur = [list(c) for c in cases]
        pending = list(range(len(cases)))
        for _ in range(1000):
            redo = []
            for i in pending:
                c = cur[i]
                if not c or not c[0].startswith('@') or 'multimap' not in c[0][1:].split():
                    continue
                k = property_diff(spec_obs[i], impl_obs[i])
                ops = c[1:]
                if k is None or k >= len(ops) or k >= len(impl_obs[i]):
                    continue
                t = ops[k].split()
                if t[0] in ('hint', 'hintc'):
                    m = re.match(r'^@(\d+):', impl_obs[i][k])
                    if not m or (t[0] == 'hintc' and t[4] == m.group(1)):
                        continue
                    ops[k] = 'hintc %s %s %s %s' % (t[1], t[2], t[3], m.group(1))
                elif t[0] in ('remk', 'remkc'):
                    before = self.entries(impl_obs[i][k - 1]) if k > 0 else []
                    r = self.removed_rank(before, self.entries(impl_obs[i][k]))
                    if r is None or (t[0] == 'remkc' and t[2] == str(r)):
                        continue
                    ops[k] = 'remkc %s %d' % (t[1], r)
                else:
                    continue
                cur[i] = [c[0]] + ops
                redo.append(i)
            if not redo:
                break
            res = self.run_spec([cur[i] for i in redo], tag='rel_spec')
            for i, s in zip(redo, res):
                spec_obs[i] = s
            pending = redo
        return spec_obs

    @staticmethod
    def cost_fail(obs):
        """the cost clause on one case: (line index, reason) of the first find / tree that exceeds the bound"""
        for k, l in enumerate(obs):
            m = re.match(r'^\S+ c=(\d+) \| (\d+) ', l)
            if m:
                n = int(m.group(2))
                if int(m.group(1)) > bound(n):
                    return k, 'find made %s key comparisons among %s entries, bound is %d' % (m.group(1), n, bound(n))
            # "logarithmically deep": the real depth of the Item tree after EVERY operation (read from the L-int dump,
            # not from the stored height fields) obeys the same bound (theorem height_logarithmic)
            secs = l.split(' | ')
            if len(secs) >= 3 and not secs[2].startswith('#'):
                try:
                    n = int(secs[1].split(' ')[0])
                except ValueError:
                    continue
                d = tree_depth(secs[2].split(' ')[0].split(','))
                if 2 * d > bound(n):
                    return k, 'tree of %d entries is %d levels deep, bound is %d' % (n, d, bound(n) // 2)
        return None

    def judge_once(self, cases, impl_obs, spec_obs):
        """The property oracle proper, on the implementation's own observations: every line's public part (result,
        returned iterator as rank/key/value, size, entries in iteration order as key/value) against the reference,
        then the cost clause.  Entry labels (slots) and the internal sections are not looked at."""
        spec_obs = self.relational(cases, impl_obs, spec_obs)
        fails = []
        for i, (s, o) in enumerate(zip(spec_obs, impl_obs)):
            k = property_diff(s, o)
            if k is not None:
                exp = public_view(s[k]) if k < len(s) else '<nothing>'
                got = public_view(o[k]) if k < len(o) else '<nothing>'
                fails.append((i, k, 'spec expects `%s`, implementation gives `%s`' % (exp, got)))
        seen = {i for (i, _, _) in fails}
        # the cost clause: comparisons of a find <= 2*floor(1.4405*log2(n+2)), depth of the tree <= half of it
        for i, obs in enumerate(impl_obs):
            if i in seen:
                continue
            cf = self.cost_fail(obs)
            if cf:
                fails.append((i, cf[0], cf[1]))
        return fails

    CONFIRM_MAX = 6          # failing cases confirmed per call (the shortest ones); the others are not reported
    transient_total = 0

    def judge(self, cases, impl_obs, spec_obs):
        """judge_once, and then every failure has to REPEAT: the failing cases (the CONFIRM_MAX shortest) are run a second
        time, alone, with twice the watchdog time, and judged again.  The harness is deterministic, so a
        failure of the property repeats; what does not repeat was an accident of the run (the harness process
        stalled past its wall-clock watchdog on a loaded machine, was killed from outside, lost output) and is
        no failing input.  Its observation is replaced by the repeated one."""
        fails = self.judge_once(cases, impl_obs, spec_obs)
        if fails and not self._in_shrink:
            fails.sort(key=lambda f: (len(cases[f[0]]), f[0]))
            chosen = fails[:self.CONFIRM_MAX]
            again, _ = self.run_impl([cases[i] for (i, _, _) in chosen], tag='cfm_impl', per_case_timeout=2 * self.per_case_timeout)
            confirmed = []
            for (i, k, reason), obs2 in zip(chosen, again):
                if obs2 == ['! notrun']:
                    continue
                f2 = self.judge_once([cases[i]], [obs2], [spec_obs[i]])
                if f2:
                    confirmed.append((i, f2[0][1], f2[0][2]))
                else:
                    self.transient_total += 1
                    vf.log('[C01] not a failing input (did not repeat when the case was run again): %s ...; first run: %s' % (
                        ' ; '.join(cases[i][:6]), reason[:300]))
                    impl_obs[i][:] = obs2
            fails = sorted(confirmed)
        # remember for extra_checks: did a stream show implementation != model although the property oracle is content?
        lm = self._last_model
        if lm is not None and lm[0] is cases and len(lm[1]) == len(cases):
            failing = {i for (i, _, _) in fails}
            for i, c in enumerate(cases):
                if i in failing:
                    continue
                # same public observation, but another tree / other Item fields / other labels than the model predicts
                for ml, il in zip(lm[1][i], impl_obs[i]):
                    if ml != il and len(ml.split(' | ')) >= 3 and len(il.split(' | ')) >= 3 and public_view(ml) == public_view(il):
                        self.corr_flavours.add('multimap' if (c and c[0].startswith('@') and 'multimap' in c[0][1:].split()) else 'map')
                        break
            if fails:
                self.prop_failed = True
        return fails

    # ---- running the implementation: bounded work on a thoroughly broken tree -----------------------------------
    _last_model = None
    crash_total = 0
    timeout_total = 0

    def run_model(self, cases, tag='model'):
        res = Check.run_model(self, cases, tag)
        if tag.startswith('model_'):
            self._last_model = (cases, res)
        return res

    retry_total = 0
    RETRY_MAX = 6

    def run_impl(self, cases, tag='impl', per_case_timeout=None):
        # chunks of 25 cases (the caps below are looked at between chunks); every crash / watchdog timeout restarts the harness.  After 150 crashes or 30 timeouts
        # (30 x per_case_timeout = 90 s) over the whole run the remaining cases are not run (`! notrun`, dropped by
        # the framework): the failing inputs are there by then, and a tree on which everything crashes or hangs ends
        # the check within minutes.
        # A case that ended in a crash / watchdog line is run once more, alone, with twice the watchdog time
        # (the first RETRY_MAX of a run): the watchdog measures wall-clock time, so a stall of the machine (other
        # jobs, disk) or a signal from outside ends a case without the code being at fault.  When the case then
        # runs to its end, that observation counts; when it ends the same way again, the first one stays.
        res, crashes = [], {}
        pct = per_case_timeout or self.per_case_timeout
        bounded = not (tag.startswith('shr_') or tag.startswith('rel_'))
        for off in range(0, len(cases), 25):
            chunk = cases[off:off + 25]
            if bounded and (self.crash_total >= 150 or self.timeout_total >= 30):
                res += [['! notrun'] for _ in chunk]
                continue
            r, c = vf.run_exe_on_cases(self.exes['impl'], chunk, os.path.join(vf.BUILD, self.id, 'run'), tag, is_impl=True,
                                       per_case_timeout=pct)
            if tag.startswith('shr_'):
                self.shr_timeouts += sum(1 for v in c.values() if v[0] == 'timeout')
            for k in sorted(c):
                if self.retry_total >= self.RETRY_MAX or self.crash_total + self.timeout_total >= 10:
                    break
                self.retry_total += 1
                r2, c2 = vf.run_exe_on_cases(self.exes['impl'], [chunk[k]], os.path.join(vf.BUILD, self.id, 'run'), tag + '_retry',
                                             is_impl=True, per_case_timeout=2 * self.per_case_timeout)
                if not c2:
                    vf.log('[C01] case %d of %s ended in `%s` and ran to its end when run again alone: an accident of the run, not counted' % (
                        off + k, tag, r[k][-1] if r[k] else '?'))
                    r[k] = r2[0]
                    del c[k]
            res += r
            for k, v in c.items():
                crashes[off + k] = v
                if bounded:
                    if v[0] == 'timeout':
                        self.timeout_total += 1
                    else:
                        self.crash_total += 1
        if bounded and (self.crash_total >= 150 or self.timeout_total >= 30):
            vf.log('[C01] %d crashes, %d timeouts so far: remaining cases are not run' % (self.crash_total, self.timeout_total))
        return res, crashes

    shrink_calls = 0
    _in_shrink = False
    shr_timeouts = 0

    def shrink(self, case, pred, budget=400):
        # on a tree where the cases hang, every shrinking step costs a watchdog timeout: all shrinking of one run
        # together gets 400 candidate runs and 30 watchdog timeouts (counted, not timed - the same run shrinks to the
        # same input on a loaded machine), after that the failing inputs are reported as they are
        def counted(c):
            if self.shrink_calls >= 400 or self.shr_timeouts >= 30:
                return False
            self.shrink_calls += 1
            return pred(c)
        self._in_shrink = True          # candidates are judged once while shrinking ...
        try:
            small = Check.shrink(self, case, counted, budget)
        finally:
            self._in_shrink = False
        if small != case and not pred(small):   # ... and the result has to fail again, with repetition (judge)
            vf.log('[C01] the shrunk input did not fail again: reporting the confirmed one')
            return case
        return small

    # ---- adversarial search for a history that breaks the depth / cost bound -------------------------------------
    @staticmethod
    def search_lines(obs):
        """(line index, n, depth, weighted imbalance, shape hash, comparisons or None) of the compact lines the harness
        prints in `search` mode"""
        out = []
        for k, l in enumerate(obs):
            secs = l.split(' | ')
            if len(secs) != 2:
                continue
            t = secs[1].split(' ')
            try:
                n, d, bad, h = int(t[0]), int(t[1]), int(t[2]), t[3]
            except (ValueError, IndexError):
                continue
            m = re.search(r' c=(\d+)$', secs[0])
            out.append((k, n, d, bad, h, int(m.group(1)) if m else None))
        return out

    @staticmethod
    def search_keys(ops):
        ks = set()
        for l in ops[1:]:
            t = l.split()
            if t[0] == 'ins':
                ks.add(int(t[1]))
            elif t[0] == 'remk':
                ks.discard(int(t[1]))
        return ks

    class Explorer:
        """One explorer of the depth search.  It keeps an archive of histories by what they reach - cell = (entries n,
        real depth d, imbalance) - started from sparsest trees (built without a rotation) and random trees; round after
        round it takes histories from the cells closest to the bound (score = d - 1.4405*log2(n+2) + a small reward for
        nodes whose subtrees differ by two or more levels, weighted by their height: a code that loses balance shows
        such defects long before the depth exceeds the bound), extends them by every single removal (the best cells) or
        by a few random removals / inserts, runs the implementation alone (`search` mode of the harness: one short line
        per operation, nothing but the implementation's own size, real depth, imbalance, shape hash and comparison
        count) and files every state passed.  STALE rounds without progress: start again from scratch.
        Everything is a function of the seed and of what the implementation printed: no clock, no shared state."""
        W, CAP, Q, P, STALE = 0.02, 40, 3, 0.15, 60

        def __init__(self, check, w, seed, fl):
            self.check, self.w, self.fl = check, w, fl
            self.rng = __import__('random').Random(seed)
            self.head = '@%s search' % fl
            self.crashes = 0
            self.rounds = 0
            self.restart()

        def score(self, cell):
            n, d, bad = cell
            return d - 1.4405 * math.log2(n + 2) + self.W * min(bad, self.CAP)

        def restart(self):
            rng, head = self.rng, self.head
            self.arch, self.expanded = {}, set()
            self.best, self.stale = -1e9, 0
            batch = []
            for h in (4, 5, 6, 7):
                for lean in ('l', 'r', 'x', 'x'):
                    order, _ = shape_level_order(avl_shape(h, rng, 0.0, lean))
                    batch.append([head] + ['ins %d %d' % (k, i + 1) for i, k in enumerate(order)])
            for _ in range(8):
                keys = list(range(100))
                rng.shuffle(keys)
                batch.append([head] + ['ins %d %d' % (k, i + 1) for i, k in enumerate(keys[:rng.randrange(8, 40)])])
            self.batch = batch

        def round(self):
            """run the current batch, file the states, prepare the next batch; -> a history that exceeds the bound, or None"""
            if self.crashes > 30:
                return None
            self.rounds += 1
            rng, arch, Q = self.rng, self.arch, self.Q
            batch = self.batch
            obs, cr = vf.run_exe_on_cases(self.check.exes['impl'], batch, os.path.join(vf.BUILD, self.check.id, 'run'),
                                          'search_w%d' % self.w, is_impl=True, per_case_timeout=4 * self.check.per_case_timeout)
            self.crashes += len(cr)
            for c, o in zip(batch, obs):
                for (k, n, d, bad, h, cmps) in C01.search_lines(o):
                    if 2 * d > bound(n) or (cmps is not None and cmps > bound(n)):
                        return ['@' + self.fl] + c[1:k + 2]
                    if n < 4:
                        continue
                    cell = (n, d, bad // Q * Q)
                    lst = arch.setdefault(cell, [])
                    if any(h == x[1] for x in lst):
                        continue
                    if len(lst) < 6:
                        lst.append((c[:k + 2], h))
                    elif rng.random() < 0.3:
                        lst[rng.randrange(6)] = (c[:k + 2], h)
            cells = sorted(arch.keys(), key=lambda c: (-self.score(c), c))
            if cells and self.score(cells[0]) > self.best + 1e-9:
                self.best, self.stale = self.score(cells[0]), 0
            else:
                self.stale += 1
            if not cells or self.stale >= self.STALE:
                self.restart()
                return None
            batch = []
            nexp = 0
            for cell in cells[:12]:
                for ops, h in arch[cell]:
                    if h in self.expanded or nexp >= 4:
                        continue
                    self.expanded.add(h)
                    nexp += 1
                    ks = C01.search_keys(ops)
                    for k in sorted(ks):
                        batch.append(list(ops) + ['remk %d' % k])
                    top = max(ks) + 4 if ks else 10
                    for _ in range(10):
                        k = rng.randrange(-2, top)
                        if k not in ks:
                            batch.append(list(ops) + ['ins %d 7' % k])
            for _ in range(100):
                i = 0
                while i < len(cells) - 1 and rng.random() > self.P:
                    i += 1
                ops, _h = rng.choice(arch[cells[i]])
                ks = C01.search_keys(ops)
                ops = list(ops)
                top = max(ks) + 4 if ks else 10
                for _ in range(rng.choice([1, 1, 2, 2, 3, 4, 6, 8])):
                    if ks and rng.random() < 0.65:
                        k = rng.choice(sorted(ks))
                        ops.append('remk %d' % k)
                        ks.discard(k)
                    else:
                        k = rng.randrange(-2, top)
                        if k in ks:
                            continue
                        ops.append('ins %d 7' % k)
                        ks.add(k)
                if len(ops) <= 200:
                    batch.append(ops)
            self.batch = batch
            return None

    def depth_search(self, rng, flavours, rounds, workers=3):
        """Adversarial search for a history on which the implementation's tree gets deeper, or a find more expensive,
        than the bound allows (see Explorer).  Runs when a stream showed implementation != model in the Item fields
        without a property failure: a re-balancing slip shows there long before the depth bound breaks on random
        input.  `workers` explorers, seeded from the run's seed, advance in lock step (round r of all of them, in
        parallel, then round r + 1) for `rounds` rounds shared between the flavours - a number of steps, not a time:
        the same seed on the same tree visits the same histories whatever the load of the machine.  The search only
        PROPOSES a history (ins / remk by key); whether it is a failing input is decided by the ordinary property
        oracle (judge: reference by rank/key/value, depth and comparison bound, repeated once).
        Returns [(case, reason)]."""
        from concurrent.futures import ThreadPoolExecutor
        out = []
        share = max(1, rounds // max(1, len(flavours)))
        for fl in flavours:
            t1 = time.time()
            exps = [self.Explorer(self, w, rng.randrange(1 << 30), fl) for w in range(workers)]
            done = 0
            with ThreadPoolExecutor(max_workers=workers) as ex:
                for r in range(share):
                    cands = [c for c in ex.map(lambda e: e.round(), exps) if c]
                    done = r + 1
                    if cands or all(e.crashes > 30 for e in exps):
                        break
            for cand in (cands if done else []):
                pf = self.property_fails(cand)
                if pf:
                    out.append((cand, pf[2]))
            vf.log('[C01] depth search (%s, %d explorers, %d of %d rounds): %s after %.0fs' % (
                fl, workers, done, share, 'FOUND' if out else 'nothing found', time.time() - t1))
            if out:
                break
        return out

    corr_flavours = set()
    prop_failed = False
    SEARCH_ROUNDS = {'quick': 600, 'thorough': 1800}

    def extra_checks(self, tier, rng, ctx):
        self.corr_flavours = set(self.corr_flavours)
        if ctx['violations'] or self.prop_failed:
            return
        flavours = sorted(self.corr_flavours)
        rounds = 0
        if flavours:
            rounds = self.SEARCH_ROUNDS['thorough' if tier == 'thorough' else 'quick']
        elif tier == 'thorough':
            flavours, rounds = ['map', 'multimap'], 160
        if not flavours:
            return
        found = self.depth_search(rng, flavours, rounds)
        if not found:
            return
        found.sort(key=lambda x: (len(x[0]), x[0]))
        case, reason = found[0]
        pred = lambda c: self.property_fails(c) is not None
        small = self.shrink(case, pred, budget=300)
        r2 = self.property_fails(small)
        if not r2:
            # the shrunk history has to fail when run again; else fall back to the confirmed candidate
            small, r2 = case, self.property_fails(case)
            if not r2:
                vf.log('[C01] depth search: the candidate did not fail again when re-run - not reported')
                return
        p = self.write_replay('failing-input', 'property oracle on implementation observations (depth search after a model/implementation difference)',
                              small, {'reason': r2[2], 'original_length': len(case)})
        ctx['violations'].append((p, ''))

    def streams(self, tier, rng):
        thorough = tier == 'thorough'
        out = []
        # boundary stream: empty containers, single entries, key 0 (the sentinel's default key), negatives
        cases = []
        for fl in ('map', 'multimap'):
            cases.append(['@' + fl, 'find 0', 'has 0', 'count 0', 'front', 'back', 'remf', 'remb', 'remk 0', 'remi 0', 'clear', 'hint 0 0 1', 'count 0', 'find 0', 'remb', 'count 0'])
            cases.append(['@' + fl, 'ins 0 1', 'count 0', 'find 0', 'count 1', 'remk 0', 'count 0'])
            cases.append(['@' + fl, 'ins -5 1', 'ins -7 2', 'ins 0 3', 'ins -6 4', 'count 0', 'count -6', 'find -7', 'hint 9 -8 5', 'hint 0 -9 6', 'back', 'front'])
            cases.append(['@' + fl, 'ins 5 1', 'ins 5 2', 'ins 5 3', 'count 5', 'find 5', 'remk 5', 'count 5', 'find 5'])
            cases.append(['@' + fl, 'sel 1', 'ins 1 1', 'sel 0', 'copy', 'bulk', 'copyc', 'sel 1', 'bulk', 'bulk', 'copy', 'clear', 'sel 0', 'copy'])
            cases.append(['@' + fl, 'copys', 'ins 2 1', 'copys', 'ins 1 2', 'ins 3 3', 'copys', 'find 2', 'sel 1', 'copys', 'copy', 'copys', 'remf', 'sel 0', 'copyc', 'copys', 'back'])
            # copy / assign over a non-empty target, then keep using both objects
            cases.append(['@' + fl, 'ins 4 1', 'ins 2 2', 'ins 6 3', 'sel 1', 'ins 9 4', 'ins 8 5', 'ins 7 6', 'ins 1 7', 'copy', 'ins 5 8', 'remk 2',
                          'sel 0', 'find 2', 'count 4', 'copyc', 'hint 0 0 9', 'sel 1', 'back', 'front', 'remb', 'sel 0', 'back'])
        # MultiMap copies keep the order inside runs of equal keys (values tell the entries apart)
        cases.append(['@multimap', 'ins 5 1', 'ins 5 2', 'ins 5 3', 'sel 1', 'copy', 'find 5', 'count 5', 'front', 'back', 'remk 5', 'front', 'sel 0', 'copyc', 'front', 'count 5'])
        cases.append(['@multimap', 'ins 3 1', 'ins 5 2', 'ins 3 3', 'ins 5 4', 'hint 0 3 5', 'hint 9 5 6', 'ins 4 7', 'ins 3 8', 'sel 1', 'ins 3 9', 'copyc',
                      'count 3', 'find 3', 'find 5', 'remk 3', 'find 3', 'sel 0', 'copy', 'count 3', 'find 3', 'remf', 'remb', 'sel 1', 'copy', 'back'])
        out.append(Stream('boundary', cases))
        # profile streams
        reps = 20 if thorough else 2
        for prof in PROFILES:
            cases = []
            for multi in (False, True):
                if prof == 'equal' and not multi:
                    continue
                for R in (4, 8, 30, 200):
                    for length in ([1, 2, 3, 5, 8, 13, 21, 40, 80, 150, 300] if thorough else [3, 7, 12, 25, 60, 140, 300]):
                        for _ in range(reps if length < 100 else max(1, reps // 2)):
                            cases.append(profile_case(rng, multi, R, length, prof))
            out.append(Stream(prof, cases))
        # reset followed by hinted insert (small exhaustive scope)
        out.append(Stream('reset_hint', reset_hint_cases(thorough)))
        # every tree shape of n keys (all insertion orders), every removal rank, then a few more operations:
        # the case split of remove() at the pointer level (leaf / one child / successor or predecessor as direct
        # child or deeper) in every small configuration, with the raw cells compared after each step
        cases = []
        for fl in ('map', 'multimap'):
            for n in ((4, 5, 6) if thorough else (5,)):
                for perm in itertools.permutations(range(1, n + 1)):
                    if fl == 'multimap' and n > 4 and perm[0] > 2:
                        continue
                    pre = ['@' + fl] + ['ins %d %d' % (10 * k, i + 1) for i, k in enumerate(perm)]
                    for r in range(n):
                        cases.append(pre + ['remi %d' % r, 'ins 5 90', 'hint %d 35 91' % (n // 2), 'remb', 'remf', 'remi 1'])
        out.append(Stream('shapes', cases))
        # fill ascending, drain one side: balance is the only thing at stake
        cases = []
        for multi in (False, True):
            for N in ([15, 31, 63, 100, 127, 200, 255] if thorough else [15, 31, 60]):
                for pattern in ('pow2', 'pow2_front', 'every8', 'front', 'back', 'median', 'quartiles') + (('dups',) if multi else ()):
                    for how in (('key', 'iter', 'ends') if (thorough or N <= 31) else (rng.choice(['key', 'iter', 'ends']),)):
                        cases.append(drain_case(rng, multi, N, pattern, how))
        out.append(Stream('drain', cases))
        # sparsest AVL trees (Fibonacci trees and near misses) built without a rotation, then removals / inserts where
        # re-balancing is triggered: only there the depth bound is tight
        out.append(Stream('sparse', sparse_cases(rng, thorough)))
        return out


CHECK = C01
