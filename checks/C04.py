import itertools, os, re, sys
from vf import Check, Stream, log, first_diff, run_exe_on_cases, BUILD

NV = 3
KINDS = ['array', 'list', 'map', 'multimap', 'hashmap', 'hashset', 'poollist', 'poolmap']
HAS_KEY = {'map', 'multimap', 'hashmap', 'hashset', 'poolmap'}
HAS_VAL = {'array', 'list', 'map', 'multimap', 'hashmap', 'poollist', 'poolmap'}
NEED_VAL = HAS_VAL - {'poolmap'}
COPYABLE = {'array', 'list', 'map', 'multimap', 'hashmap', 'hashset'}
UNIQUE = {'map', 'hashmap', 'hashset', 'poolmap'}
CAN_ADDALL = {'array', 'list', 'map', 'hashset'}
CAN_SWAP = {'array', 'list', 'hashmap', 'hashset', 'poollist', 'poolmap'}
HAS_CAPCTOR = {'array', 'hashmap', 'hashset', 'poolmap'}
SORTED = {'map', 'multimap'}
# the one-line wrappers around insert(begin() / end(), ..): List / HashMap / HashSet::prepend, append; PoolMap::append
WRAP = {'list': 'fb', 'hashmap': 'fb', 'hashset': 'fb', 'poolmap': 'b'}


# ------------------------------------------------------------------------------------------
# generators.  A tiny picture of the variables (kind, upper bound of the size) lets the
# generated ops mostly hit their preconditions.  Nothing expected is computed here: expected
# observations come from the extracted spec / model.
# ------------------------------------------------------------------------------------------
class Pic:
    def __init__(self, collide=False):
        self.kind = [None] * NV
        self.size = [0] * NV
        self.collide = collide

    def key(self, rng):
        return rng.choice(COLLIDING) if self.collide else small(rng)

    def live(self):
        return [x for x in range(NV) if self.kind[x]]

    def dead(self):
        return [x for x in range(NV) if not self.kind[x]]


def small(rng):
    return rng.randrange(0, 7)


# HashMap / HashSet / PoolMap: 500 buckets by default and hash(key) = payload in the harness, so
# these keys share buckets (1, 501, 1001, 1501) and (2, 502)
TABLE = ('hashmap', 'hashset', 'poolmap')
COLLIDING = [1, 501, 1001, 1501, 2, 502]


def ref(rng, pic, x, alias, want_key):
    """an element reference (own container preferred), or None"""
    if not alias or rng.random() >= alias:
        return None
    pool = HAS_KEY if want_key else HAS_VAL
    ys = [y for y in pic.live() if pic.kind[y] in pool and pic.size[y] > 0]
    if x in ys and rng.random() < 0.8:
        ys = [x]
    if not ys:
        return None
    y = rng.choice(ys)
    n = pic.size[y]
    return '%s%d.%d' % ('k' if want_key else 'v', y, rng.choice([0, n - 1, rng.randrange(n)]))


def ins_op(rng, pic, x, alias, p=None):
    k = pic.kind[x]
    n = pic.size[x]
    if p is None:
        p = rng.choice(['f', 'b', 'b', str(rng.randrange(n + 1))])
    ka = (ref(rng, pic, x, alias, True) or str(pic.key(rng))) if k in HAS_KEY else '-'
    va = (ref(rng, pic, x, alias, False) or str(small(rng))) if k in NEED_VAL else '-'
    pic.size[x] += 1
    if p in WRAP.get(k, '') and rng.random() < 0.5:
        return 'insw %d %s %s %s' % (x, p, ka, va)       # prepend(..) / append(..)
    return 'ins %d %s %s %s' % (x, p, ka, va)


def gen_case(rng, kind, nops, alias=0.25, valid=True, mixed=False, collide=False):
    """history over NV variables of one kind (or two kinds)"""
    pic = Pic(collide)
    ops = []
    kinds = [kind] if not mixed else [kind, rng.choice(KINDS)]

    def new(x):
        k = rng.choice(kinds)
        if (k in HAS_CAPCTOR or not valid) and rng.random() < 0.3:
            # (capacity) constructors; table kinds: few buckets, so that keys share them
            ops.append('newcap %d %s %d' % (x, k, rng.choice([0, 1, 2, 3, 5, 8]) if k != 'array' else rng.choice([0, 1, 3, 4, 6, 9])))
            if k not in HAS_CAPCTOR:
                return
        else:
            ops.append('new %d %s' % (x, k))
        pic.kind[x] = k
        pic.size[x] = 0

    new(0)
    for _ in range(nops):
        lv = pic.live()
        r = rng.random()
        if not lv or (r < 0.05 and pic.dead()):
            new(rng.choice(pic.dead()))
            continue
        x = rng.choice(lv) if valid or rng.random() < 0.9 else rng.randrange(NV + 1)
        if x >= NV or not pic.kind[x]:
            ops.append(rng.choice(['clear %d' % x, 'del %d' % x, 'remat %d 0' % x, 'ins %d b 1 1' % x,
                                   'asg %d %d' % (x, rng.randrange(NV)), 'copy %d %d' % (rng.randrange(NV), x)]))
            continue
        k = pic.kind[x]
        n = pic.size[x]
        same = [y for y in lv if pic.kind[y] == k]
        y = rng.choice(same) if rng.random() < 0.6 else x
        if not valid and rng.random() < 0.15:
            y = rng.randrange(NV + 1)
        r3 = rng.random()
        if r3 < 0.16:
            # third round: sort, find, hinted insert, in-place construction, append from foreign storage
            if k == 'list' and r3 < 0.05:
                ops.append('sort %d' % x)
                continue
            if k != 'poollist' and r3 < 0.08:
                a = (ref(rng, pic, x, alias, True) if k in HAS_KEY else ref(rng, pic, x, alias, False)) or str(pic.key(rng) if k in HAS_KEY else small(rng))
                ops.append('find %d %s' % (x, a))
                continue
            if k in SORTED:
                p = rng.choice(['f', 'b', str(rng.randrange(n + 1)), str(max(n - 1, 0))])
                ops.append('inshint %d %s %s %s' % (x, p, ref(rng, pic, x, alias * 1.5, True) or str(small(rng)),
                                                    ref(rng, pic, x, alias * 1.5, False) or str(small(rng))))
                pic.size[x] += 1
                continue
            if k == 'poollist':
                m = rng.choice([0, 2, 3, 4, 5, 6, 7, 1, rng.randrange(0, 9)])
                ops.append('emplace %d %s' % (x, ' '.join(ref(rng, pic, x, 0.5, False) or str(small(rng)) for _ in range(m))))
                if m <= 7:
                    pic.size[x] += 1
                continue
            if k == 'array' and r3 < 0.12:
                m = rng.choice([0, 1, 2, (n | 3) - n, (n | 3) - n + 1, rng.randrange(0, 9)])
                ops.append('appvals %d %s' % (x, ' '.join(str(small(rng)) for _ in range(m))))
                pic.size[x] += m
                continue
            if not valid:
                ops.append(rng.choice(['sort %d' % x, 'find %d 1' % x, 'inshint %d b 1 1' % x, 'emplace %d 1 2' % x, 'appvals %d 1' % x,
                                       'insw %d f 1 1' % x, 'insw %d b k%d.0 v%d.0' % (x, x, x),
                                       'find %d k%d.0' % (x, x), 'find %d v%d.0' % (x, x), 'newcap %d %s 3' % (x, k)]))
                continue
        if r < 0.45:
            ops.append(ins_op(rng, pic, x, alias))
        elif r < 0.57:
            i = rng.choice([0, max(n - 1, 0), rng.randrange(max(n, 1))]) if valid else rng.randrange(n + 2)
            how = rng.random()
            if (k == 'array' and how > (0.82 if valid else 0.7)) or (not valid and how > 0.93):
                # round 6: Array::remove(index) with an index that is not in the array (accepted; nothing happens)
                ops.append('remout %d %d' % (x, rng.choice([n, n, n, n + 1, n + rng.randrange(1, 300), 255, 256, 65536, 1 << 31, 1 << 32,
                                                            (1 << 63) - 1, 1 << 63, (1 << 64) - 1, (1 << 64) - 1 - n]
                                                           + ([] if valid else [max(n - 1, 0), 0]))))
            elif how < 0.25 and (n > 0 or not valid):
                ops.append('rempop %d %s' % (x, rng.choice('fb')))     # removeFront() / removeBack()
                if n > 0:
                    pic.size[x] -= 1
            elif how < 0.5 and (k == 'array' or not valid):
                ops.append('rematit %d %d' % (x, i))                   # Array::remove(const Iterator&)
                if i < n and k == 'array':
                    pic.size[x] -= 1
            else:
                ops.append('remat %d %d' % (x, i))
                if i < n:
                    pic.size[x] -= 1
        elif r < 0.63:
            a = (ref(rng, pic, x, alias, True) if k in HAS_KEY else ref(rng, pic, x, alias, False)) or str(pic.key(rng) if k in HAS_KEY else small(rng))
            if not valid and rng.random() < 0.2:
                a = rng.choice(['k%d.%d' % (rng.randrange(NV), rng.randrange(5)), 'v%d.%d' % (rng.randrange(NV), rng.randrange(5))])
            ops.append('remkey %d %s' % (x, a))
        elif r < 0.66:
            ops.append('clear %d' % x)
            pic.size[x] = 0
        elif r < 0.72:
            ops.append('asg %d %d' % (x, y))
            if k in COPYABLE and y < NV and pic.kind[y] == k:
                pic.size[x] = pic.size[y]
        elif r < 0.77:
            d = pic.dead()
            if d and k in COPYABLE:
                z = rng.choice(d)
                ops.append('copy %d %d' % (z, x))
                pic.kind[z] = k
                pic.size[z] = n
            else:
                ops.append('asg %d %d' % (x, x))
        elif r < 0.82:
            ops.append('swap %d %d' % (x, y))
            if k in CAN_SWAP and y < NV and pic.kind[y] == k:
                pic.size[x], pic.size[y] = pic.size[y], pic.size[x]
        elif r < 0.88:
            p = rng.choice(['f', 'b', str(rng.randrange(n + 1))])
            ops.append('addall %d %s %d' % (x, p, y))
            if k in CAN_ADDALL and y < NV and pic.kind[y] == k:
                pic.size[x] += pic.size[y]
        elif r < 0.90 and k == 'array':
            # x.append(&y[i], m): a pointer into y's storage, y = x in most cases
            ny = pic.size[y] if y < NV and pic.kind[y] == k else 0
            i = rng.choice([0, ny // 2, rng.randrange(ny + 1)])
            m = rng.choice([0, 1, ny - i, rng.randrange(ny - i + 1)]) if valid else rng.randrange(ny + 2)
            ops.append('apprange %d %d %d %d' % (x, y, i, m))
            if i + m <= ny and y < NV and pic.kind[y] == k:
                pic.size[x] += m
        elif r < 0.90:
            ops.append('remall %d %d' % (x, y))
        elif r < 0.94 and k == 'array':
            ops.append('reserve %d %d' % (x, rng.choice([0, n, n + 1, n + 4, rng.randrange(0, 20)])))
        elif r < 0.98 and k == 'array':
            m = rng.choice([0, n, n + 1, max(n - 1, 0), rng.randrange(0, 14)])
            ops.append('resize %d %d %s' % (x, m, ref(rng, pic, x, alias, False) or str(small(rng))))
            pic.size[x] = m
        else:
            ops.append('del %d' % x)
            pic.kind[x] = None
            pic.size[x] = 0
    return ops


def fill(kind, x, n, base=1):
    """n distinct elements into variable x"""
    out = []
    for i in range(n):
        ka = str(base + i) if kind in HAS_KEY else '-'
        va = str(10 * (base + i)) if kind in NEED_VAL else '-'
        out.append('ins %d b %s %s' % (x, ka, va))
    return out


def boundary_cases(thorough):
    """Array: append(a[i]) / resize(m, a[i]) / append(a) at and away from the capacity boundary
    (capacities are n|3), with and without a reserve() in front; remove at every index."""
    cases = []
    top = 13 if thorough else 9
    for n in range(0, top):
        idxs = sorted({0, n // 2, n - 1}) if n else []
        for i in idxs:
            cases.append(['new 0 array'] + fill('array', 0, n) + ['ins 0 b - v0.%d' % i, 'ins 0 b - v0.%d' % i])
            cases.append(['new 0 array'] + fill('array', 0, n) + ['reserve 0 %d' % (n + 1), 'ins 0 b - v0.%d' % i])
            for m in sorted({0, n - 1, n, n + 1, (n | 3), (n | 3) + 1, n + 6}):
                if m >= 0:
                    cases.append(['new 0 array'] + fill('array', 0, n) + ['resize 0 %d v0.%d' % (m, i)])
            cases.append(['new 0 array'] + fill('array', 0, n) + ['reserve 0 %d' % (n + 5), 'resize 0 %d v0.%d' % (n + 3, i)])
            cases.append(['new 0 array'] + fill('array', 0, n) + ['remat 0 %d' % i, 'ins 0 b - v0.0' if n > 1 else 'ins 0 b - 1'])
            for m in sorted({1, n - i, (n | 3) - n, (n | 3) - n + 1} - {0}):
                if 0 < m <= n - i:
                    # append(&a[i], m): at, below and above the capacity n|3; twice; after a reserve
                    cases.append(['new 0 array'] + fill('array', 0, n) + ['apprange 0 0 %d %d' % (i, m), 'apprange 0 0 %d %d' % (i, m)])
                    cases.append(['new 0 array'] + fill('array', 0, n) + ['reserve 0 %d' % (n + m), 'apprange 0 0 %d %d' % (i, m), 'rematit 0 %d' % i])
            cases.append(['new 0 array'] + fill('array', 0, n) + ['rematit 0 %d' % i, 'rempop 0 f', 'rempop 0 b', 'ins 0 b - v0.0' if n > 3 else 'ins 0 b - 1'])
        cases.append(['new 0 array'] + fill('array', 0, n) + ['apprange 0 0 0 %d' % n, 'apprange 0 0 %d 0' % n, 'apprange 0 0 0 %d' % (2 * n)])
        cases.append(['new 0 array'] + fill('array', 0, n) + ['new 1 array'] + fill('array', 1, 3, 50) +
                     ['apprange 0 1 1 2', 'apprange 1 0 0 %d' % min(n, 2), 'apprange 1 1 2 3', 'apprange 0 0 %d 1' % (n + 1)])
        cases.append(['new 0 array'] + fill('array', 0, n) + ['addall 0 b 0', 'addall 0 b 0'])
        cases.append(['new 0 array'] + fill('array', 0, n) + ['asg 0 0', 'copy 1 0', 'asg 1 1', 'asg 0 1', 'swap 0 0', 'swap 0 1'])
        cases.append(['new 0 array'] + fill('array', 0, n) + ['new 1 array'] + fill('array', 1, 2, 50) +
                     ['ins 0 b - v1.0', 'addall 0 b 1', 'resize 1 %d v0.0' % (n + 2) if n else 'resize 1 3 7', 'asg 1 0', 'clear 0'])
    return cases


def remout_cases(thorough):
    """round 6 - Array::remove(usize index) with size <= index: index == size, size + 1, far away, at the widths
    of narrower integer types and at the top of usize; on arrays that never had storage, that are empty with
    storage (fresh / stale slots), full to the capacity (n|3 == n), with raw spare slots, with a stale
    (destroyed) object in the slot behind the last element; on a copy; the array is used on afterwards"""
    cases = []
    HUGE = [255, 256, 65535, 65536, (1 << 31) - 1, 1 << 31, (1 << 32) - 1, 1 << 32, (1 << 32) + 1, (1 << 63) - 1, 1 << 63, (1 << 64) - 2, (1 << 64) - 1]
    top = 10 if thorough else 9
    for n in range(0, top):
        base = ['new 0 array'] + fill('array', 0, n)
        own = 'ins 0 b - v0.%d' % (n - 1) if n else 'ins 0 b - 3'
        tails = [[own, 'remat 0 0', 'remout 0 %d' % n, 'del 0'],
                 ['remat 0 %d' % (n - 1) if n else 'clear 0', own if n > 1 else 'ins 0 b - 4', 'copy 1 0', 'del 0', 'remout 1 %d' % max(n, 1)],
                 ['clear 0', 'remout 0 0', 'ins 0 b - 5']]
        idx = [n, n + 1, 2 * n + 5] + ([(1 << 64) - 1 - n, (1 << 64) - n, (1 << 32) + n, 256 + n] if n else [])
        for j, i in enumerate(idx):
            cases.append(base + ['remout 0 %d' % i] + tails[j % len(tails)])
        # the slot behind the last element holds a destroyed object / is raw spare storage / does not exist
        cases.append(base + ['ins 0 b - 77', 'rempop 0 b', 'remout 0 %d' % n, 'remout 0 %d' % n, own, 'del 0'])
        cases.append(base + ['reserve 0 %d' % (n + 3), 'remout 0 %d' % n, 'remout 0 %d' % (n + 1), own, 'remout 0 %d' % (n + 1), 'clear 0', 'remout 0 0', 'del 0'])
        cases.append(base + ['resize 0 %d 6' % (n | 3), 'remout 0 %d' % (n | 3), 'ins 0 b - v0.0', 'remout 0 %d' % ((n | 3) + 1)])
        if n:
            cases.append(base + ['remat 0 0', 'remout 0 %d' % (n - 1), 'remout 0 %d' % n, 'rematit 0 0' if n > 1 else 'ins 0 b - 1', 'remout 0 %d' % (n - 1), 'asg 0 0', 'del 0'])
            cases.append(base + ['copy 1 0', 'remout 1 %d' % n, 'asg 0 1', 'remout 0 %d' % n, 'swap 0 1', 'remout 1 %d' % (n + 2), 'addall 0 b 1', 'remout 0 %d' % (2 * n), 'del 1', 'del 0'])
            cases.append(base + ['clear 0', 'remout 0 0', 'remout 0 %d' % n, 'ins 0 b - 1', 'remout 0 1', 'del 0'])
            cases.append(base + ['resize 0 %d 1' % (n - 1), 'remout 0 %d' % (n - 1), 'remout 0 %d' % n, own if n > 1 else 'ins 0 b - 2'])
    for h in HUGE:
        for n in (0, 1, 3, 4):
            cases.append(['new 0 array'] + fill('array', 0, n) + ['remout 0 %d' % h, 'ins 0 b - v0.0' if n else 'ins 0 b - 2', 'remout 0 %d' % h, 'del 0'])
    for c in (0, 1, 2, 4):
        cases.append(['newcap 0 array %d' % c, 'remout 0 0', 'remout 0 1', 'remout 0 %d' % c, 'ins 0 b - 1', 'remout 0 1', 'remout 0 %d' % max(c, 1), 'del 0'])
    # not an array / a dead variable / an index that IS in the array: not this call
    for kind in KINDS:
        if kind != 'array':
            cases.append(['new 0 %s' % kind] + fill(kind, 0, 2) + ['remout 0 2', 'remout 0 5', 'remat 0 1', 'remout 0 1'])
    cases.append(['new 0 array'] + fill('array', 0, 3) + ['remout 0 2', 'remout 0 0', 'remout 1 0', 'remout 0 3', 'del 0', 'remout 0 0'])
    return cases


def selfarg_cases(thorough):
    """every kind: self-assignment, copies of copies, the container as its own argument, own
    keys / values as arguments, at sizes around the item-block size (4)"""
    cases = []
    sizes = range(0, 10) if thorough else [0, 1, 3, 4, 5, 8]
    for kind in KINDS:
        for n in sizes:
            base = ['new 0 %s' % kind] + fill(kind, 0, n)
            if kind in COPYABLE:
                cases.append(base + ['asg 0 0', 'asg 0 0', 'copy 1 0', 'asg 1 1', 'copy 2 1', 'asg 0 2', 'del 1',
                                     'ins 0 b 99 990' if kind in HAS_KEY and kind in NEED_VAL else ('ins 0 b 99 -' if kind in HAS_KEY else 'ins 0 b - 990'),
                                     'asg 2 0', 'del 0'])
                cases.append(base + ['copy 1 0', 'clear 0', 'asg 0 1', 'remat 1 0', 'asg 1 0', 'swap 0 1', 'swap 1 1'])
            else:
                cases.append(base + ['asg 0 0', 'copy 1 0', 'new 1 %s' % kind, 'swap 0 1', 'swap 1 1', 'clear 1', 'swap 0 1'])
            if kind in CAN_ADDALL:
                ps = ['f', 'b'] + ([str(n // 2), '1'] if kind == 'list' and n else [])
                for p in ps:
                    cases.append(base + ['addall 0 %s 0' % p, 'addall 0 %s 0' % p, 'remat 0 0' if n else 'clear 0'])
                cases.append(base + ['copy 1 0', 'addall 0 b 1', 'addall 1 f 0', 'del 0'])
            cases.append(base + ['rempop 0 f', 'rempop 0 b', 'rempop 0 b', 'rematit 0 0',
                                 'ins 0 b %s %s' % ('7' if kind in HAS_KEY else '-', '70' if kind in NEED_VAL else '-'),
                                 'rempop 0 f', 'rempop 0 f'])
            if kind == 'hashset':
                cases.append(base + ['remall 0 0', 'ins 0 b 5 -', 'copy 1 0', 'remall 0 1', 'remall 1 1'])
            if n:
                for i in sorted({0, n - 1, n // 2}):
                    ka = 'k0.%d' % i if kind in HAS_KEY else '-'
                    va = 'v0.%d' % i if kind in NEED_VAL else '-'
                    for p in ['f', 'b']:
                        cases.append(base + ['ins 0 %s %s %s' % (p, ka, va), 'ins 0 %s %s %s' % (p, ka, va)])
                        if p in WRAP.get(kind, ''):
                            cases.append(base + ['insw 0 %s %s %s' % (p, ka, va), 'insw 0 %s %s %s' % (p, ka, va)])
                    if kind in HAS_KEY and kind in NEED_VAL:
                        cases.append(base + ['ins 0 b 77 v0.%d' % i, 'ins 0 b k0.%d 5' % i, 'ins 0 f k0.%d v0.%d' % (i, (i + 1) % n)])
                    if kind not in ('array', 'poollist'):
                        a = 'k0.%d' % i if kind in HAS_KEY else 'v0.%d' % i
                        cases.append(base + ['remkey 0 %s' % a, 'remkey 0 %s' % (a if n > 1 else '1')])
    return cases


def collision_cases(thorough):
    """HashMap / HashSet / PoolMap with keys that share a bucket: every insertion order of three
    (thorough: also four) colliding keys, at the front / the back of the iteration order; one of
    them removed through each removing entry point; then the removed key is looked up, removed
    again, re-inserted, another colliding key inserted, the other keys removed, the rest cleared."""
    cases = []
    keysets = [[1, 501, 1001]] + ([[1, 501, 1001, 1501]] if thorough else [])
    for kind in TABLE:
        va = (lambda z: str(z % 97)) if kind in NEED_VAL else (lambda z: '-')
        for keys in keysets:
            for perm in itertools.permutations(keys):
                for fronts in ([False, True] if len(keys) == 3 else [False]):
                    base = ['new 0 %s' % kind, 'ins 0 b 7 %s' % va(7)]
                    order = [7]                                   # iteration order
                    for j, key in enumerate(perm):
                        if fronts and j % 2:
                            base.append('%s 0 f %d %s' % ('insw' if kind in WRAP and 'f' in WRAP[kind] else 'ins', key, va(key)))
                            order.insert(0, key)
                        else:
                            base.append('%s 0 b %d %s' % ('insw' if fronts else 'ins', key, va(key)))
                            order.append(key)
                    for victim in perm:
                        i = order.index(victim)
                        others = [k for k in perm if k != victim]
                        hows = ['remat 0 %d' % i, 'remkey 0 %d' % victim, 'remkey 0 k0.%d' % i]
                        if i == 0:
                            hows.append('rempop 0 f')
                        if i == len(order) - 1:
                            hows.append('rempop 0 b')
                        for how in hows:
                            cases.append(base + [how, 'remkey 0 %d' % victim, 'ins 0 b %d %s' % (victim, va(5)),
                                                 'ins 0 f 2001 %s' % va(3), 'remkey 0 %d' % others[0], 'remkey 0 %d' % others[-1],
                                                 'ins 0 b %d %s' % (others[0], va(1)), 'clear 0', 'ins 0 b %d %s' % (victim, va(2))])
                            cases.append(base + [how, 'ins 0 b k0.0 %s' % va(4), 'ins 0 b 2501 %s' % va(6), 'rempop 0 b',
                                                 'remkey 0 %d' % others[0], 'remkey 0 %d' % victim, 'swap 0 0'] +
                                         (['copy 1 0', 'remkey 1 %d' % others[-1], 'asg 0 1', 'asg 0 0'] if kind in COPYABLE else
                                          ['new 1 %s' % kind, 'swap 0 1', 'remkey 1 %d' % others[-1], 'ins 0 b %d %s' % (victim, va(8))]))
    return cases


def wrapper_cases(thorough):
    """round 5: prepend / append(key[, value]) of List, HashMap, HashSet, PoolMap::append(key) with the
    container's OWN key and / or value as arguments (first / middle / last element; table kinds also with
    keys that share a bucket), with a key that is present (HashMap: assigns the own value) or absent,
    at sizes around the item-block size; then the container is used on"""
    cases = []
    sizes = range(0, 10) if thorough else [1, 2, 4, 5, 8]
    for kind, ps in sorted(WRAP.items()):
        for n in sizes:
            for colliding in ([False, True] if kind in TABLE else [False]):
                keys = [1 + (500 * j if colliding else j) for j in range(n)]
                ka = lambda z: str(z) if kind in HAS_KEY else '-'
                va = lambda z: str(z % 89) if kind in NEED_VAL else '-'
                base = ['new 0 %s' % kind] + ['insw 0 %s %s %s' % (ps[j % len(ps)], ka(z), va(10 * z)) for j, z in enumerate(keys)]
                for i in sorted({0, n - 1, n // 2}) if n else []:
                    ko = 'k0.%d' % i if kind in HAS_KEY else '-'
                    vo = 'v0.%d' % i if kind in NEED_VAL else '-'
                    vo2 = 'v0.%d' % ((i + 1) % n) if kind in NEED_VAL else '-'
                    for p in ps:
                        tail = ['find 0 %s' % (ko if kind in HAS_KEY else vo), 'rempop 0 %s' % p, 'insw 0 %s %s %s' % (p, ko, vo)]
                        cases.append(base + ['insw 0 %s %s %s' % (p, ko, vo), 'insw 0 %s %s %s' % (p, ko, vo2)] + tail)
                        if kind in HAS_KEY:
                            cases.append(base + ['insw 0 %s %s %s' % (p, ko, va(7)), 'remat 0 %d' % i, 'insw 0 %s %s %s' % (p, 'k0.0' if n > 1 else '3', va(8))] + tail[:1])
                        if kind in NEED_VAL:
                            cases.append(base + ['insw 0 %s %s %s' % (p, ka(9001), vo), 'insw 0 %s %s %s' % (p, ka(501), vo)] + tail[:2])
                cases.append(base + ['insw 0 %s %s %s' % (ps[0], ka(77), va(5)), 'insw 0 %s %s %s' % (ps[-1], ka(77), va(6)), 'clear 0',
                                     'insw 0 %s %s %s' % (ps[0], ka(1), va(1)), 'insw 0 %s %s %s' % (ps[-1], 'k0.0' if kind in HAS_KEY else '-', 'v0.0' if kind in NEED_VAL else '-')])
    for kind in ('array', 'map', 'multimap', 'poollist'):          # kinds without the wrappers: not performed
        cases.append(['new 0 %s' % kind] + fill(kind, 0, 2) + ['insw 0 f 1 1', 'insw 0 b 1 1', 'insw 0 b k0.0 v0.0'])
    cases.append(['new 0 poolmap', 'insw 0 b 1 -', 'insw 0 f 2 -', 'insw 0 f k0.0 -', 'insw 0 b k0.0 -', 'insw 0 b 501 -'])
    return cases


def swap_cases():
    """swap of two containers that both hold spare item slots (a block has 4 items), then elements
    are appended to and removed from BOTH sides, swapped back, destroyed in either order"""
    cases = []
    for kind in KINDS:
        if kind not in CAN_SWAP:
            continue
        ka = lambda z: str(z) if kind in HAS_KEY else '-'
        va = lambda z: str(z) if kind in NEED_VAL else '-'
        ins = lambda x, z: 'ins %d b %s %s' % (x, ka(z), va(10 * z))
        for n, m in [(1, 2), (0, 3), (4, 1), (5, 5), (3, 0), (2, 6)]:
            base = ['new 0 %s' % kind] + fill(kind, 0, n) + ['new 1 %s' % kind] + fill(kind, 1, m, 50)
            for dels in (['del 0', 'del 1'], ['del 1', 'del 0']):
                cases.append(base + ['swap 0 1', ins(0, 91), ins(1, 92), ins(0, 93), ins(1, 94), 'rempop 0 f', 'rempop 1 b',
                                     'swap 1 0', ins(1, 95), ins(0, 96), ins(1, 97), ins(0, 98), ins(0, 99)] + dels)
            cases.append(base + ['remat 0 0' if n else 'clear 0', 'clear 1', 'swap 0 1', ins(0, 91), ins(1, 92), ins(1, 93),
                                 ins(0, 94), ins(0, 95), ins(0, 96), ins(1, 97), 'clear 0', 'swap 0 1', ins(0, 98), ins(1, 99)])
    return cases


# ------------------------------------------------------------------------------------------
# third round: sort, hinted insert, in-place construction, capacity constructors
# ------------------------------------------------------------------------------------------
def sort_cases(thorough):
    """List::sort on every payload sequence over {1,2,3} up to length 5 (thorough: {1..4}, length 6:
    every pattern of ties and orders the partition loop can meet), on sorted / reversed / organ-pipe /
    all-equal lists around the item-block size, then the list is used on (own element inserted, an
    element removed, sorted again, copied, assigned to itself, swapped) so that a temporary that was
    kept alive or an element that was lost shows"""
    cases = []
    vals, top = ([1, 2, 3, 4], 6) if thorough else ([1, 2, 3], 5)
    tails = [['sort 0', 'ins 0 f - v0.0', 'sort 0', 'remat 0 0', 'sort 0'],
             ['sort 0', 'copy 1 0', 'sort 1', 'asg 0 0', 'addall 0 b 0', 'sort 0'],
             ['sort 0', 'rempop 0 b', 'ins 0 b - 0', 'sort 0', 'find 0 v0.0', 'clear 0', 'sort 0']]
    k = 0
    for n in range(0, top + 1):
        for seq in itertools.product(vals, repeat=n):
            k += 1
            cases.append(['new 0 list'] + ['ins 0 b - %d' % z for z in seq] + tails[k % 3])
    shapes = []
    for n in [2, 3, 4, 5, 7, 8, 9, 12, 16] + ([24, 33] if thorough else []):
        up = list(range(1, n + 1))
        shapes += [up, up[::-1], up[::2] + up[1::2][::-1], [5] * n, up[n // 2:] + up[:n // 2], [z % 3 for z in up]]
    for seq in shapes:
        cases.append(['new 0 list'] + ['ins 0 b - %d' % z for z in seq] +
                     ['sort 0', 'sort 0', 'new 1 list', 'ins 1 b - 3', 'swap 0 1', 'sort 1', 'sort 0', 'ins 1 f - v1.0', 'sort 1', 'del 1'])
        cases.append(['new 0 list'] + ['ins 0 f - %d' % z for z in seq] + ['remat 0 0', 'remat 0 0', 'ins 0 b - 2', 'sort 0', 'find 0 2'])
    return cases


def hint_cases(thorough):
    """Map / MultiMap::insert(position, key, value): every hint position x every key below / at /
    between / above the stored keys x literal or own-element key and value; trees of 4, 7 (thorough: 15)
    items so that the hinted item has subtrees; runs of hinted inserts (ascending with hint end(),
    descending with hint begin(), the previous position as hint); Map::insert(const Map&) with
    interleaved / contained / containing / the same map"""
    cases = []
    for kind in ('map', 'multimap'):
        for n in [0, 1, 4, 7] + ([15] if thorough else []):
            keys = [10 * (i + 1) for i in range(n)]
            if kind == 'multimap' and n >= 4:
                keys[1] = keys[0]            # a run of equal keys
                keys[-1] = keys[-2]
            base = ['new 0 %s' % kind] + ['ins 0 b %d %d' % (z, z + 1) for z in keys]
            hints = ['f', 'b'] + [str(i) for i in range(n)]
            probes = sorted({5, 10 * n + 5} | {z + d for z in keys for d in (-5, 0, 5)})
            for h in hints:
                for z in probes:
                    cases.append(base + ['inshint 0 %s %d 7' % (h, z), 'find 0 %d' % z, 'inshint 0 %s %d 8' % (h, z)])
                if n:
                    for i in sorted({0, n - 1, n // 2}):
                        # the key / the value argument is an element of the map itself
                        cases.append(base + ['inshint 0 %s k0.%d v0.%d' % (h, i, (i + 1) % n), 'inshint 0 %s %d v0.%d' % (h, 10 * i + 15, i),
                                             'inshint 0 %s k0.%d 3' % (h, i), 'remat 0 0', 'inshint 0 %s k0.0 v0.0' % h])
        # the usual way to use the hint
        up = ['inshint 0 b %d %d' % (z, z) for z in range(1, 12)]
        down = ['inshint 0 f %d %d' % (z, z) for z in range(11, 0, -1)]
        cases.append(['new 0 %s' % kind] + up + ['rempop 0 f', 'inshint 0 b 12 v0.0', 'clear 0'] + down)
        cases.append(['new 0 %s' % kind] + down + up[:4] + ['remat 0 3', 'inshint 0 3 4 v0.3'])
        cases.append(['new 0 %s' % kind] + ['inshint 0 %d %d %d' % (i // 2, (7 * i) % 11, i) for i in range(14)] + ['find 0 7', 'find 0 k0.2'])
    for a, b in [([1, 3, 5, 7], [2, 4, 6]), ([1, 2, 3], [1, 2, 3]), ([], [1, 2]), ([1, 2], []), ([5], [1, 2, 3, 4, 5, 6, 7, 8, 9]),
                 ([1, 2, 3, 4, 5, 6, 7, 8, 9], [5]), ([10, 20], [1, 2, 3, 4, 5]), ([1, 2], [10, 11, 12, 13, 14])]:
        base = (['new 0 map'] + ['ins 0 b %d %d' % (z, 10 * z) for z in a] + ['new 1 map'] + ['ins 1 b %d %d' % (z, 100 * z) for z in b])
        cases.append(base + ['addall 0 b 1', 'addall 0 b 0', 'addall 1 b 0', 'remat 0 0', 'addall 0 b 1', 'del 1', 'addall 0 b 0'])
        cases.append(base + ['addall 1 b 1', 'addall 1 b 0', 'clear 0', 'addall 0 b 1', 'inshint 0 b k1.0 v1.0'])
    return cases


def tie_cases(thorough):
    """round 5: MultiMap::insert(position, key, value) with the key of the hinted element <= key and the key
    of the element behind it == key (the landing place inside the following run of equal keys depends on the
    tree shape): runs of 1..5 (thorough: 8) equal keys behind 0 / 1 / 3 smaller keys and in front of 0 / 2
    greater ones, built in ascending / descending / inside-out insertion order (different tree shapes), every
    hint position that meets the case, literal and own-element arguments; then the map is used on"""
    cases = []
    for before in (0, 1, 3):
        for run in [1, 2, 3, 5] + ([8] if thorough else []):
            for after in (0, 2):
                keys = [10 * (i + 1) for i in range(before)] + [50] * run + [60 + 10 * i for i in range(after)]
                n = len(keys)
                idx = list(range(n))
                orders = [idx, idx[::-1], idx[n // 2:] + idx[:n // 2][::-1]]
                for order in orders:
                    # equal keys are linked behind the ones already there: tag values by insertion, the hint index is by position
                    base = ['new 0 multimap'] + ['ins 0 b %d %d' % (keys[i], i) for i in order]
                    for h in range(max(before - 1, 0), before + run - 1):
                        if keys[h] <= 50 and keys[h + 1] == 50:
                            cases.append(base + ['inshint 0 %d 50 7' % h, 'find 0 50', 'inshint 0 %d k0.%d v0.%d' % (h, h + 1, h),
                                                 'remat 0 %d' % (h + 1), 'inshint 0 %d 50 8' % h, 'copy 1 0', 'remkey 0 50', 'inshint 1 %d k0.%d v1.0' % (h, min(h + 1, n - 1)),
                                                 'del 0', 'inshint 1 %d 50 9' % h])
                    if before:
                        cases.append(base + ['inshint 0 f %d 1' % keys[1] if n > 1 else 'inshint 0 f 50 1', 'inshint 0 %d 50 2' % (before - 1),
                                             'inshint 0 %d 50 3' % (before - 1), 'inshint 0 %d k0.%d v0.%d' % (before, before, before), 'asg 0 0', 'clear 0'])
    return cases


def large_cases(thorough):
    """round 5: element counts just below / at / above 2^8 (a count or index kept in a narrower integer type
    shows here): Array filled through append(buffer, 60) to 255 / 256 / 257 elements, then own elements
    appended, removal at the last indices, resize across the boundary, append(&a[i], n) of the whole array,
    copy / assignment / self-append; PoolMap (thorough: also HashSet, PoolList) filled to 257 items, copied or
    swapped, last items removed, cleared.  (2^15 / 2^16 elements are out of reach of the extracted model, whose
    heap is an association list.)"""
    cases = []
    def arr(n, x=0):
        out = ['new %d array' % x]
        for i in range(0, n, 60):           # a line of the case file has at most 64 tokens
            out.append('appvals %d %s' % (x, ' '.join(str((7 * j) % 10) for j in range(i, min(i + 60, n)))))
        return out
    cases.append(arr(255) + ['ins 0 b - v0.0', 'ins 0 b - v0.255', 'remat 0 256', 'rematit 0 255', 'resize 0 258 v0.254', 'resize 0 255 1',
                             'apprange 0 0 0 255', 'rempop 0 b', 'find 0 v0.508'])
    cases.append(arr(256) + ['copy 1 0', 'asg 1 1', 'addall 1 b 0', 'remat 1 256', 'apprange 1 1 255 256', 'swap 0 1', 'clear 1', 'asg 1 0', 'del 0'])
    cases.append(arr(257) + ['reserve 0 300', 'apprange 0 0 1 256', 'rempop 0 b', 'resize 0 256 v0.0', 'resize 0 258 v0.255', 'find 0 v0.257', 'addall 0 b 0'])
    if not thorough:
        cases = [cases[0], cases[2]]      # the extracted model (unary instance ids) needs 5-120 s per case of this size
    # Map / MultiMap / HashMap with 257 items and List::sort on 257 elements cost the model 1-30 minutes: not run
    kinds = ['poolmap', 'hashset', 'poollist'] if thorough else ['poolmap']
    for kind in kinds:
        ka = lambda z: str(z) if kind in HAS_KEY else '-'
        va = lambda z: str(z % 10) if kind in NEED_VAL else '-'
        base = ['new 0 %s' % kind] + ['ins 0 b %s %s' % (ka((53 * i) % 1009), va(i)) for i in range(257)]
        tail = ['remat 0 256', 'rempop 0 b', 'ins 0 b %s %s' % ('k0.254' if kind in HAS_KEY else '-', 'v0.0' if kind in NEED_VAL else '-')]
        if kind in COPYABLE:
            tail += ['copy 1 0', 'asg 1 1', 'remat 1 254', 'asg 0 1', 'del 1']
        else:
            tail += ['new 1 %s' % kind, 'swap 0 1', 'swap 0 1']
        cases.append(base + tail + ['clear 0', 'ins 0 b %s %s' % (ka(1), va(1))])
    return cases


def emplace_cases():
    """PoolList::append(a1..an), n = 0..7 (and 8: not offered), at list sizes around the item-block
    size and with free slots; the arguments are integers or references to the list's own elements
    (first / last / the same one several times)"""
    cases = []
    for size in [0, 1, 3, 4, 5, 8]:
        base = ['new 0 poollist'] + fill('poollist', 0, size)
        for n in range(0, 9):
            own = ['v0.%d' % i for i in ([0, size - 1, size // 2] if size else [])]
            args1 = [str(j + 1) for j in range(n)]
            args2 = [(own[j % len(own)] if own and j % 2 == 0 else str(j)) for j in range(n)]
            args3 = [(own[0] if own else '9')] * n
            for args in (args1, args2, args3):
                cases.append(base + ['emplace 0 ' + ' '.join(args), 'emplace 0 ' + ' '.join(args), 'rempop 0 f',
                                     'emplace 0 ' + ' '.join(args[::-1]), 'remat 0 0', 'emplace 0'])
        cases.append(base + ['clear 0', 'emplace 0 1 2', 'emplace 0 v0.0 v0.0', 'new 1 poollist', 'emplace 1 v0.0 v0.1 5', 'swap 0 1',
                             'emplace 0 v0.0 v1.0', 'emplace 1 v1.0 v0.0 v1.1', 'del 0', 'emplace 1 v1.0'])
    return cases


def capacity_cases(thorough):
    """the (capacity) constructors: Array(c) then growth to, at and past c with own elements as
    arguments, copies / assignment / swap of arrays that have a capacity but no storage; HashMap /
    HashSet / PoolMap(c) with c = 0..3 buckets (every key shares a bucket) through all removing entry
    points, swapped with a default-constructed one"""
    cases = []
    for c in range(0, 10 if thorough else 8):
        a = 'newcap 0 array %d' % c
        cases.append([a, 'copy 1 0', 'asg 1 0', 'asg 0 1', 'swap 0 1', 'ins 1 b - 1', 'swap 0 1', 'ins 1 b - v0.0', 'asg 1 1', 'del 0'])
        cases.append([a] + ['ins 0 b - %d' % z for z in range(c + 2)] + ['ins 0 b - v0.0', 'find 0 v0.1', 'rematit 0 0'])
        cases.append([a, 'resize 0 %d 7' % c, 'resize 0 %d v0.0' % (c + 1) if c else 'resize 0 1 7', 'apprange 0 0 0 %d' % max(c, 1)])
        cases.append([a, 'reserve 0 %d' % max(c - 1, 0), 'appvals 0 ' + ' '.join(str(z) for z in range(c)), 'appvals 0 8 9', 'apprange 0 0 1 1'])
        cases.append([a, 'appvals 0 ' + ' '.join(str(z) for z in range(c + 1)), 'new 1 array', 'addall 1 b 0', 'addall 0 b 0', 'clear 0',
                      'appvals 0 1', 'newcap 2 array %d' % (c + 3), 'addall 2 b 0', 'apprange 2 0 0 1', 'swap 2 1'])
        cases.append([a, 'clear 0', 'remat 0 0', 'find 0 1', 'addall 0 b 0', 'apprange 0 0 0 0', 'appvals 0', 'asg 0 0', 'del 0', a, 'ins 0 b - 1'])
    for kind in TABLE:
        va = (lambda z: str(z % 97)) if kind in NEED_VAL else (lambda z: '-')
        ins = lambda x, z, p='b': 'ins %d %s %d %s' % (x, p, z, va(z))
        for c in [0, 1, 2, 3] + ([7, 500] if thorough else []):
            base = ['newcap 0 %s %d' % (kind, c)] + [ins(0, z) for z in (1, 2, 3)] + [ins(0, 4, 'f')]
            for how in ['remat 0 0', 'remat 0 3', 'remat 0 1', 'remkey 0 2', 'remkey 0 k0.2', 'rempop 0 f', 'rempop 0 b']:
                cases.append(base + [how, 'find 0 2', 'find 0 3', ins(0, 2), ins(0, 5), 'remkey 0 3', 'remkey 0 1', 'find 0 k0.0', 'clear 0', ins(0, 1)])
            cases.append(base + ['new 1 %s' % kind, ins(1, 501), ins(1, 1), 'swap 0 1', ins(0, 1001), ins(1, 5), ins(1, 1), 'remkey 0 501',
                                 'remkey 1 2', 'find 1 4', 'swap 1 0', ins(0, 6), 'remkey 1 1', 'del 0', ins(1, 7)])
            if kind in COPYABLE:
                cases.append(base + ['copy 1 0', 'asg 0 0', 'remkey 1 3', 'asg 0 1', 'newcap 2 %s %d' % (kind, c + 1), 'asg 2 0', 'asg 0 2', 'find 2 4'] +
                             (['addall 2 b 0', 'remall 2 2', 'addall 2 b 1', 'remall 2 0'] if kind == 'hashset' else []))
    return cases


def exhaustive_cases(kind, depth):
    """all histories of `depth` operations over a small alphabet on two variables"""
    ka = lambda z: str(z) if kind in HAS_KEY else '-'
    va = lambda z: str(z) if kind in NEED_VAL else '-'
    k2 = 501 if kind in TABLE else 2       # table kinds: the second key shares the bucket of the first
    alpha = ['ins 0 b %s %s' % (ka(1), va(5)), 'ins 0 f %s %s' % (ka(k2), va(6)),
             'ins 0 b %s %s' % ('k0.0' if kind in HAS_KEY else '-', 'v0.0' if kind in NEED_VAL else '-'),
             'remat 0 0', 'clear 0', 'asg 0 0', 'swap 0 1']
    if kind in COPYABLE:
        alpha += ['asg 1 0', 'asg 0 1', 'copy 1 0', 'del 1']
    if kind in CAN_ADDALL:
        alpha += ['addall 0 b 0', 'addall 0 f 1']
    alpha += ['rempop 0 b']
    if kind in WRAP:
        # round 5: prepend / append with the container's own key / value
        alpha += ['insw 0 %s %s %s' % (WRAP[kind][0], 'k0.0' if kind in HAS_KEY else '-', 'v0.0' if kind in NEED_VAL else '-')]
    if kind == 'array':
        alpha += ['resize 0 5 v0.0', 'reserve 0 4', 'apprange 0 0 0 2', 'rematit 0 1', 'remout 0 1', 'remout 0 0']
    if kind == 'hashset':
        alpha += ['remall 0 0', 'remall 0 1']
    if kind not in COPYABLE:
        alpha += ['new 1 %s' % kind, 'ins 1 b %s %s' % (ka(3), va(7)), 'del 1']
    # third round
    if kind == 'list':
        alpha += ['sort 0', 'ins 0 f - 3']
    if kind in SORTED:
        alpha += ['inshint 0 b 0 7', 'inshint 0 f k0.0 v0.0', 'inshint 0 1 1 8']
    if kind == 'poollist':
        alpha += ['emplace 0', 'emplace 0 v0.0 2 v0.0']
    if kind == 'array':
        alpha += ['appvals 0 7 8', 'newcap 1 array 2']
    if kind in TABLE:
        alpha += ['newcap 1 %s 1' % kind, 'find 0 %s' % ka(k2)]
    cases = []
    for seq in itertools.product(alpha, repeat=depth):
        cases.append(['new 0 %s' % kind] + list(seq))
    return cases


# ------------------------------------------------------------------------------------------
def kind_of_var(case, upto, x):
    """kind of variable x when op #upto is applied (a tiny replay of new / copy / del)"""
    kinds = {}
    for l in case[:upto]:
        t = l.split()
        if t[0] == 'new' and len(t) == 3 and t[1] not in kinds:
            kinds[t[1]] = t[2]
        elif t[0] == 'newcap' and len(t) == 4 and t[1] not in kinds and t[2] in HAS_CAPCTOR:
            kinds[t[1]] = t[2]
        elif t[0] == 'copy' and len(t) == 3 and t[1] not in kinds and t[2] in kinds:
            kinds[t[1]] = kinds[t[2]]
        elif t[0] == 'del' and len(t) == 2:
            kinds.pop(t[1], None)
    if upto < len(case):
        t = case[upto].split()
        if t[0] == 'copy' and len(t) == 3:
            return kinds.get(t[2], '?')
    return kinds.get(x, '?')


def tag_of(case, k, got, exp=''):
    """[kind op flavour -> effect]: one tag per defect so that vf groups reports by defect"""
    if k >= len(case):
        op, kind, flav = 'end', '', ''
    else:
        t = case[k].split()
        op = t[0]
        kind = kind_of_var(case, k, t[1]) if len(t) > 1 else '?'
        flav = ''
        if op in ('asg', 'swap', 'remall', 'copy') and len(t) == 3 and t[1] == t[2]:
            flav = ' itself'
        elif op == 'addall' and len(t) == 4 and t[1] == t[3]:
            flav = ' itself ' + ('middle' if t[2] not in 'fb' else t[2])
        elif any(a[0] in 'kv' and a[1:].split('.')[0] == t[1] for a in t[2:] if len(a) > 2 and '.' in a):
            flav = ' own-element'
    if got.startswith('!'):
        eff = got[2:].split()[0]
    elif got == '<nothing>':
        eff = 'missing'
    else:
        eff = got.split(' | ')[0]
        if eff in ('ok', 'skip', 'end'):
            g = got.split(' | ')[1] if ' | ' in got else ''
            e = exp.split(' | ')[1] if ' | ' in exp else ''
            cnt = lambda s, f: (re.findall(f + r'=(-?\d+)', s) or [''])[0]
            if eff != exp.split(' | ')[0]:
                eff = 'performed-or-not'
            elif g.split(' ; stored=')[0] != e.split(' ; stored=')[0] and ' ; stored=' in g:
                eff = 'contents'
            elif cnt(g, 'bad') != cnt(e, 'bad'):
                eff = 'registry-anomaly'
            elif cnt(g, 'stored' if 'stored=' in e else 'live') != cnt(e, 'stored' if 'stored=' in e else 'live'):
                eff = 'live-instances'
            elif cnt(g, 'nb') != cnt(e, 'nb'):
                eff = 'live-allocations'
            else:
                eff = 'contents'
    return '[%s %s%s -> %s]' % (kind, op, flav, eff)


class C04(Check):
    id = 'C04'
    comp = 'Life'
    extracted = ['coq/Life/model.mli', 'coq/Life/model.ml', 'ocaml/zconv.ml', 'ocaml/life_driver.ml']
    harness_sources = ['harness/life.cpp']
    per_case_timeout = 10
    technique = ('machine-checked proof (Coq 8.16.1) about an executable Gallina lifetime model of the eight container headers '
                 '(ownership invariant by multiset counting, refinement to a pure value spec, independent ledger over the event log); '
                 'extracted model and spec run against an ASan/UBSan build of the code with an instance-tracking element type on '
                 'generated and exhaustive histories')
    level_text = (
        'Theorems in Coq (Properties_C04.v, closed under the global context) about an executable lifetime model of Array, List, Map, '
        'MultiMap, HashMap, HashSet, PoolList and PoolMap: a world of element instances (ids = construction serials, payload) and of '
        'container allocations; every container function transcribed as the sequence of allocate / construct-from-value / '
        'copy-construct-from-instance / assign / destroy / release steps the code performs, arguments being references (instance ids) that '
        'are read where the code dereferences them, so that a read after destruction is an error of the model. For ALL histories over any '
        'number of container variables (lifetimes_exact_once, no_leak_no_sharing): no lifetime error occurs, the live instances and '
        'allocations are at every moment exactly those owned by exactly one container, the complete event log passes an independent '
        'ledger (constructed once, copied-from/assigned only while live, destroyed exactly once, every allocation released exactly once) '
        'and nothing is left after the containers are destroyed. step_refines_spec / run_refines_spec: every operation refines the pure '
        'spec in which copies are content-equal and aliased arguments are values; copies_are_deep: after a copy or assignment (also x = x) '
        'the target has the source\'s content and the source is unchanged, plus the frame fact (true of every variable, copied or not) that '
        'no history whose operations do not WRITE z changes z - independence of copy and source is that frame fact together with '
        'no_leak_no_sharing; alias_args_as_if_copied / alias_step / '
        'dealias_is_copy_first: a history with self / own-element / own-storage-pointer arguments has the same contents as its de-aliased '
        'history (element '
        'reference replaced by its value, container argument by an explicit copy). Third round - the op language of all these theorems '
        'now also contains the (capacity) constructors, find, PoolList::append(a1..an) with 0..7 constructor arguments (in-place '
        'construction, event EMake, arguments may be references to the list\'s own elements), Array::append(const T*, n) from elements '
        'outside every container, Map/MultiMap::insert(position, key, value) transcribed decision by decision (incl. the branch that '
        'ASSIGNS to the hinted element), Map::insert(const Map&) through that hinted insert (also with itself) and List::sort - the '
        'in-place quicksort of the code as it is now, on the sequence of items of a segment, exchanging payloads by copy-construct / '
        'assign / assign / destroy. sort_moves_payloads_only: in every reachable state sort succeeds, the variables hold the very same '
        'instances afterwards, the set of live instances is unchanged and the content is the sorted permutation of the old one '
        '(quicksort correctness is proved, with fuel = length); hinted_insert_is_plain_insert: on a reachable state the hinted insert is '
        'the same computation (same events, same result) as insert(key, value), whatever the hint; find_refines_spec: find returns the '
        'first element with that key / value. Round 5 - two more operations, covered by all theorems: OInsVia (List::prepend / '
        'append(value), HashMap::prepend / append(key, value), HashSet::prepend / append(key), PoolMap::append(key); '
        'wrappers_are_front_back_insert: the same computation as the positional insert) and OInsTie, the one MultiMap hinted insert '
        'that OInsHint leaves out (key of the hinted element <= key, key of the element behind it == key): the offset j at which the '
        'new element lands inside the following run of equal keys is an INPUT of the operation (it stands for the tree shape); the '
        'spec accepts exactly the offsets that keep the keys in ascending order; tie_insert_position_only: for EVERY j the call does '
        'to the world what insert(key, value) does (same events in the same order, same instances and allocations), only the place '
        'of the new node differs. stored_instances_counted: between operations the live instances are one per stored element and '
        'per stored key (sstored, the number the spec oracle prints) plus what the containers keep for themselves (sbase). '
        'Round 6 - one more operation, covered by all theorems: ORemOut x i r, Array::remove(usize index) with size <= index (i is any '
        'usize, a binary N), the one removal by index or position that the containers accept although it names no element. The '
        'lifecycle theorems quantify over histories that contain it; what the array holds afterwards is left open by the spec as far '
        'as "at most one element is removed" (outcome r: None, or Some j = element j is removed; an input like the tie offset); '
        'remove_out_of_range: with the outcome of the code as it is (r = None) world, event log and variables are unchanged - nothing is '
        'destroyed, released or touched -, an outcome Some j is remove(j) in model and spec. '
        'The model is tied to the code by running the extracted '
        'model, the extracted spec and an ASan/UBSan build of the working tree on the same histories with an element type that owns a heap '
        'cell, remembers the ADDRESS it was constructed at (a bitwise-relocated instance is not a live one) and registers every '
        'construction, copy, assignment and destruction: contents, number of instances the contents account for (live instances '
        'minus what an empty container of each kind holds - measured by the harness at start-up), registry anomalies (observable '
        'section, compared with the spec); all live instances, the ordered event '
        'list of every operation (instance ids, allocation serials from ASan\'s malloc hooks), capacity() and free-list lengths are compared '
        'line by line; sanitizer reports, registry anomalies and the watchdog are observations.')
    level_note = (
        'Trusted: Coq kernel, the spec (LifeSpec.v), extraction + OCaml driver, the harness and its element type, the generators. The '
        'theorems are about the model; the tie to the C++ code is differential (no proof about C++). Granularity: tree shape, bucket chains '
        'and link fields are not modelled (C01/C02/C03/C05) - a broken bucket chain shows only through its lifetime effects (streams '
        'collide / collide-random use keys that share a bucket); reads made by comparisons are checked for liveness but not logged; reading the '
        '`next` field of a just-destroyed item (HashSet::remove(set) on itself, clear()) is outside the model. "No memory is leaked or freed '
        'twice" is proved for the model\'s allocations (Array storage, item blocks, hash tables); below that (the allocator) it is the '
        'observation of ASan and of the harness ledger on the explored histories. Instance counts: the spec oracle states `stored=` (one '
        'instance per stored element and per stored key, sstored in LifeSpec.v); how many instances a container keeps for itself (the '
        'element inside the embedded end item: sent_count / sbase, LifeModel.v) is an implementation fact - it only appears in the model '
        'section (`live=`), so a rewrite that changes it (mutants/C04/A2-03) is reported as a correspondence difference without a '
        'failing input; the harness subtracts what it measured on an empty container, so an implementation whose spare instances vary '
        'over time would still be flagged. One model function serves several entry points of the code: '
        'Array::remove(index) / remove(const Iterator&) / removeFront / removeBack, and remove(iterator) / removeFront / removeBack of the '
        'node containers (ops remat, rematit, rempop; all driven). Third round: HashMap/HashSet/PoolMap(capacity) are modelled as the default '
        'constructor (the number of buckets is not part of the model; the streams use 0..3 buckets so that every chain operation meets '
        'collisions). Hinted insert: the model states WHERE insert(&cell, parent, ..) started at a child cell of the hinted item links the '
        'new item (immediately before / behind it) - this rests on the search-tree invariants of C01/C02 and is checked differentially; the '
        'one call whose result depends on the tree shape (MultiMap, key of the hinted item <= key and key of the item behind it == key: the '
        'new item lands somewhere inside the following run of equal keys) is not an OInsHint (hint_tie); since round 5 it IS driven, as '
        'OInsTie: the harness makes the call and reports the offset at which the new element landed (` tie=j`, model section), the check '
        'hands that j to model and spec as an input of the operation (case files and replays keep the plain `inshint` line; the offset is '
        'taken afresh from every run of the implementation), the spec accepts only an offset that keeps the keys in order, and contents, '
        'events, instance ids and counts are compared as for every other operation. Which of the admissible offsets the tree produces is '
        'C01\'s business and not checked here. Array::remove(index) with an index that is not in the array (round 6, op `remout x i`, '
        'i up to 2^64 - 1): the call is accepted by the code (a no-op), so the lifecycle clauses are judged across it - stored= (live '
        'instances = one per element the containers report), bad= (nothing destroyed or read that is not a live element), sanitizer '
        'reports, the leak check at the end -, while the resulting CONTENTS are not judged here (C03\'s text leaves them open): the '
        'harness reports which element, if any, the call took out (` out=j`, model section; the largest j that explains the contents), '
        'the check hands it to model and spec (`remout x i j`; case files and replays keep the plain line), so an array that clamps the '
        'index and removes the last element properly (mutants/C03/A2-04) stays quiet, and one that drops the last element without '
        'destroying it, or destroys the slot behind it (seeded/C04-v3 = seeded/C03-v1), is reported with a failing input. An array '
        'that did more than remove one element there would be reported as a contents difference. The other removals by position are '
        'NOT driven with the end position: Array::remove(end()), and remove(end()) / removeFront / removeBack on an empty List, '
        'PoolList, Map, MultiMap, HashMap, HashSet, PoolMap dereference or unlink the end item on the unchanged tree (undefined there; '
        'ops rematit / remat / rempop are not performed for them). The wrappers prepend / append(key[, value]) are driven through their own op (insw, '
        'OInsVia) whose model is the positional insert at the front / the back - PoolMap has no prepend, Map / MultiMap / Array / PoolList '
        'have none of them (not performed). Map::insert(const Map&): the hint (the iterator returned by the previous insertion) is found again in the model '
        'by looking up the previous key. find: modelled as liveness-checked reads of the argument and of all keys (the code stops at the '
        'match; tree / bucket navigation not modelled); the returned iterator is compared as the index of the element found. '
        'PoolList::append(a1..an): driven with arguments of one POD type (an integer or a pointer to a stored element) that the element '
        'type\'s n-ary constructors read in order; by-value class-type arguments of arity >= 2 (copies made by the caller in an order the '
        'language leaves open) are not driven. List::sort is driven on lists of up to 16 (thorough: 33) elements. Sizes: '
        'the stream `large` reaches 255 / 256 / 257 elements for Array, PoolMap (thorough: HashSet, PoolList) only (a count or index narrowed '
        'to 8 bits shows there: mutants/C04/30; List / Map / MultiMap / HashMap stay below 50 elements); 2^15 / 2^16 '
        'elements are NOT reached - the extracted model keeps instance ids as unary numbers and its heap as an association list (a case '
        'with 1024 elements needs 40 s, the cost grows cubically), so a slip at 16 or 32 bits is invisible to this check (C03 drives '
        'Array / List sizes at those boundaries on plain ints). Array::resize(n) with the default argument T() is not called here (C03 '
        'calls it). A tree on which nearly every case crashes: a stream stops after 150 crashes / timeouts, after 450 in total every '
        'further stream runs its first 16 cases only (measured: an Array() that always crashes ends in under 7 minutes). Still not '
        'driven / not modelled: iterators returned by the mutating calls, MultiMap::count, contains (= find), operator== / != of the '
        'containers, Array::operator T*, front() / back() other than through the element references the ops take.')
    rule = (
        'cases = histories over 3 container variables of one kind (new / del / copy-construct / assign / swap / clear / insert with value or '
        'own-element references / remove at index or iterator / Array::remove(Iterator) / removeFront / removeBack / remove key / add-all / '
        'remove-all / reserve / resize / Array::append(pointer into an array - mostly its own -, n) / (capacity) constructors / find / sort / '
        'hinted insert (incl. the MultiMap tie case) / PoolList::append(a1..an) / Array::append(foreign buffer, n) / prepend and append(key[, value]) '
        'of List, HashMap, HashSet, PoolMap / round 6: Array::remove(index) with size <= index). Streams: corpus witnesses; random '
        'mostly-valid histories per kind with 25% element-reference arguments and 40% self arguments; a malformed stream (dead variables, '
        'out-of-range indices and ranges, wrong-typed references, mixed kinds); random histories of the hash-table kinds with keys that share '
        'buckets (1, 501, 1001, 1501 / 2, 502 at 500 buckets); a collision stream (every insertion order of 3 (thorough: 4) colliding keys, '
        'front/back insertion, one removed through each removing entry point, then looked up / removed again / re-inserted / another '
        'colliding key inserted); a swap stream (both sides hold spare item slots, then both sides grow and shrink); an Array boundary stream '
        '(append(a[i]), resize(m, a[i]), append(a), append(&a[i], m), remove(iterator) at and away from capacity n|3 for every size 0..8, '
        'with/without reserve); a self-argument stream per kind at sizes around the item-block size; a sort stream (every payload sequence '
        'over {1,2,3} up to length 5 (thorough: {1..4}, length 6), sorted / reversed / organ-pipe / all-equal / rotated lists of 2..16 '
        '(thorough: ..33) elements, each followed by uses of the list: own element inserted, removal, second sort, copy, self-assignment, '
        'self-append, swap); a hint stream (Map and MultiMap of 0/1/4/7 (thorough: 15) items: every hint position x every key below / at / '
        'between / above the stored keys, own keys and values as arguments, ascending runs with hint end(), descending with begin(), '
        'Map::insert(Map) with interleaved / contained / containing / the same map); an emplace stream (PoolList::append with 0..8 '
        'arguments, integers or own elements, at sizes around the item-block size and with free slots); a capacity stream (Array(c), '
        'c = 0..7, grown to / at / past c with own elements, copied / assigned / swapped while it has no storage; table kinds with 0..3 '
        'buckets through every removing entry point, swapped with default-constructed ones); round 5: a wrappers stream (prepend / '
        'append(key[, value]) of List / HashMap / HashSet / PoolMap with the container\'s own first / middle / last key and / or value, '
        'present and absent keys, colliding keys, sizes around the item-block size; half of the front / back insertions of the random '
        'streams and of the collision stream also go through the wrappers), a hint-tie stream (MultiMap runs of 1..5 (thorough: 8) equal '
        'keys behind 0 / 1 / 3 smaller and in front of 0 / 2 greater keys, built in three insertion orders = three tree shapes, every '
        'hint that meets the tie case, literal and own-element arguments, landing offsets 0..7 observed), a large stream (Array of 255 / '
        '257 (thorough: also 256) elements: own elements appended, removal at the last indices, resize and append(&a[i], n) across 2^8; '
        'PoolMap (thorough: also HashSet, PoolList) with 257 items); round 6: a remout stream (Array::remove(index) with index == size, '
        'size + 1, 2 size + 5, 2^64 - size, 2^64 - 1 - size, 2^32 + size, 256 + size and 255 .. 2^64 - 1 for sizes 0..8 (thorough: 9): arrays '
        'without storage, empty with storage, full to the capacity, with raw spare slots, with a destroyed object in the slot behind '
        'the last element, copies, (capacity)-constructed ones; the array is used on afterwards; 18% of the removals of the random Array '
        'histories and two letters of the exhaustive Array alphabet are such calls); exhaustive histories of depth 3 '
        '(thorough: depth 4) for every kind over a 13-21 op alphabet (table kinds: the two keys collide; the third-round ops are in the '
        'alphabets). A case is non-trivial when the '
        'implementation performed at least 4 operations and constructed at least 3 element instances; distinct = distinct op text.')
    assumptions = ['element type: copy constructor / assignment read the source before writing, destructor releases the owned cell '
                   '(harness type Tr); payloads are ints; hash(key) = payload',
                   'the harness passes value arguments as temporaries constructed before and destroyed after the call (key first); element '
                   'references are passed as `const T&` bound to the stored instance, except PoolList::append(v), where template deduction '
                   'makes the parameter a by-value copy (modelled: copy before, destroy after the call)',
                   'Array::append(const T*, n) is driven with pointers into live arrays (its own or another array, i + n <= size) and with a '
                   'buffer of n live elements that the harness constructs before and destroys (in reverse order) after the call',
                   'PoolList::append(a1..an): the element type has constructors T(Src, ..., Src) for 1..7 arguments, Src = {pointer to an '
                   'element or 0, int}; they read their arguments in order and store the sum',
                   'List::sort: the element type\'s operator< reads both operands (liveness-checked, not logged)',
                   'the element type is address-sensitive: an instance counts as live only at the address it was constructed at, so a '
                   'container must move elements by copy construction + destruction (what the headers do), not bitwise',
                   'MultiMap hinted insert, tie case: the landing offset inside the run of equal keys is taken from the implementation\'s '
                   'own run and is an input of model and spec (any offset that keeps the keys sorted is accepted)',
                   'Array::remove(index) with size <= index: which element, if any, the call removed is taken from the implementation\'s own '
                   'run (contents before / after) and is an input of model and spec; only "at most one element is removed" is assumed of the contents']

    def nontrivial(self, case, obs):
        oks = sum(1 for l in obs if l.startswith('ok'))
        made = sum(len(re.findall(r'[VCD]\d+', l.split(' | ')[2])) for l in obs if l.count(' | ') >= 2)
        return oks >= 4 and made >= 3

    # a tree on which (nearly) every case crashes or hangs: give up early and report what there is
    CRASH_STREAM = 150      # crashes / timeouts after which the rest of a stream is not run
    CRASH_TOTAL = 450       # ... after which every further stream runs its first cases only

    def run_impl(self, cases, tag='impl'):
        """the stream is run in chunks so that the crash count is seen in time; the watchdog also fires when
        the machine stalls: an isolated timeout counts only if it repeats"""
        if len(cases) <= 1:
            res, crashes = Check.run_impl(self, cases, tag)
            self.note_ties(cases, res)
            return res, crashes
        total = getattr(self, '_crashes_seen', 0)
        res, crashes = [], {}
        pos, chunk, mine = 0, (256 if total < self.CRASH_TOTAL else 16), 0
        while pos < len(cases):
            if pos and (mine >= self.CRASH_STREAM or total + mine >= self.CRASH_TOTAL):
                log('[%s] %s: %d crashes / timeouts in this stream, %d so far - the remaining %d cases are not run' % (
                    self.id, tag, mine, total + mine, len(cases) - pos))
                res += [['! notrun'] for _ in range(len(cases) - pos)]
                break
            part = cases[pos:pos + chunk]
            r, c = Check.run_impl(self, part, tag)
            touts = [i for i, o in enumerate(r) if o and o[-1].startswith(('! timeout', '! killed'))]
            if len(touts) <= 2:
                for i in touts:
                    for _ in range(2):
                        o2, c2 = Check.run_impl(self, [part[i]], 'retry_' + tag)
                        if not (o2[0] and o2[0][-1].startswith(('! timeout', '! killed'))):
                            r[i] = o2[0]
                            c.pop(i, None)
                            if 0 in c2:
                                c[i] = c2[0]
                            break
            for k, v in c.items():
                crashes[pos + k] = v
            res += r
            mine += len(c)
            pos += len(part)
            chunk = 64 if c else min(chunk * 4, 1 << 20)
        self._crashes_seen = total + mine
        self.note_ties(cases, res)
        return res, crashes

    # MultiMap::insert(position, key, value) in the case whose landing place depends on the shape of the search
    # tree (C01): the implementation reports how far behind the hinted element the new one was linked
    # (` tie=<j>` at the end of the model section); model and spec take that offset as an INPUT of the operation
    # (`instie x p key value j`, Coq: OInsTie) - the spec accepts only an offset that keeps the keys in order.
    # The case text (and every replay file) keeps the plain `inshint` line.
    def note_ties(self, cases, impl_obs):
        if not hasattr(self, '_resolved'):
            self._resolved = {}
        for c, o in zip(cases, impl_obs):
            out = None
            for k, l in enumerate(c):
                if l.startswith('inshint ') and k < len(o):
                    m = re.search(r' tie=(\d+)$', o[k])
                    if m:
                        out = out or list(c)
                        out[k] = 'instie' + l[len('inshint'):] + ' ' + m.group(1)
                elif l.startswith('remout ') and k < len(o) and len(l.split()) == 3:
                    # round 6 - Array::remove(index), size <= index: WHAT the array holds afterwards is not this
                    # property's business; the element the implementation took out (if any) is an input of model
                    # and spec (`remout x i j`, Coq: ORemOut x i (Some j)); the lifecycle counters are judged
                    m = re.search(r' out=(\d+)$', o[k])
                    if m:
                        out = out or list(c)
                        out[k] = l + ' ' + m.group(1)
            key = '\n'.join(c)
            if out:
                self._resolved[key] = out
            else:
                self._resolved.pop(key, None)

    def with_ties(self, cases):
        r = getattr(self, '_resolved', {})
        return [r.get('\n'.join(c), c) for c in cases] if r else cases

    def run_model(self, cases, tag='model'):
        cases = self.with_ties(cases)
        if tag.endswith('_large'):
            # few, expensive cases (minutes each on a loaded machine): one process per case, 4 at a time, long timeout
            from concurrent.futures import ThreadPoolExecutor
            one = lambda ic: run_exe_on_cases(self.exes['model'], [ic[1]], os.path.join(BUILD, self.id, 'run'),
                                              '%s_%d' % (tag, ic[0]), args=self.model_args, timeout=1500)[0]
            with ThreadPoolExecutor(max_workers=4) as ex:
                parts = list(ex.map(one, enumerate(cases)))
            return [p[0] for p in parts]
        return Check.run_model(self, cases, tag)

    def run_spec(self, cases, tag='spec'):
        return Check.run_spec(self, self.with_ties(cases), tag)

    def judge(self, cases, impl_obs, spec_obs):
        fails = []
        for i, (s, o) in enumerate(zip(spec_obs, impl_obs)):
            k = first_diff(s, o)
            if k is not None:
                exp = s[k] if k < len(s) else '<nothing>'
                got = o[k] if k < len(o) else '<nothing>'
                tag = tag_of(cases[i], k, got, exp)
                fails.append((i, k, '%-40s op#%d `%s`: spec expects `%s`, implementation gives `%s`' % (
                    tag, k, cases[i][k] if k < len(cases[i]) else 'end', exp, got)))
        return fails

    def streams(self, tier, rng):
        thorough = tier == 'thorough'
        out = []
        cases = []
        for k in KINDS:
            for _ in range(200 if thorough else 60):
                cases.append(gen_case(rng, k, rng.randrange(5, 45)))
        out.append(Stream('histories', cases, note='mostly valid histories per kind, element references and self arguments'))
        cases = []
        for k in KINDS:
            for _ in range(80 if thorough else 20):
                cases.append(gen_case(rng, k, rng.randrange(5, 30), alias=0.4, valid=False, mixed=rng.random() < 0.5))
        out.append(Stream('malformed', cases, note='dead variables, bad indices, wrong-typed references, mixed kinds'))
        cases = []
        for k in TABLE:
            for _ in range(120 if thorough else 40):
                cases.append(gen_case(rng, k, rng.randrange(8, 40), collide=True))
        out.append(Stream('collide-random', cases, note='hash-table kinds, keys drawn from 1 501 1001 1501 2 502 (shared buckets)'))
        out.append(Stream('collide', collision_cases(thorough), note='colliding keys in every insertion order, every removing entry point'))
        out.append(Stream('swap', swap_cases(), note='swap with spare item slots on both sides, then growth on both sides'))
        out.append(Stream('boundary', boundary_cases(thorough), note='Array growth boundary with own elements'))
        out.append(Stream('selfarg', selfarg_cases(thorough), note='self-assignment, copies of copies, container as its own argument'))
        out.append(Stream('sort', sort_cases(thorough), note='List::sort on all short payload sequences and on sorted / reversed / equal lists, then the list is used on'))
        out.append(Stream('hint', hint_cases(thorough), note='Map / MultiMap insert(position, k, v): every hint x every key position, own elements as arguments; Map::insert(Map)'))
        out.append(Stream('hint-tie', tie_cases(thorough), note='MultiMap hinted insert whose landing place depends on the tree shape: runs of equal keys, every tree shape / hint that meets the case'))
        out.append(Stream('large', large_cases(thorough), note='255 / 256 / 257 elements: Array growth, removal and append(&a[i], n) across 2^8; PoolMap (thorough: HashSet, PoolList) with 257 items'))
        out.append(Stream('emplace', emplace_cases(), note='PoolList::append with 0..8 arguments, integers or references to own elements'))
        out.append(Stream('capacity', capacity_cases(thorough), note='(capacity) constructors of Array / HashMap / HashSet / PoolMap'))
        out.append(Stream('remout', remout_cases(thorough), note='Array::remove(index) with size <= index (== size, size + 1, far, 2^8 .. 2^64 - 1): empty / full / spare / stale slots, copies; lifecycle judged, contents open'))
        out.append(Stream('wrappers', wrapper_cases(thorough), note='prepend / append(key[, value]) of List / HashMap / HashSet / PoolMap with own keys and values as arguments'))
        if thorough:
            for k in KINDS:
                out.append(Stream('exh4-' + k, exhaustive_cases(k, 4), exhaustive=False, note='all depth-4 histories over the alphabet'))
        else:
            for k in KINDS:
                out.append(Stream('exh3-' + k, exhaustive_cases(k, 3), note='all depth-3 histories over the alphabet'))
        return out


CHECK = C04
