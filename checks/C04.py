import itertools, os, re, sys
from vf import Check, Stream, log, first_diff

NV = 3
KINDS = ['array', 'list', 'map', 'multimap', 'hashmap', 'hashset', 'poollist', 'poolmap']
HAS_KEY = {'map', 'multimap', 'hashmap', 'hashset', 'poolmap'}
HAS_VAL = {'array', 'list', 'map', 'multimap', 'hashmap', 'poollist', 'poolmap'}
NEED_VAL = HAS_VAL - {'poolmap'}
COPYABLE = {'array', 'list', 'map', 'multimap', 'hashmap', 'hashset'}
UNIQUE = {'map', 'hashmap', 'hashset', 'poolmap'}
CAN_ADDALL = {'array', 'list', 'map', 'hashset'}
CAN_SWAP = {'array', 'list', 'hashmap', 'hashset', 'poollist', 'poolmap'}


# ------------------------------------------------------------------------------------------
# generators.  A tiny picture of the variables (kind, upper bound of the size) lets the
# generated ops mostly hit their preconditions.  Nothing expected is computed here: expected
# observations come from the extracted spec / model.
# ------------------------------------------------------------------------------------------
class Pic:
    def __init__(self, collide=False):
        self.kind = [None] * NV
        self.size = [0] * NV
        self.collide = collide

    def key(self, rng):
        return rng.choice(COLLIDING) if self.collide else small(rng)

    def live(self):
        return [x for x in range(NV) if self.kind[x]]

    def dead(self):
        return [x for x in range(NV) if not self.kind[x]]


def small(rng):
    return rng.randrange(0, 7)


# HashMap / HashSet / PoolMap: 500 buckets by default and hash(key) = payload in the harness, so
# these keys share buckets (1, 501, 1001, 1501) and (2, 502)
TABLE = ('hashmap', 'hashset', 'poolmap')
COLLIDING = [1, 501, 1001, 1501, 2, 502]


def ref(rng, pic, x, alias, want_key):
    """an element reference (own container preferred), or None"""
    if not alias or rng.random() >= alias:
        return None
    pool = HAS_KEY if want_key else HAS_VAL
    ys = [y for y in pic.live() if pic.kind[y] in pool and pic.size[y] > 0]
    if x in ys and rng.random() < 0.8:
        ys = [x]
    if not ys:
        return None
    y = rng.choice(ys)
    n = pic.size[y]
    return '%s%d.%d' % ('k' if want_key else 'v', y, rng.choice([0, n - 1, rng.randrange(n)]))


def ins_op(rng, pic, x, alias, p=None):
    k = pic.kind[x]
    n = pic.size[x]
    if p is None:
        p = rng.choice(['f', 'b', 'b', str(rng.randrange(n + 1))])
    ka = (ref(rng, pic, x, alias, True) or str(pic.key(rng))) if k in HAS_KEY else '-'
    va = (ref(rng, pic, x, alias, False) or str(small(rng))) if k in NEED_VAL else '-'
    pic.size[x] += 1
    return 'ins %d %s %s %s' % (x, p, ka, va)


def gen_case(rng, kind, nops, alias=0.25, valid=True, mixed=False, collide=False):
    """history over NV variables of one kind (or two kinds)"""
    pic = Pic(collide)
    ops = []
    kinds = [kind] if not mixed else [kind, rng.choice(KINDS)]

    def new(x):
        k = rng.choice(kinds)
        ops.append('new %d %s' % (x, k))
        pic.kind[x] = k
        pic.size[x] = 0

    new(0)
    for _ in range(nops):
        lv = pic.live()
        r = rng.random()
        if not lv or (r < 0.05 and pic.dead()):
            new(rng.choice(pic.dead()))
            continue
        x = rng.choice(lv) if valid or rng.random() < 0.9 else rng.randrange(NV + 1)
        if x >= NV or not pic.kind[x]:
            ops.append(rng.choice(['clear %d' % x, 'del %d' % x, 'remat %d 0' % x, 'ins %d b 1 1' % x,
                                   'asg %d %d' % (x, rng.randrange(NV)), 'copy %d %d' % (rng.randrange(NV), x)]))
            continue
        k = pic.kind[x]
        n = pic.size[x]
        same = [y for y in lv if pic.kind[y] == k]
        y = rng.choice(same) if rng.random() < 0.6 else x
        if not valid and rng.random() < 0.15:
            y = rng.randrange(NV + 1)
        if r < 0.45:
            ops.append(ins_op(rng, pic, x, alias))
        elif r < 0.57:
            i = rng.choice([0, max(n - 1, 0), rng.randrange(max(n, 1))]) if valid else rng.randrange(n + 2)
            how = rng.random()
            if how < 0.25 and (n > 0 or not valid):
                ops.append('rempop %d %s' % (x, rng.choice('fb')))     # removeFront() / removeBack()
                if n > 0:
                    pic.size[x] -= 1
            elif how < 0.5 and (k == 'array' or not valid):
                ops.append('rematit %d %d' % (x, i))                   # Array::remove(const Iterator&)
                if i < n and k == 'array':
                    pic.size[x] -= 1
            else:
                ops.append('remat %d %d' % (x, i))
                if i < n:
                    pic.size[x] -= 1
        elif r < 0.63:
            a = (ref(rng, pic, x, alias, True) if k in HAS_KEY else ref(rng, pic, x, alias, False)) or str(pic.key(rng) if k in HAS_KEY else small(rng))
            if not valid and rng.random() < 0.2:
                a = rng.choice(['k%d.%d' % (rng.randrange(NV), rng.randrange(5)), 'v%d.%d' % (rng.randrange(NV), rng.randrange(5))])
            ops.append('remkey %d %s' % (x, a))
        elif r < 0.66:
            ops.append('clear %d' % x)
            pic.size[x] = 0
        elif r < 0.72:
            ops.append('asg %d %d' % (x, y))
            if k in COPYABLE and y < NV and pic.kind[y] == k:
                pic.size[x] = pic.size[y]
        elif r < 0.77:
            d = pic.dead()
            if d and k in COPYABLE:
                z = rng.choice(d)
                ops.append('copy %d %d' % (z, x))
                pic.kind[z] = k
                pic.size[z] = n
            else:
                ops.append('asg %d %d' % (x, x))
        elif r < 0.82:
            ops.append('swap %d %d' % (x, y))
            if k in CAN_SWAP and y < NV and pic.kind[y] == k:
                pic.size[x], pic.size[y] = pic.size[y], pic.size[x]
        elif r < 0.88:
            p = rng.choice(['f', 'b', str(rng.randrange(n + 1))])
            ops.append('addall %d %s %d' % (x, p, y))
            if k in CAN_ADDALL and y < NV and pic.kind[y] == k:
                pic.size[x] += pic.size[y]
        elif r < 0.90 and k == 'array':
            # x.append(&y[i], m): a pointer into y's storage, y = x in most cases
            ny = pic.size[y] if y < NV and pic.kind[y] == k else 0
            i = rng.choice([0, ny // 2, rng.randrange(ny + 1)])
            m = rng.choice([0, 1, ny - i, rng.randrange(ny - i + 1)]) if valid else rng.randrange(ny + 2)
            ops.append('apprange %d %d %d %d' % (x, y, i, m))
            if i + m <= ny and y < NV and pic.kind[y] == k:
                pic.size[x] += m
        elif r < 0.90:
            ops.append('remall %d %d' % (x, y))
        elif r < 0.94 and k == 'array':
            ops.append('reserve %d %d' % (x, rng.choice([0, n, n + 1, n + 4, rng.randrange(0, 20)])))
        elif r < 0.98 and k == 'array':
            m = rng.choice([0, n, n + 1, max(n - 1, 0), rng.randrange(0, 14)])
            ops.append('resize %d %d %s' % (x, m, ref(rng, pic, x, alias, False) or str(small(rng))))
            pic.size[x] = m
        else:
            ops.append('del %d' % x)
            pic.kind[x] = None
            pic.size[x] = 0
    return ops


def fill(kind, x, n, base=1):
    """n distinct elements into variable x"""
    out = []
    for i in range(n):
        ka = str(base + i) if kind in HAS_KEY else '-'
        va = str(10 * (base + i)) if kind in NEED_VAL else '-'
        out.append('ins %d b %s %s' % (x, ka, va))
    return out


def boundary_cases(thorough):
    """Array: append(a[i]) / resize(m, a[i]) / append(a) at and away from the capacity boundary
    (capacities are n|3), with and without a reserve() in front; remove at every index."""
    cases = []
    top = 13 if thorough else 9
    for n in range(0, top):
        idxs = sorted({0, n // 2, n - 1}) if n else []
        for i in idxs:
            cases.append(['new 0 array'] + fill('array', 0, n) + ['ins 0 b - v0.%d' % i, 'ins 0 b - v0.%d' % i])
            cases.append(['new 0 array'] + fill('array', 0, n) + ['reserve 0 %d' % (n + 1), 'ins 0 b - v0.%d' % i])
            for m in sorted({0, n - 1, n, n + 1, (n | 3), (n | 3) + 1, n + 6}):
                if m >= 0:
                    cases.append(['new 0 array'] + fill('array', 0, n) + ['resize 0 %d v0.%d' % (m, i)])
            cases.append(['new 0 array'] + fill('array', 0, n) + ['reserve 0 %d' % (n + 5), 'resize 0 %d v0.%d' % (n + 3, i)])
            cases.append(['new 0 array'] + fill('array', 0, n) + ['remat 0 %d' % i, 'ins 0 b - v0.0' if n > 1 else 'ins 0 b - 1'])
            for m in sorted({1, n - i, (n | 3) - n, (n | 3) - n + 1} - {0}):
                if 0 < m <= n - i:
                    # append(&a[i], m): at, below and above the capacity n|3; twice; after a reserve
                    cases.append(['new 0 array'] + fill('array', 0, n) + ['apprange 0 0 %d %d' % (i, m), 'apprange 0 0 %d %d' % (i, m)])
                    cases.append(['new 0 array'] + fill('array', 0, n) + ['reserve 0 %d' % (n + m), 'apprange 0 0 %d %d' % (i, m), 'rematit 0 %d' % i])
            cases.append(['new 0 array'] + fill('array', 0, n) + ['rematit 0 %d' % i, 'rempop 0 f', 'rempop 0 b', 'ins 0 b - v0.0' if n > 3 else 'ins 0 b - 1'])
        cases.append(['new 0 array'] + fill('array', 0, n) + ['apprange 0 0 0 %d' % n, 'apprange 0 0 %d 0' % n, 'apprange 0 0 0 %d' % (2 * n)])
        cases.append(['new 0 array'] + fill('array', 0, n) + ['new 1 array'] + fill('array', 1, 3, 50) +
                     ['apprange 0 1 1 2', 'apprange 1 0 0 %d' % min(n, 2), 'apprange 1 1 2 3', 'apprange 0 0 %d 1' % (n + 1)])
        cases.append(['new 0 array'] + fill('array', 0, n) + ['addall 0 b 0', 'addall 0 b 0'])
        cases.append(['new 0 array'] + fill('array', 0, n) + ['asg 0 0', 'copy 1 0', 'asg 1 1', 'asg 0 1', 'swap 0 0', 'swap 0 1'])
        cases.append(['new 0 array'] + fill('array', 0, n) + ['new 1 array'] + fill('array', 1, 2, 50) +
                     ['ins 0 b - v1.0', 'addall 0 b 1', 'resize 1 %d v0.0' % (n + 2) if n else 'resize 1 3 7', 'asg 1 0', 'clear 0'])
    return cases


def selfarg_cases(thorough):
    """every kind: self-assignment, copies of copies, the container as its own argument, own
    keys / values as arguments, at sizes around the item-block size (4)"""
    cases = []
    sizes = range(0, 10) if thorough else [0, 1, 3, 4, 5, 8]
    for kind in KINDS:
        for n in sizes:
            base = ['new 0 %s' % kind] + fill(kind, 0, n)
            if kind in COPYABLE:
                cases.append(base + ['asg 0 0', 'asg 0 0', 'copy 1 0', 'asg 1 1', 'copy 2 1', 'asg 0 2', 'del 1',
                                     'ins 0 b 99 990' if kind in HAS_KEY and kind in NEED_VAL else ('ins 0 b 99 -' if kind in HAS_KEY else 'ins 0 b - 990'),
                                     'asg 2 0', 'del 0'])
                cases.append(base + ['copy 1 0', 'clear 0', 'asg 0 1', 'remat 1 0', 'asg 1 0', 'swap 0 1', 'swap 1 1'])
            else:
                cases.append(base + ['asg 0 0', 'copy 1 0', 'new 1 %s' % kind, 'swap 0 1', 'swap 1 1', 'clear 1', 'swap 0 1'])
            if kind in CAN_ADDALL:
                ps = ['f', 'b'] + ([str(n // 2), '1'] if kind == 'list' and n else [])
                for p in ps:
                    cases.append(base + ['addall 0 %s 0' % p, 'addall 0 %s 0' % p, 'remat 0 0' if n else 'clear 0'])
                cases.append(base + ['copy 1 0', 'addall 0 b 1', 'addall 1 f 0', 'del 0'])
            cases.append(base + ['rempop 0 f', 'rempop 0 b', 'rempop 0 b', 'rematit 0 0',
                                 'ins 0 b %s %s' % ('7' if kind in HAS_KEY else '-', '70' if kind in NEED_VAL else '-'),
                                 'rempop 0 f', 'rempop 0 f'])
            if kind == 'hashset':
                cases.append(base + ['remall 0 0', 'ins 0 b 5 -', 'copy 1 0', 'remall 0 1', 'remall 1 1'])
            if n:
                for i in sorted({0, n - 1, n // 2}):
                    ka = 'k0.%d' % i if kind in HAS_KEY else '-'
                    va = 'v0.%d' % i if kind in NEED_VAL else '-'
                    for p in ['f', 'b']:
                        cases.append(base + ['ins 0 %s %s %s' % (p, ka, va), 'ins 0 %s %s %s' % (p, ka, va)])
                    if kind in HAS_KEY and kind in NEED_VAL:
                        cases.append(base + ['ins 0 b 77 v0.%d' % i, 'ins 0 b k0.%d 5' % i, 'ins 0 f k0.%d v0.%d' % (i, (i + 1) % n)])
                    if kind not in ('array', 'poollist'):
                        a = 'k0.%d' % i if kind in HAS_KEY else 'v0.%d' % i
                        cases.append(base + ['remkey 0 %s' % a, 'remkey 0 %s' % (a if n > 1 else '1')])
    return cases


def collision_cases(thorough):
    """HashMap / HashSet / PoolMap with keys that share a bucket: every insertion order of three
    (thorough: also four) colliding keys, at the front / the back of the iteration order; one of
    them removed through each removing entry point; then the removed key is looked up, removed
    again, re-inserted, another colliding key inserted, the other keys removed, the rest cleared."""
    cases = []
    keysets = [[1, 501, 1001]] + ([[1, 501, 1001, 1501]] if thorough else [])
    for kind in TABLE:
        va = (lambda z: str(z % 97)) if kind in NEED_VAL else (lambda z: '-')
        for keys in keysets:
            for perm in itertools.permutations(keys):
                for fronts in ([False, True] if len(keys) == 3 else [False]):
                    base = ['new 0 %s' % kind, 'ins 0 b 7 %s' % va(7)]
                    order = [7]                                   # iteration order
                    for j, key in enumerate(perm):
                        if fronts and j % 2:
                            base.append('ins 0 f %d %s' % (key, va(key)))
                            order.insert(0, key)
                        else:
                            base.append('ins 0 b %d %s' % (key, va(key)))
                            order.append(key)
                    for victim in perm:
                        i = order.index(victim)
                        others = [k for k in perm if k != victim]
                        hows = ['remat 0 %d' % i, 'remkey 0 %d' % victim, 'remkey 0 k0.%d' % i]
                        if i == 0:
                            hows.append('rempop 0 f')
                        if i == len(order) - 1:
                            hows.append('rempop 0 b')
                        for how in hows:
                            cases.append(base + [how, 'remkey 0 %d' % victim, 'ins 0 b %d %s' % (victim, va(5)),
                                                 'ins 0 f 2001 %s' % va(3), 'remkey 0 %d' % others[0], 'remkey 0 %d' % others[-1],
                                                 'ins 0 b %d %s' % (others[0], va(1)), 'clear 0', 'ins 0 b %d %s' % (victim, va(2))])
                            cases.append(base + [how, 'ins 0 b k0.0 %s' % va(4), 'ins 0 b 2501 %s' % va(6), 'rempop 0 b',
                                                 'remkey 0 %d' % others[0], 'remkey 0 %d' % victim, 'swap 0 0'] +
                                         (['copy 1 0', 'remkey 1 %d' % others[-1], 'asg 0 1', 'asg 0 0'] if kind in COPYABLE else
                                          ['new 1 %s' % kind, 'swap 0 1', 'remkey 1 %d' % others[-1], 'ins 0 b %d %s' % (victim, va(8))]))
    return cases


def swap_cases():
    """swap of two containers that both hold spare item slots (a block has 4 items), then elements
    are appended to and removed from BOTH sides, swapped back, destroyed in either order"""
    cases = []
    for kind in KINDS:
        if kind not in CAN_SWAP:
            continue
        ka = lambda z: str(z) if kind in HAS_KEY else '-'
        va = lambda z: str(z) if kind in NEED_VAL else '-'
        ins = lambda x, z: 'ins %d b %s %s' % (x, ka(z), va(10 * z))
        for n, m in [(1, 2), (0, 3), (4, 1), (5, 5), (3, 0), (2, 6)]:
            base = ['new 0 %s' % kind] + fill(kind, 0, n) + ['new 1 %s' % kind] + fill(kind, 1, m, 50)
            for dels in (['del 0', 'del 1'], ['del 1', 'del 0']):
                cases.append(base + ['swap 0 1', ins(0, 91), ins(1, 92), ins(0, 93), ins(1, 94), 'rempop 0 f', 'rempop 1 b',
                                     'swap 1 0', ins(1, 95), ins(0, 96), ins(1, 97), ins(0, 98), ins(0, 99)] + dels)
            cases.append(base + ['remat 0 0' if n else 'clear 0', 'clear 1', 'swap 0 1', ins(0, 91), ins(1, 92), ins(1, 93),
                                 ins(0, 94), ins(0, 95), ins(0, 96), ins(1, 97), 'clear 0', 'swap 0 1', ins(0, 98), ins(1, 99)])
    return cases


def exhaustive_cases(kind, depth):
    """all histories of `depth` operations over a small alphabet on two variables"""
    ka = lambda z: str(z) if kind in HAS_KEY else '-'
    va = lambda z: str(z) if kind in NEED_VAL else '-'
    k2 = 501 if kind in TABLE else 2       # table kinds: the second key shares the bucket of the first
    alpha = ['ins 0 b %s %s' % (ka(1), va(5)), 'ins 0 f %s %s' % (ka(k2), va(6)),
             'ins 0 b %s %s' % ('k0.0' if kind in HAS_KEY else '-', 'v0.0' if kind in NEED_VAL else '-'),
             'remat 0 0', 'clear 0', 'asg 0 0', 'swap 0 1']
    if kind in COPYABLE:
        alpha += ['asg 1 0', 'asg 0 1', 'copy 1 0', 'del 1']
    if kind in CAN_ADDALL:
        alpha += ['addall 0 b 0', 'addall 0 f 1']
    alpha += ['rempop 0 b']
    if kind == 'array':
        alpha += ['resize 0 5 v0.0', 'reserve 0 4', 'apprange 0 0 0 2', 'rematit 0 1']
    if kind == 'hashset':
        alpha += ['remall 0 0', 'remall 0 1']
    if kind not in COPYABLE:
        alpha += ['new 1 %s' % kind, 'ins 1 b %s %s' % (ka(3), va(7)), 'del 1']
    cases = []
    for seq in itertools.product(alpha, repeat=depth):
        cases.append(['new 0 %s' % kind] + list(seq))
    return cases


# ------------------------------------------------------------------------------------------
def kind_of_var(case, upto, x):
    """kind of variable x when op #upto is applied (a tiny replay of new / copy / del)"""
    kinds = {}
    for l in case[:upto]:
        t = l.split()
        if t[0] == 'new' and len(t) == 3 and t[1] not in kinds:
            kinds[t[1]] = t[2]
        elif t[0] == 'copy' and len(t) == 3 and t[1] not in kinds and t[2] in kinds:
            kinds[t[1]] = kinds[t[2]]
        elif t[0] == 'del' and len(t) == 2:
            kinds.pop(t[1], None)
    if upto < len(case):
        t = case[upto].split()
        if t[0] == 'copy' and len(t) == 3:
            return kinds.get(t[2], '?')
    return kinds.get(x, '?')


def tag_of(case, k, got, exp=''):
    """[kind op flavour -> effect]: one tag per defect so that vf groups reports by defect"""
    if k >= len(case):
        op, kind, flav = 'end', '', ''
    else:
        t = case[k].split()
        op = t[0]
        kind = kind_of_var(case, k, t[1]) if len(t) > 1 else '?'
        flav = ''
        if op in ('asg', 'swap', 'remall', 'copy') and len(t) == 3 and t[1] == t[2]:
            flav = ' itself'
        elif op == 'addall' and len(t) == 4 and t[1] == t[3]:
            flav = ' itself ' + ('middle' if t[2] not in 'fb' else t[2])
        elif any(a[0] in 'kv' and a[1:].split('.')[0] == t[1] for a in t[2:] if len(a) > 2 and '.' in a):
            flav = ' own-element'
    if got.startswith('!'):
        eff = got[2:].split()[0]
    elif got == '<nothing>':
        eff = 'missing'
    else:
        eff = got.split(' | ')[0]
        if eff in ('ok', 'skip', 'end'):
            g = got.split(' | ')[1] if ' | ' in got else ''
            e = exp.split(' | ')[1] if ' | ' in exp else ''
            cnt = lambda s, f: (re.findall(f + r'=(\d+)', s) or [''])[0]
            if eff != exp.split(' | ')[0]:
                eff = 'performed-or-not'
            elif g.split(' ; live=')[0] != e.split(' ; live=')[0] and ' ; live=' in g:
                eff = 'contents'
            elif cnt(g, 'bad') != cnt(e, 'bad'):
                eff = 'registry-anomaly'
            elif cnt(g, 'live') != cnt(e, 'live'):
                eff = 'live-instances'
            elif cnt(g, 'nb') != cnt(e, 'nb'):
                eff = 'live-allocations'
            else:
                eff = 'contents'
    return '[%s %s%s -> %s]' % (kind, op, flav, eff)


class C04(Check):
    id = 'C04'
    comp = 'Life'
    extracted = ['coq/Life/model.mli', 'coq/Life/model.ml', 'ocaml/zconv.ml', 'ocaml/life_driver.ml']
    harness_sources = ['harness/life.cpp']
    per_case_timeout = 10
    technique = ('machine-checked proof (Coq 8.16.1) about an executable Gallina lifetime model of the eight container headers '
                 '(ownership invariant by multiset counting, refinement to a pure value spec, independent ledger over the event log); '
                 'extracted model and spec run against an ASan/UBSan build of the code with an instance-tracking element type on '
                 'generated and exhaustive histories')
    level_text = (
        'Theorems in Coq (Properties_C04.v, closed under the global context) about an executable lifetime model of Array, List, Map, '
        'MultiMap, HashMap, HashSet, PoolList and PoolMap: a world of element instances (ids = construction serials, payload) and of '
        'container allocations; every container function transcribed as the sequence of allocate / construct-from-value / '
        'copy-construct-from-instance / assign / destroy / release steps the code performs, arguments being references (instance ids) that '
        'are read where the code dereferences them, so that a read after destruction is an error of the model. For ALL histories over any '
        'number of container variables (lifetimes_exact_once, no_leak_no_sharing): no lifetime error occurs, the live instances and '
        'allocations are at every moment exactly those owned by exactly one container, the complete event log passes an independent '
        'ledger (constructed once, copied-from/assigned only while live, destroyed exactly once, every allocation released exactly once) '
        'and nothing is left after the containers are destroyed. step_refines_spec / run_refines_spec: every operation refines the pure '
        'spec in which copies are content-equal and aliased arguments are values; copies_are_deep: after a copy or assignment (also x = x) '
        'the target has the source\'s content and the source is unchanged, plus the frame fact (true of every variable, copied or not) that '
        'no history whose operations do not WRITE z changes z - independence of copy and source is that frame fact together with '
        'no_leak_no_sharing; alias_args_as_if_copied / alias_step / '
        'dealias_is_copy_first: a history with self / own-element / own-storage-pointer arguments has the same contents as its de-aliased '
        'history (element '
        'reference replaced by its value, container argument by an explicit copy). The model is tied to the code by running the extracted '
        'model, the extracted spec and an ASan/UBSan build of the working tree on the same histories with an element type that owns a heap '
        'cell and registers every construction, copy, assignment and destruction: contents, number of live instances, the ordered event '
        'list of every operation (instance ids, allocation serials from ASan\'s malloc hooks), capacity() and free-list lengths are compared '
        'line by line; sanitizer reports, registry anomalies and the watchdog are observations.')
    level_note = (
        'Trusted: Coq kernel, the spec (LifeSpec.v), extraction + OCaml driver, the harness and its element type, the generators. The '
        'theorems are about the model; the tie to the C++ code is differential (no proof about C++). Granularity: tree shape, bucket chains '
        'and link fields are not modelled (C01/C02/C03/C05) - a broken bucket chain shows only through its lifetime effects (streams '
        'collide / collide-random use keys that share a bucket); reads made by comparisons are checked for liveness but not logged; reading the '
        '`next` field of a just-destroyed item (HashSet::remove(set) on itself, clear()) is outside the model. "No memory is leaked or freed '
        'twice" is proved for the model\'s allocations (Array storage, item blocks, hash tables); below that (the allocator) it is the '
        'observation of ASan and of the harness ledger on the explored histories. live_instances_counted: the expected count (slive) uses two '
        'implementation facts that the property text does not fix - the number of instances in the embedded end item and the fields per item; '
        'they are defined next to the model (LifeModel.v), not in the spec. One model function serves several entry points of the code: '
        'Array::remove(index) / remove(const Iterator&) / removeFront / removeBack, and remove(iterator) / removeFront / removeBack of the '
        'node containers (ops remat, rematit, rempop; all driven). Entry points NOT driven and not modelled: Array(capacity), '
        'HashMap/HashSet/PoolMap(capacity), List::sort, find, hinted Map/MultiMap insert(position, key, value), PoolList::append() without and '
        'with 2..7 arguments, iterators returned by the calls.')
    rule = (
        'cases = histories over 3 container variables of one kind (new / del / copy-construct / assign / swap / clear / insert with value or '
        'own-element references / remove at index or iterator / Array::remove(Iterator) / removeFront / removeBack / remove key / add-all / '
        'remove-all / reserve / resize / Array::append(pointer into an array - mostly its own -, n)). Streams: corpus witnesses; random '
        'mostly-valid histories per kind with 25% element-reference arguments and 40% self arguments; a malformed stream (dead variables, '
        'out-of-range indices and ranges, wrong-typed references, mixed kinds); random histories of the hash-table kinds with keys that share '
        'buckets (1, 501, 1001, 1501 / 2, 502 at 500 buckets); a collision stream (every insertion order of 3 (thorough: 4) colliding keys, '
        'front/back insertion, one removed through each removing entry point, then looked up / removed again / re-inserted / another '
        'colliding key inserted); a swap stream (both sides hold spare item slots, then both sides grow and shrink); an Array boundary stream '
        '(append(a[i]), resize(m, a[i]), append(a), append(&a[i], m), remove(iterator) at and away from capacity n|3 for every size 0..8, '
        'with/without reserve); a self-argument stream per kind at sizes around the item-block size; exhaustive histories of depth 3 '
        '(thorough: depth 4) for every kind over a 11-18 op alphabet (table kinds: the two keys collide). A case is non-trivial when the '
        'implementation performed at least 4 operations and constructed at least 3 element instances; distinct = distinct op text.')
    assumptions = ['element type: copy constructor / assignment read the source before writing, destructor releases the owned cell '
                   '(harness type Tr); payloads are ints; hash(key) = payload',
                   'the harness passes value arguments as temporaries constructed before and destroyed after the call (key first); element '
                   'references are passed as `const T&` bound to the stored instance, except PoolList::append(v), where template deduction '
                   'makes the parameter a by-value copy (modelled: copy before, destroy after the call)',
                   'Array::append(const T*, n) is driven with pointers into live arrays only (its own or another array, i + n <= size)']

    def nontrivial(self, case, obs):
        oks = sum(1 for l in obs if l.startswith('ok'))
        made = sum(len(re.findall(r'[VCD]\d+', l.split(' | ')[2])) for l in obs if l.count(' | ') >= 2)
        return oks >= 4 and made >= 3

    def run_impl(self, cases, tag='impl'):
        """the watchdog also fires when the machine stalls: a timeout counts only if it repeats"""
        res, crashes = Check.run_impl(self, cases, tag)
        if len(cases) > 1:
            for i, o in enumerate(res):
                if o and o[-1].startswith(('! timeout', '! killed')):
                    for _ in range(2):
                        o2, c2 = Check.run_impl(self, [cases[i]], 'retry_' + tag)
                        if not (o2[0] and o2[0][-1].startswith(('! timeout', '! killed'))):
                            res[i] = o2[0]
                            crashes.pop(i, None)
                            if 0 in c2:
                                crashes[i] = c2[0]
                            break
        return res, crashes

    def judge(self, cases, impl_obs, spec_obs):
        fails = []
        for i, (s, o) in enumerate(zip(spec_obs, impl_obs)):
            k = first_diff(s, o)
            if k is not None:
                exp = s[k] if k < len(s) else '<nothing>'
                got = o[k] if k < len(o) else '<nothing>'
                tag = tag_of(cases[i], k, got, exp)
                fails.append((i, k, '%-40s op#%d `%s`: spec expects `%s`, implementation gives `%s`' % (
                    tag, k, cases[i][k] if k < len(cases[i]) else 'end', exp, got)))
        return fails

    def streams(self, tier, rng):
        thorough = tier == 'thorough'
        out = []
        cases = []
        for k in KINDS:
            for _ in range(200 if thorough else 60):
                cases.append(gen_case(rng, k, rng.randrange(5, 45)))
        out.append(Stream('histories', cases, note='mostly valid histories per kind, element references and self arguments'))
        cases = []
        for k in KINDS:
            for _ in range(80 if thorough else 20):
                cases.append(gen_case(rng, k, rng.randrange(5, 30), alias=0.4, valid=False, mixed=rng.random() < 0.5))
        out.append(Stream('malformed', cases, note='dead variables, bad indices, wrong-typed references, mixed kinds'))
        cases = []
        for k in TABLE:
            for _ in range(120 if thorough else 40):
                cases.append(gen_case(rng, k, rng.randrange(8, 40), collide=True))
        out.append(Stream('collide-random', cases, note='hash-table kinds, keys drawn from 1 501 1001 1501 2 502 (shared buckets)'))
        out.append(Stream('collide', collision_cases(thorough), note='colliding keys in every insertion order, every removing entry point'))
        out.append(Stream('swap', swap_cases(), note='swap with spare item slots on both sides, then growth on both sides'))
        out.append(Stream('boundary', boundary_cases(thorough), note='Array growth boundary with own elements'))
        out.append(Stream('selfarg', selfarg_cases(thorough), note='self-assignment, copies of copies, container as its own argument'))
        if thorough:
            for k in KINDS:
                out.append(Stream('exh4-' + k, exhaustive_cases(k, 4), exhaustive=False, note='all depth-4 histories over the alphabet'))
        else:
            for k in KINDS:
                out.append(Stream('exh3-' + k, exhaustive_cases(k, 3), note='all depth-3 histories over the alphabet'))
        return out


CHECK = C04
