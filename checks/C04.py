import itertools, os, re, sys
from vf import Check, Stream, log

NV = 3
KINDS = ['array', 'list', 'map', 'multimap', 'hashmap', 'hashset', 'poollist', 'poolmap']
HAS_KEY = {'map', 'multimap', 'hashmap', 'hashset', 'poolmap'}
HAS_VAL = {'array', 'list', 'map', 'multimap', 'hashmap', 'poollist', 'poolmap'}
COPYABLE = {'array', 'list', 'map', 'multimap', 'hashmap', 'hashset'}
UNIQUE = {'map', 'hashmap', 'hashset', 'poolmap'}
CAN_ADDALL = {'array', 'list', 'map', 'hashset'}
CAN_SWAP = {'array', 'list', 'hashmap', 'hashset', 'poollist', 'poolmap'}


class Pic:
    """A tiny picture of the variables (kind, size) so that generated ops mostly hit their
    preconditions.  Sizes of keyed containers are upper bounds only; nothing expected is ever
    computed here (expected observations come from the extracted spec/model)."""

    def __init__(self):
        self.kind = [None] * NV
        self.size = [0] * NV

    def live(self):
        return [x for x in range(NV) if self.kind[x]]

    def dead(self):
        return [x for x in range(NV) if not self.kind[x]]


def small(rng):
    return rng.randrange(0, 7)


def gen_arg_val(rng, pic, x, alias):
    """value argument for an op on variable x"""
    k = pic.kind[x]
    if alias and rng.random() < alias:
        ys = [y for y in pic.live() if pic.kind[y] in HAS_VAL and pic.size[y] > 0]
        if x in ys and rng.random() < 0.8:
            ys = [x]
        if ys:
            y = rng.choice(ys)
            n = pic.size[y]
            return 'v%d.%d' % (y, rng.choice([0, n - 1, rng.randrange(n)]))
    return str(small(rng))


def gen_arg_key(rng, pic, x, alias):
    if alias and rng.random() < alias:
        ys = [y for y in pic.live() if pic.kind[y] in HAS_KEY and pic.size[y] > 0]
        if x in ys and rng.random() < 0.8:
            ys = [x]
        if ys:
            y = rng.choice(ys)
            n = pic.size[y]
            return 'k%d.%d' % (y, rng.choice([0, n - 1, rng.randrange(n)]))
    return str(small(rng))


def gen_case(rng, kind, nops, alias=0.25, valid=True, mixed=False):
    """history over NV variables of one kind (or mixed kinds)"""
    pic = Pic()
    ops = []
    kinds = [kind] if not mixed else [kind, rng.choice(KINDS)]

    def new(x):
        k = rng.choice(kinds)
        ops.append('new %d %s' % (x, k))
        pic.kind[x] = k
        pic.size[x] = 0

    new(0)
    for _ in range(nops):
        lv = pic.live()
        r = rng.random()
        if not lv or (r < 0.05 and pic.dead()):
            new(rng.choice(pic.dead()))
            continue
        x = rng.choice(lv) if valid or rng.random() < 0.9 else rng.randrange(NV + 1)
        if x >= NV or not pic.kind[x]:
            ops.append(rng.choice(['clear %d' % x, 'del %d' % x, 'remat %d 0' % x, 'ins %d b 1 1' % x]))
            continue
        k = pic.kind[x]
        n = pic.size[x]
        same = [y for y in lv if pic.kind[y] == k]
        y = rng.choice(same) if rng.random() < 0.6 else x
        if not valid and rng.random() < 0.1:
            y = rng.randrange(NV + 1)
        if r < 0.45:
            p = rng.choice(['f', 'b', 'b', str(rng.randrange(n + 1))])
            ka = gen_arg_key(rng, pic, x, alias) if k in HAS_KEY else '-'
            va = gen_arg_val(rng, pic, x, alias) if (k in HAS_VAL and k != 'poolmap') else '-'
            ops.append('ins %d %s %s %s' % (x, p, ka, va))
            pic.size[x] += 1
        elif r < 0.57:
            i = rng.choice([0, max(n - 1, 0), rng.randrange(max(n, 1))]) if valid else rng.randrange(n + 2)
            ops.append('remat %d %d' % (x, i))
            if i < n:
                pic.size[x] -= 1
        elif r < 0.63:
            a = gen_arg_key(rng, pic, x, alias) if k in HAS_KEY else gen_arg_val(rng, pic, x, alias)
            ops.append('remkey %d %s' % (x, a))
            # size stays an upper bound
        elif r < 0.66:
            ops.append('clear %d' % x)
            pic.size[x] = 0
        elif r < 0.72:
            ops.append('asg %d %d' % (x, y))
            if k in COPYABLE and y < NV and pic.kind[y] == k:
                pic.size[x] = pic.size[y]
        elif r < 0.77:
            d = pic.dead()
            if d and k in COPYABLE:
                z = rng.choice(d)
                ops.append('copy %d %d' % (z, x))
                pic.kind[z] = k
                pic.size[z] = n
            else:
                ops.append('asg %d %d' % (x, x))
        elif r < 0.82:
            ops.append('swap %d %d' % (x, y))
            if k in CAN_SWAP and y < NV and pic.kind[y] == k:
                pic.size[x], pic.size[y] = pic.size[y], pic.size[x]
        elif r < 0.88:
            p = rng.choice(['f', 'b', str(rng.randrange(n + 1))])
            ops.append('addall %d %s %d' % (x, p, y))
            if k in CAN_ADDALL and y < NV and pic.kind[y] == k and k not in ('map', 'hashset'):
                pic.size[x] += pic.size[y]
            elif k in ('map', 'hashset') and y < NV and pic.kind[y] == k:
                pic.size[x] += pic.size[y]      # upper bound
        elif r < 0.90:
            ops.append('remall %d %d' % (x, y))
        elif r < 0.94 and k == 'array':
            ops.append('reserve %d %d' % (x, rng.choice([0, n, n + 1, n + 4, rng.randrange(0, 20)])))
        elif r < 0.98 and k == 'array':
            m = rng.choice([0, n, n + 1, max(n - 1, 0), rng.randrange(0, 14)])
            ops.append('resize %d %d %s' % (x, m, gen_arg_val(rng, pic, x, alias)))
            pic.size[x] = m
        else:
            ops.append('del %d' % x)
            pic.kind[x] = None
            pic.size[x] = 0
    return ops


class C04(Check):
    id = 'C04'
    comp = 'Life'
    extracted = ['coq/Life/model.mli', 'coq/Life/model.ml', 'ocaml/zconv.ml', 'ocaml/life_driver.ml']
    harness_sources = ['harness/life.cpp']
    per_case_timeout = 5
    level_text = 'TODO'
    level_note = 'TODO'
    technique = 'proof'
    rule = 'TODO'
    assumptions = []

    def nontrivial(self, case, obs):
        return len(case) >= 4

    def streams(self, tier, rng):
        thorough = tier == 'thorough'
        out = []
        cases = []
        for k in KINDS:
            for _ in range(120 if thorough else 25):
                cases.append(gen_case(rng, k, rng.randrange(5, 40)))
        out.append(Stream('histories', cases))
        return out


CHECK = C04
