import os, sys, itertools, shutil
from vf import Check, Stream, hexs, sh, log, BUILD, VERIF, line_matches, run_exe_on_cases

ALPHA = '-abc=x'
CMD_ALPHA = 'a "\\'

# fixed option table: flag / required / optional, short and long (one-letter long names keep
# '--n=v' inside the small exhaustive scope), a long-only flag and a multi-letter name
FIXED_TABLE = [
    (ord('a'), 'a', 0),
    (ord('b'), 'b', 1),
    (ord('c'), 'c', 3),
]
FIXED_TABLE2 = [
    (ord('a'), 'ab', 0),
    (ord('b'), 'abc', 1),
    (ord('c'), 'a', 3),
    (300, 'cc', 0),
    (ord('x'), None, 1),
]


def hx(s):
    if isinstance(s, str):
        s = s.encode('latin-1')
    return hexs(s)


def table_ops(tbl):
    return ['@T ' + ' '.join('%d:%s:%d' % (c, '~' if n is None else hx(n), f) for (c, n, f) in tbl)]


def parse_case(tbl, vec):
    return table_ops(tbl) + ['s ' + hx(s) for s in vec] + ['parse']


def strings_upto(alpha, n):
    out = ['']
    for k in range(1, n + 1):
        out += [''.join(t) for t in itertools.product(alpha, repeat=k)]
    return out


TOKENS = ['', '-', '--', 'x', '-a', '-b', '-c', '-x', '-ab', '-ba', '-bx', '-cx', '-ac', '-abc', '-aab', '-axb',
          '--a', '--b', '--c', '--x', '--a=x', '--b=x', '--c=x', '--b=', '--a=', '--=x', '-a-', '-=', '=', '--ab']

CHILD = './ac'


class C20(Check):
    id = 'C20'
    comp = 'Args'
    extracted = ['coq/Args/model.mli', 'coq/Args/model.ml', 'ocaml/zconv.ml', 'ocaml/args_driver.ml']
    harness_sources = ['harness/args.cpp']
    per_case_timeout = 20
    level_text = ('18 Coq theorems (no axioms) about an executable model of Process.cpp (POSIX paths) that mirrors the code decision '
                  'by decision with every forward string access going through a bounds-checked peek/advance and every backward one '
                  '(argument.attach(arg - 2, ..), attach(argName - 2, ..), attach(arg - 1, 1)) through attach_back, which answers out-of-'
                  'bounds unless the pointer stays at or behind the start of the string and the bytes handed out end at or before the '
                  'terminator. (A) Process::Arguments: for EVERY option table and EVERY argument vector of C strings, iterating read() '
                  'yields exactly the item sequence of an independently written getopt_long reference (clusters, attached/detached/'
                  'optional values, long options with = or separate value, --, lone -, unknown ?, missing :) - proved as a refinement: '
                  'each read() on a reachable cursor performs one reference step, stays inside [string, terminator], strictly '
                  'decreases the count of unread characters, and false is final; so the loop ends within weight+1 calls. (B) '
                  'splitCommandLine equals the reference word splitter on every C string, terminates with fuel length+1 and in bounds '
                  'on EVERY byte string (covers the loop that used to hang), and split(quote words) = words for all words not ending '
                  'in a backslash. (C) the argv/env arrays handed to execvpe by each start/open overload are exactly executable + '
                  'argument vector + environment given, where element 0 of a vector without its own terminating null pointer is the '
                  'program-name slot and is filled with the executable. The model is tied to the code by running the extracted model, '
                  'the extracted reference and the ASan/UBSan build of the working tree on the same inputs (results and the cursor '
                  'fields idx/pos/inOpt/skipOpt compared, also for two more read() calls after the first false and for argc == 0), '
                  'exhaustively over small alphabets.')
    level_note = ('partial: exec itself, pipes, join()/exit status, end-of-file on redirected output, stdin bytes arriving intact and the '
                  'environment as seen by the child are OS behaviour - validated by correspondence only (a helper child echoes argv/environ, '
                  'copies stdin to stdout/stderr and exits with a scripted code; 8 redirection combinations x 4 launch forms, payloads '
                  '0..64 KiB+1 (1 MiB in thorough) around the pipe capacity, exit codes 0..255; launch profiles: a second start()/open() '
                  'through each of the four overloads on a running Process is refused with EINVAL; descriptor 0 of the parent closed '
                  'while the process is opened; an executable that does not exist (message on the child\'s stderr, EXIT_FAILURE); every '
                  'launch runs under its own watchdog (4 s + 4 s/MiB) that kills the child and reports `! timeout`; expected exit code, '
                  'stream contents and error codes are computed by the driver, not in Coq). kill(), the environment setters/getters and '
                  'daemonize are not modelled. Theorems are about the model; the tie to the code is differential. The contents of the '
                  'bytes behind the cursor that attach_back hands out are rebuilt from the bytes read on the way (only the bounds of the '
                  'backward access are an obligation). Contract taken from the code, not from the header (Process.hpp says only '
                  '"argv: Arguments to the process"): start/open(executable, argc, argv) follow the main()/exec convention - argv[0] '
                  'is the slot of the program name: it is overwritten with `executable` (POSIX: args[0] = executable; Windows: '
                  'getCommandLine starts at argv[1]), the library\'s own command-line overloads pass the first word there, and a vector '
                  'that ends in a null pointer counted in argc is handed over unchanged; open(executable, List) inherits this, so the '
                  'first list element is not seen by the child. Not treated as a defect; callers that put the first real argument into '
                  'element 0 lose it. Hypotheses of the theorems: argument strings are bytes 1..255 and option names contain no NUL '
                  '(what a C string is); the round trip excludes words ending in a backslash (the reference quoting would escape its own '
                  'closing quote - shown by an Example). The word-splitting reference follows the code on inputs outside the property\'s '
                  'class "words separated by single spaces": a leading or doubled space yields an empty word, an unterminated quote is '
                  'accepted. The model mirrors the code after the repairs in fixes/C20. Map iteration order is taken as given (C01): the '
                  'driver sorts the environment by key before handing it to model and reference. splitCommandLine is a file-local '
                  'function: the harness compiles Process.cpp into its own translation unit to call it directly, and also drives it '
                  'through open/start(commandLine). Trusted: Coq kernel, the getopt/word-splitting reference (ArgsSpec.v; searched for '
                  'disagreements with glibc getopt_long on the vectors that do not abbreviate a long option name - glibc accepts unique '
                  'prefixes, the reference and the code accept exact names only - as a search oracle, not as a theorem), extraction + '
                  'OCaml driver, harness, helper child.')
    technique = 'Coq proof about an executable model + differential correspondence (extracted model/spec vs ASan/UBSan build)'
    rule = ('cases = (option table, argument vector) parsed to the end and twice beyond (also with argc == 0), one command line split, '
            'or one child launch; argument vectors are exhaustive over {- a b c = x} (quick: 1 string of length <= 4, 2 of length <= 2, '
            '3 from a token set; thorough: 1 of length <= 5, 2 of length <= 3, 3 of length <= 2) plus random tables/vectors; command '
            'lines exhaustive over {a SP " \\} up to length 6 (quick) / 8 (thorough) plus random longer ones; launches cover the 8 '
            'redirection combinations x {cmd, argv, argv0, list} forms x payloads around 4 KiB / 64 KiB +-1 / 1 MiB x exit codes 0..255 '
            '(sampled in quick) x environments (also given out of key order) and the profiles again / fd0 / noexec. A parse case is '
            'non-trivial when the implementation reported at least one option, error or two items; a split case when it produced >= 2 '
            'words or the line contains a quote; every launch is non-trivial. distinct = distinct op text')
    assumptions = ['argument and option-name strings are C strings (no NUL inside, bytes 1..255); char is signed (x86-64 Linux)',
                   'getopt conventions as transcribed in coq/Args/ArgsSpec.v: exact long names (no abbreviations), items reported in '
                   'order of appearance, a value attached to a long flag option is an error',
                   'start/open(executable, argc, argv): argv[0] is the program-name slot (main()/exec convention) and is replaced by '
                   'the executable unless the vector carries its own terminating null pointer; open(executable, List) likewise',
                   'Map<String,String> enumerates in key order (property C01); OS behaviour of vfork/execvpe/pipe/waitpid is not modelled']

    # ---- build: also the helper child --------------------------------------------------------
    def build(self):
        b = super().build()
        run = os.path.join(BUILD, self.id, 'run')
        os.makedirs(run, exist_ok=True)
        src = os.path.join(VERIF, 'harness', 'args_child.c')
        exe = os.path.join(run, 'ac')
        if (not os.path.exists(exe)) or os.path.getmtime(exe) < os.path.getmtime(src):
            rc, o, e = sh(['gcc', '-O1', '-o', exe, src])
            if rc != 0:
                b['impl_ok'] = False
                b['errors'].append('helper child: ' + (o + e)[-1500:])
        return b

    # A sanitizer report ends the harness process (one restart per crashing case) and a hanging
    # splitter costs its watchdog time: on a tree where a defect hits a large part of an exhaustive
    # stream, stop that stream after MAX_BAD such cases.  The un-run tail is removed from the
    # stream (in place) so that it is neither compared nor counted.  Never triggers on a good tree.
    MAX_BAD = 24

    def run_impl(self, cases, tag='impl'):
        wd = os.path.join(BUILD, self.id, 'run')
        res, crashes, bad, i, step = [], {}, 0, 0, (25 if (cases and cases[0] and cases[0][-1].startswith('launch')) else 150)
        while i < len(cases):
            part = cases[i:i + step]
            r, cr = run_exe_on_cases(self.exes['impl'], part, wd, tag, is_impl=True, per_case_timeout=self.per_case_timeout)
            res += r
            for k, v in cr.items():
                crashes[i + k] = v
            bad += sum(1 for o in r if any(l.startswith('!') for l in o))
            i += len(part)
            # a launch that trips its watchdog costs seconds: give up on a launch stream much earlier
            limit = 3 if (part and part[-1] and part[-1][-1].startswith('launch')) else self.MAX_BAD
            if bad > limit and i < len(cases):
                log('[C20] stream %s: %d crashing/hanging cases in the first %d - remaining %d cases not run' % (tag, bad, i, len(cases) - i))
                del cases[i:]
                break
        return res, crashes

    def nontrivial(self, case, obs):
        last = case[-1] if case else ''
        if last == 'parse':
            items = [l for l in obs if l.startswith('r ')]
            return len(items) >= 2 or any(not l.startswith('r 0 ') for l in items)
        if last.startswith('split'):
            h = last.split()[1]
            return any(l.startswith('words') and int(l.split()[1]) >= 2 for l in obs) or (h != '-' and b'"' in bytes.fromhex(h))
        return last.startswith('launch')

    # ---- generators --------------------------------------------------------------------------
    def rand_vec(self, rng, n):
        vec = []
        for _ in range(n):
            r = rng.random()
            if r < 0.04:
                vec.append(rng.choice(['-\xc8', '-a\xc8b', '\xc8', '--\xc8=\xff']))
            elif r < 0.5:
                vec.append(rng.choice(TOKENS))
            elif r < 0.8:
                vec.append(''.join(rng.choice(ALPHA) for _ in range(rng.randrange(0, 7))))
            else:
                vec.append(rng.choice(['-', '--']) + rng.choice(['a', 'ab', 'abc', 'b', 'c', 'cc', 'x', 'abcd']) +
                           rng.choice(['', '=', '=x', '=-a', '==', 'x']))
        return vec

    def rand_table(self, rng):
        names = ['a', 'ab', 'abc', 'b', 'c', 'cc', 'x', '', None, None]
        tbl = []
        for _ in range(rng.randrange(1, 7)):
            tbl.append((rng.choice([97, 98, 99, 120, 45, 61, 300, 0, 200, -56]), rng.choice(names), rng.randrange(4)))
        return tbl

    def launch_cases(self, rng, thorough):
        cases = []
        sizes = [0, 1, 4095, 4096, 4097, 65535, 65536, 65537] + ([1048576, 1048577] if thorough else [])
        env_sets = [[], [('K', 'v')], [('A', '1'), ('B', ''), ('PATH', '/x:/y'), ('Z=Z', 'q=r')],
                    [('b', '2'), ('PATH', '/x'), ('B', '1'), ('A', '0')]]      # the last one is not given in key order
        argsets = [['zero'], ['zero', 'a b', '', '"q"', '-x', '--y=z'], [], ['zero', 'x' * 300]]

        def one(api, form, streams, code, mode, size, seed, first, strs=(), env=(), profile=None):
            ops = ['s ' + hx(s) for s in strs] + ['env %s %s' % (hx(k), hx(v)) for k, v in env]
            ops.append('launch %s %s %d %d %d %d %d %s%s' % (api, form, streams, code, mode, size, seed, hx(first),
                                                             ' ' + profile if profile else ''))
            return ops
        # all 8 redirection combinations x forms, small payload
        for streams in range(8):
            for form in ('cmd', 'argv', 'argv0', 'list'):
                env = rng.choice(env_sets)
                strs = rng.choice([a for a in argsets if a or form != 'argv0']) if form != 'cmd' else ()
                first = CHILD if form != 'cmd' else CHILD + rng.choice(['', ' a', ' "a b" c', ' a\\"b "c\\"d" ""', ' "" x'])
                mode = rng.choice([0, 1, 2, 3])
                size = rng.choice([0, 1, 100, 5000]) if mode else 0
                cases.append(one('open', form, streams, rng.randrange(256), mode, size, rng.randrange(1 << 30), first, strs, env))
        # start(): nothing redirected
        for form in ('cmd', 'argv', 'argv0'):
            for env in env_sets:
                strs = rng.choice([a for a in argsets if a or form != 'argv0']) if form != 'cmd' else ()
                first = CHILD if form != 'cmd' else CHILD + ' p "q r"'
                cases.append(one('start', form, 0, rng.randrange(256), 1, 300, rng.randrange(1 << 30), first, strs, env))
        # the List overload with an environment (forwarding)
        for env in env_sets:
            cases.append(one('open', 'list', 1, 7, 0, 0, 1, CHILD, ['zero', 'k'], env))
        # payload sizes around the pipe capacity, through stdin and back through stdout / stderr / both
        for size in sizes:
            for mode, streams in ((1, 5), (2, 6), (3, 7), (1, 4), (1, 1), (3, 3)):
                if size >= 1048576 and mode == 3 and streams != 7:
                    continue
                cases.append(one('open', 'argv', streams, rng.randrange(256), mode, size, rng.randrange(1 << 30), CHILD, ['zero', 'p']))
        # launch profiles: a second open()/start() on a running Process; descriptor 0 of the parent closed;
        # an executable that does not exist (with and without PATH lookup)
        for api, form, streams in (('open', 'argv', 1), ('open', 'cmd', 7), ('open', 'list', 4), ('start', 'argv', 0), ('start', 'cmd', 0)):
            strs = ['zero', 'p'] if form != 'cmd' else ()
            cases.append(one(api, form, streams, rng.randrange(256), 1 if streams & 4 else 0, 200 if streams & 4 else 0,
                             rng.randrange(1 << 30), CHILD + (' p' if form == 'cmd' else ''), strs, rng.choice(env_sets), 'again'))
        for streams in range(8):
            for form in (('argv', 'cmd', 'list', 'argv0') if thorough else ('argv', 'cmd')):
                strs = ['zero', 'p'] if form != 'cmd' else ()
                mode = rng.choice([1, 2, 3]) if streams & 4 else 0
                size = rng.choice([1, 300, 70000]) if mode else 0
                cases.append(one('open', form, streams, rng.randrange(256), mode, size, rng.randrange(1 << 30),
                                 CHILD + (' p' if form == 'cmd' else ''), strs, rng.choice(env_sets), 'fd0'))
        for streams in range(8):
            for exe in ('./no-such-helper', 'no-such-helper-on-the-path'):
                form = rng.choice(['argv', 'cmd', 'list'])
                strs = ['zero', 'p'] if form != 'cmd' else ()
                cases.append(one('open', form, streams, 0, 0, 0, 1, exe + (' p' if form == 'cmd' else ''), strs, rng.choice(env_sets[:3]), 'noexec'))
        for exe in ('./no-such-helper', 'no-such-helper-on-the-path'):
            cases.append(one('start', 'argv', 0, 0, 0, 0, 1, exe, ['zero'], [], 'noexec'))
            cases.append(one('start', 'cmd', 0, 0, 0, 0, 1, exe + ' a b', (), [], 'noexec'))
        # exit codes
        codes = range(256) if thorough else sorted(set([0, 1, 2, 127, 128, 254, 255] + [rng.randrange(256) for _ in range(12)]))
        for code in codes:
            cases.append(one('open', 'argv', 1, code, 0, 0, code, CHILD, ['zero']))
        return cases

    def streams(self, tier, rng):
        thorough = tier == 'thorough'
        out = []
        one = strings_upto(ALPHA, 5 if thorough else 4)
        out.append(Stream('args_1', [parse_case(FIXED_TABLE, [s]) for s in one], exhaustive=True,
                          note='every single argument up to length %d over {- a b c = x}' % (5 if thorough else 4)))
        two = strings_upto(ALPHA, 3 if thorough else 2)
        out.append(Stream('args_2', [parse_case(FIXED_TABLE, [s, t]) for s in two for t in two], exhaustive=True,
                          note='every pair of arguments up to length %d' % (3 if thorough else 2)))
        if thorough:
            three = strings_upto(ALPHA, 2)
            out.append(Stream('args_3', [parse_case(FIXED_TABLE, [s, t, u]) for s in three for t in three for u in three],
                              exhaustive=True, note='every triple of arguments up to length 2'))
        toks = TOKENS if thorough else TOKENS[:20]
        out.append(Stream('args_tok3', [parse_case(FIXED_TABLE2, [s, t, u]) for s in toks for t in toks for u in toks],
                          exhaustive=True, note='every triple over the token set, second table (multi-letter names, long-only, name-less)'))
        cases = []
        for _ in range(6000 if thorough else 1200):
            cases.append(parse_case(self.rand_table(rng), self.rand_vec(rng, rng.randrange(0, 7))))
        out.append(Stream('args_rand', cases, note='random tables (duplicate/negative/zero characters, empty and missing names, all flag combinations)'))
        out.append(Stream('args_argc0', [table_ops(t) + ['s ' + hx(x) for x in v] + ['parse0'] for t in (FIXED_TABLE, FIXED_TABLE2)
                                         for v in ([], ['-a'], ['--', 'x'])],
                          note='Arguments constructed with argc == 0: read() is false at once and stays false'))
        # command lines
        n = 8 if thorough else 6
        out.append(Stream('split_ex', [['split ' + hx(s)] for s in strings_upto(CMD_ALPHA, n)], exhaustive=True,
                          note='every command line up to length %d over {a SP " \\}' % n))
        cases = []
        for _ in range(3000 if thorough else 600):
            k = rng.randrange(0, 40)
            cases.append(['split ' + hx(''.join(rng.choice('ab "\\\\"  \t\'=-') for _ in range(k)))])
        out.append(Stream('split_rand', cases))
        out.append(Stream('launch', self.launch_cases(rng, thorough),
                          note='8 redirection combinations x forms; payloads around the pipe capacity; exit codes'))
        return out

    # ---- glibc getopt_long as an additional search oracle for the reference -----------------------
    def extra_checks(self, tier, rng, ctx):
        def abbreviates(tbl, vec):
            for s in vec:
                if s.startswith('--') and len(s) > 2:
                    name = s[2:].split('=')[0]
                    for (_, n, _) in tbl:
                        if n is not None and n != name and n.startswith(name):
                            return True
            return False
        vecs = []
        toks = TOKENS
        for _ in range(3000 if tier == 'thorough' else 800):
            tbl = rng.choice([FIXED_TABLE, FIXED_TABLE2[:4]])
            vec = [rng.choice(toks) if rng.random() < 0.7 else ''.join(rng.choice(ALPHA) for _ in range(rng.randrange(0, 5)))
                   for _ in range(rng.randrange(0, 5))]
            if not abbreviates(tbl, vec):
                vecs.append((tbl, vec))
        for s in strings_upto(ALPHA, 4 if tier == 'thorough' else 3):
            for extra in ([], ['x']):
                if not abbreviates(FIXED_TABLE, [s] + extra):
                    vecs.append((FIXED_TABLE, [s] + extra))
        gcases = [table_ops(t) + ['s ' + hx(s) for s in v] + ['getopt'] for t, v in vecs]
        pcases = [parse_case(t, v) for t, v in vecs]
        g, _ = self.run_impl(gcases, tag='impl_glibc')
        ref = self.run_spec(pcases, tag='spec_glibc')
        bad = 0
        for (t, v), go, ro, pc in zip(vecs, g, ref, pcases):
            ro = [l for l in ro if not l.startswith('again')]
            ok = len(go) == len(ro) and all(line_matches(a, b) for a, b in zip(go, ro))
            if not ok:
                bad += 1
                if bad == 1:
                    p = self.write_replay('no-failing-input-found', 'reference parser (ArgsSpec.getopt_ref) disagrees with glibc getopt_long',
                                          pc, {'glibc': go, 'reference': ro})
                    ctx['violations'].append((p, ' no-failing-input-found'))
        log('[C20] glibc cross-check: %d vectors, %d disagreements' % (len(vecs), bad))


CHECK = C20
