import os, re, sys, itertools, shutil
from vf import Check, Stream, hexs, sh, log, BUILD, VERIF, line_matches, run_exe_on_cases

ALPHA = '-abc=x'
CMD_ALPHA = 'a "\\'

# fixed option table: flag / required / optional, short and long (one-letter long names keep
# '--n=v' inside the small exhaustive scope), a long-only flag and a multi-letter name
FIXED_TABLE = [
    (ord('a'), 'a', 0),
    (ord('b'), 'b', 1),
    (ord('c'), 'c', 3),
]
FIXED_TABLE2 = [
    (ord('a'), 'ab', 0),
    (ord('b'), 'abc', 1),
    (ord('c'), 'a', 3),
    (300, 'cc', 0),
    (ord('x'), None, 1),
]


def hx(s):
    if isinstance(s, str):
        s = s.encode('latin-1')
    return hexs(s)


def table_ops(tbl):
    return ['@T ' + ' '.join('%d:%s:%d' % (c, '~' if n is None else hx(n), f) for (c, n, f) in tbl)]


def parse_case(tbl, vec):
    return table_ops(tbl) + ['s ' + hx(s) for s in vec] + ['parse']


def strings_upto(alpha, n):
    out = ['']
    for k in range(1, n + 1):
        out += [''.join(t) for t in itertools.product(alpha, repeat=k)]
    return out


TOKENS = ['', '-', '--', 'x', '-a', '-b', '-c', '-x', '-ab', '-ba', '-bx', '-cx', '-ac', '-abc', '-aab', '-axb',
          '--a', '--b', '--c', '--x', '--a=x', '--b=x', '--c=x', '--b=', '--a=', '--=x', '-a-', '-=', '=', '--ab']

CHILD = './ac'


class C20(Check):
    id = 'C20'
    comp = 'Args'
    extracted = ['coq/Args/model.mli', 'coq/Args/model.ml', 'ocaml/zconv.ml', 'ocaml/args_driver.ml']
    harness_sources = ['harness/args.cpp', 'harness/args_kernel.cpp']
    per_case_timeout = 20
    level_text = ('58 Coq theorems (no axioms) about an executable model of Process.cpp (POSIX paths) that mirrors the code decision '
                  'by decision with every forward string access going through a bounds-checked peek/advance and every backward one '
                  '(argument.attach(arg - 2, ..), attach(argName - 2, ..), attach(arg - 1, 1)) through attach_back, which answers out-of-'
                  'bounds unless the pointer stays at or behind the start of the string and the bytes handed out end at or before the '
                  'terminator. (A) Process::Arguments: for EVERY option table and EVERY argument vector of C strings, iterating read() '
                  'yields exactly the item sequence of an independently written getopt_long reference (clusters, attached/detached/'
                  'optional values, long options with = or separate value, --, lone -, unknown ?, missing :) - proved as a refinement: '
                  'each read() on a reachable cursor performs one reference step, stays inside [string, terminator], strictly '
                  'decreases the count of unread characters, and false is final; so the loop ends within weight+1 calls. (B) '
                  'splitCommandLine equals the reference word splitter on every C string, terminates with fuel length+1 and in bounds '
                  'on EVERY byte string (covers the loop that used to hang); split(quote words) = words for all words not ending in a '
                  'backslash, and for the words that do the result is characterised exactly (the backslash escapes the closing quote: the '
                  'word ends in a quote character and takes in the rest of the line read in quoted mode; as last word only the last '
                  'character changes; followed by words without quote/space characters everything merges into one word); with the quoting '
                  'that writes trailing backslashes behind the closing quote, split(join words) = words for EVERY word list; the '
                  'class of command lines the property quantifies over is a decidable predicate of the reference (ArgsSpec.in_class: single '
                  'unquoted spaces between words, none leading or trailing, every quote closed): on it the model yields exactly the '
                  'words the oracle names, that quoting function only writes lines of the class, so every word list is the answer '
                  'to some line of the class. (C) the '
                  'argv/env arrays handed to execvpe by EACH of the five entry points - start(cmd), start(program, argc, argv), '
                  'open(cmd), open(executable, argc, argv), open(executable, List), one model function per entry point because the code '
                  'carries the preparation once per entry point - are exactly executable + argument vector + environment '
                  'given, where element 0 of a vector without its own terminating null pointer is the program-name slot and is filled '
                  'with the executable; for a command line of the class the program is the first WORD. (D) getEnvironmentVariable / setEnvironmentVariable / getEnvironmentVariables over ::environ '
                  '(getenv/setenv/unsetenv transcribed from POSIX/glibc as functions on the string array) refine a finite map kept in '
                  'key order on every environment without duplicate names, and every set keeps it duplicate-free: get is lookup, set is '
                  'update, the empty value removes, enumeration is the sorted binding list that agrees with get on every name; names '
                  'that are empty or contain = change nothing. (E) the Process object (pid and three descriptors with 0 = closed) '
                  'with open/start/join/kill/close/read/write/isRunning/destructor as the code sequences them and every kernel answer '
                  '(pipe, F_DUPFD, vfork, waitpid, read/write/select results) as an input: for ALL operation histories and ALL answers '
                  'with pairwise different descriptors - no close() ever hits a descriptor the object does not hold (no double close, '
                  'the descriptor-0 convention included); opened = closed + held for every descriptor (unconditionally, any answers); '
                  'each step keeps the invariant and answers like the life-cycle reference (idle / running with a set of open streams); '
                  'join returns WEXITSTATUS of the status the kernel delivers - for a child that exited with code c exactly c '
                  '(the statement the oracle compares; a status with WIFSIGNALED carries no exit code and the oracle leaves the number open); join/kill/read(streams) on an object without a process '
                  'and open/start on a running one are refused without a system call or any change (seen by the caller - ProcSpec.seen, '
                  'the observation the oracle compares - as a failed call, false / -1, that changes nothing); a failed waitpid changes nothing and '
                  'can be retried; the object holds exactly one descriptor per open stream and none when idle, and after the destructor '
                  'every descriptor handed out was closed exactly once - these last two for all histories WITHOUT the two events on '
                  'which the code loses descriptors (vfork fails inside open; waitpid fails inside the destructor), for which the '
                  'unconditional statement is refuted by witness. The model is tied to the code by running the extracted model, the '
                  'extracted reference and the ASan/UBSan build of the working tree on the same inputs (results and the cursor fields '
                  'idx/pos/inOpt/skipOpt; the raw ::environ array; the object fields, the system calls the Process code makes - '
                  'recorded by interposing close/pipe/fcntl/waitpid/kill/read/write/select/poll and a macro on vfork - and the number of '
                  'open descriptors of the harness process counted in /proc/self/fd after every call), exhaustively over small scopes.')
    level_note = ('partial: exec itself, pipes, end-of-file on redirected output, stdin bytes arriving intact and the environment as seen by '
                  'the child are OS behaviour - validated by correspondence only (a helper child echoes argv/environ, copies stdin to '
                  'stdout/stderr and exits with a scripted code or stays until signalled; 8 redirection combinations x 4 launch forms, '
                  'payloads 0..64 KiB+1 (1 MiB in thorough) around the pipe capacity, exit codes 0..255; every entry point with 0 / 1 / 2 / '
                  '16 / 17 / 40 arguments, an empty argument first / in the middle / last / everywhere, environments of 0 / 1 / 16 / 17 / 40 '
                  'entries and program names that only the quoting rules can spell ("./ac", ./a"c", "./sp dir/ac", "./a\\"c" ..); launch '
                  'profiles again / fd0 / noexec / manyfds (1100 descriptors open in the parent: pipe ends above FD_SETSIZE) / vpause (the '
                  'interposed select/poll answers "timed out" - sets cleared, timeval counted down, revents 0 - for 5 s or 2000 s of VIRTUAL '
                  'time before the kernel is asked, so a reader with a shorter time-out goes through its time-out path without real '
                  'waiting; a reader that then keeps asking with a zero time-out is reported as `spin`) / pause (thorough tier: one REAL '
                  'silence of 1.2 s between the child\'s writes); every launch under its own watchdog; a child started with an empty environment map after a sequence of '
                  'setEnvironmentVariable calls echoes exactly the model\'s ::environ). What pipe/F_DUPFD/vfork/waitpid/read/write/select '
                  'return is an INPUT of the Process-object model (the harness injects pipe, F_DUPFD, vfork and waitpid failures and '
                  'closes the caller\'s descriptor 0; the driver supplies the same answers to the model); libc getenv/setenv/unsetenv '
                  'are modelled (transcribed), malloc failure inside them is not. Process::wait(Process**, count) and interrupt() '
                  'are driven (wait on one object: returns it once its child has ended, 0 when interrupted or without a child; the '
                  'two static variables behind them, including the dummy child interrupt() starts when an earlier wait left waitState '
                  'at 2) but not modelled in Coq: expected results are computed by the driver. join() without arguments is driven '
                  'through the same model operation as join(exitCode). Not modelled, not driven: daemonize, exit, getCurrentProcessId, '
                  'getExecutablePath, wait() with several processes or from a second thread. NOTED, OUTSIDE THE STATEMENT of C20 '
                  '(real defects found in round 3, repairs declined as not contradicting the property text - fixes/C20/08..11 '
                  '*.declined.*; the model mirrors the code AS IT IS and the oracle does not ask for more): (08) open() returns without '
                  'closing its pipes when vfork fails - 2/4/6 descriptors lost per call; (09) setEnvironmentVariable(name, "") returns '
                  'the int of unsetenv as bool: false when the variable was removed, true when the name was refused '
                  '(environment_set_result); (10) read(buffer, length) / write() on a Process whose stream is not open go to '
                  'descriptor 0 of the caller (read_write_without_stream_use_descriptor_zero); (11) the destructor ignores a failed '
                  'join and the stream descriptors stay open (process_descriptor_leak_refuted has both witnesses). On these paths the '
                  'reference side of the check prints a wildcard (result of an unset, result/descriptor-0 offset of read/write without '
                  'stream, number of open descriptors for the rest of a case after a leaking event); the model side is compared exactly. '
                  'SCOPE OF THE ORACLE ON MISUSE: the property text is silent on join/kill/read(streams) without a process and on '
                  'open/start on a running object, and names no errno. The reference side therefore asks only that such a call fails '
                  '(false / -1) and has no side effect (isRunning, open descriptors, stray closes, descriptor 0, and for the launch '
                  'profile `again` the undisturbed first child with its exit code and streams); WHICH errno a failed call leaves '
                  '(EINVAL where the object itself declines, in the code as it is) is printed in a model-only section (errno=.. of the '
                  'Process-object lines, `| errno=..` of an `again` launch): a tree that reports misuse with other errno values ends '
                  'in no-failing-input-found (correspondence), not in a failing input. '
                  'REPAIRED in round 5 (fixes/C20/12, committed as ef92fcb): read(buffer, length, streams) kept its descriptors in an '
                  'fd_set on the stack - FD_SET/FD_ISSET ran over it once the parent had >= 1024 descriptors open (profile manyfds) - and '
                  're-entered select() after its 1000 s time-out with the set and the timeval the kernel had just cleared (profile '
                  'vpause:2000000: spun for ever); it now waits with poll(). The recorder logs select() and poll() alike as `select`. '
                  'A child ended by a signal is reported by join as true with exit code 0 in the code as it is (WEXITSTATUS of a signal '
                  'status): a statement about the Model; the property says "returns its exit code" and such a child has none, so the '
                  'reference prints `1:?` there (ProcSpec.join_code_specified) and a tree that reports 128+signal differs only in the '
                  'correspondence. Theorems are about the model; the tie to the code is '
                  'differential. The contents of the bytes behind the cursor that attach_back hands out are rebuilt from the bytes read '
                  'on the way (only the bounds of the backward access are an obligation). Contract taken from the code, not from the '
                  'header (Process.hpp says only "argv: Arguments to the process"): start/open(executable, argc, argv) follow the '
                  'main()/exec convention - argv[0] is the slot of the program name: it is overwritten with `executable`, the library\'s '
                  'own command-line overloads pass the first word there, and a vector that ends in a null pointer counted in argc is '
                  'handed over unchanged; open(executable, List) inherits this, so the first list element is not seen by the child '
                  '(the Windows branch of the same functions builds its command line from argv[1..] too: the slot convention is the '
                  'library\'s on both platforms; the text "exactly the argument vector it was given" is read with that convention - a '
                  'choice of the builder, disclosed here and in assumptions). The start() and open() entry points are separate model '
                  'functions with the same text, as in the code. Shrinking of a Process-object case only passes through cases the '
                  'generator can emit (C20.pobj_admits), so a printed replay is never a case whose outcome is undetermined. A case with '
                  'more op lines than the harness holds (16 table rows, 1024 strings, 256 environment entries) is answered `?too-many`, '
                  'never cut. The manyfds launches need a hard RLIMIT_NOFILE >= 2048 (otherwise they are not generated). '
                  'Hypotheses of the theorems: argument strings are bytes 1..255 and option names contain no NUL (what a C string is); '
                  'the environment has no duplicate names (kept by every set; an environment handed over by exec with duplicates is '
                  'outside); getenv with a name containing = or an empty name is outside (the generators do not ask for it); kernel '
                  'answers of one open() are pairwise different descriptors and process ids are not 0. The word-splitting reference '
                  'split_ref follows the code also outside the property\'s class "words separated by single spaces" (a leading or doubled '
                  'space yields an empty word, an unterminated quote is accepted) - splitter_refines_reference is about every line - but '
                  'Process.hpp documents only "the first word .. further words": the ORACLE (ArgsSpec.split_seen) names the words on '
                  'lines of the class only and prints `words ??*` / `argv=?` for a line with a leading, trailing or doubled unquoted '
                  'space or an open quote; what the code does there is compared with the model only (no-failing-input-found). The model mirrors the code after the repairs '
                  'fixes/C20/01..07. Map iteration order and Map::insert overwriting are taken as given (C01). splitCommandLine is a '
                  'file-local function: the harness compiles Process.cpp into its own translation unit to call it directly (which is '
                  'also what lets a macro stand in front of vfork), and also drives it through open/start(commandLine). The direct call '
                  'is found at compile time (SFINAE on Process::Private::splitCommandLine(const String&, C&), C = whatever container '
                  'of String the code fills); on a tree without such a function the split / round-trip cases go through the public '
                  'Process::open("./ac " + line, stdoutStream) and read the words from the helper child\'s echo of argv[1..] (for the '
                  'reference split("./ac " + l) = "./ac" :: split(l)) - the evidence (assumptions, stream notes) then says that the '
                  'L-int seam was unavailable. Trusted: Coq '
                  'kernel, the getopt/word-splitting/map/life-cycle references (ArgsSpec.v, ProcSpec.v; getopt searched for disagreements '
                  'with glibc getopt_long on the vectors that do not abbreviate a long option name, as a search oracle), extraction + '
                  'OCaml driver (it also holds the expectations for wait/interrupt and for what the helper child does), harness, '
                  'system-call recorder, helper child.')
    technique = 'Coq proof about an executable model + differential correspondence (extracted model/spec vs ASan/UBSan build)'
    rule = ('cases = (option table, argument vector) parsed to the end and twice beyond (also with argc == 0), one command line split, '
            'one word list quoted and split again, one child launch, one sequence of environment operations on a given initial '
            '::environ, or one sequence of operations on a Process object with scripted kernel failures; argument vectors are '
            'exhaustive over {- a b c = x} (quick: 1 string of length <= 4, 2 of length <= 2, 3 from a token set; thorough: 1 of '
            'length <= 5, 2 of length <= 3, 3 of length <= 2) plus random tables/vectors; command lines exhaustive over {a SP " \\} '
            'up to length 6 (quick) / 8 (thorough) plus random longer ones; round trips exhaustive for single words up to length 4 / 5 '
            'and pairs up to length 2; launches cover the 8 redirection combinations x {cmd, argv, argv0, list} forms x payloads '
            'around 4 KiB / 64 KiB +-1 / 1 MiB x exit codes 0..255 (sampled in quick) x environments and the profiles again / fd0 / '
            'noexec / manyfds / vpause / pause, plus per entry point (start cmd/argv/argv0, open cmd/argv/argv0/list) 0/1/2/16/17/40 '
            'arguments x environments of 0/1/16/17/40 entries x empty arguments at every kind of position x quoted program names; '
            'one stream of long option names / values / vectors / tables (40 / 60 / 40 / 16); environment: every (initial environment, name, value) of fixed pools (names with NUL, =, empty, high bytes; '
            'values empty, with NUL, with =) plus random sequences, every third ending in a child that inherits; Process object: '
            'every sequence of operations whose outcome is determined, to depth 1 from a new object and depth 2 after an open '
            '(thorough: 2 and 3) with all 8 stream sets, injected pipe/F_DUPFD/vfork/waitpid failures and the caller\'s descriptor '
            '0 closed, plus random sequences up to 9 operations. A parse case is non-trivial when the implementation reported at '
            'least one option, error or two items; a split case when it produced >= 2 words or the line contains a quote; a round '
            'trip when a word contains quote, backslash or space; an environment case when it sets; a Process-object case when a '
            'process was started or a failure injected; every launch is non-trivial. distinct = distinct op text')
    assumptions = ['argument and option-name strings are C strings (no NUL inside, bytes 1..255); char is signed (x86-64 Linux)',
                   'getopt conventions as transcribed in coq/Args/ArgsSpec.v: exact long names (no abbreviations), items reported in '
                   'order of appearance, a value attached to a long flag option is an error',
                   'start/open(executable, argc, argv): argv[0] is the program-name slot (main()/exec convention) and is replaced by '
                   'the executable unless the vector carries its own terminating null pointer; open(executable, List) likewise',
                   'Map<String,String> enumerates in key order and insert overwrites (property C01); getenv/setenv/unsetenv behave as '
                   'POSIX/glibc 2.36 describe (transcribed in coq/Args/ProcModel.v, compared with libc on every environment case); '
                   '::environ has no duplicate names',
                   'command lines: the oracle names the words (and the argv of a launched command line) only for lines of the '
                   'property\'s class, ArgsSpec.in_class - words separated by single unquoted spaces, no leading or trailing space, every '
                   'quote closed; join(): the exit code is compared only when the child exited (WIFEXITED), a child ended by a signal '
                   'has none',
                   'the kernel hands out descriptors that are not open (pairwise different within one open()), pids are not 0; what '
                   'vfork/execvpe/pipe/waitpid/select do is an input of the model or validated by correspondence, not modelled']

    CHILD_COPIES = ['sp dir/ac', 'a"c']

    # ---- build: also the helper child --------------------------------------------------------
    def build(self):
        b = super().build()
        run = os.path.join(BUILD, self.id, 'run')
        os.makedirs(run, exist_ok=True)
        src = os.path.join(VERIF, 'harness', 'args_child.c')
        exe = os.path.join(run, 'ac')
        if (not os.path.exists(exe)) or os.path.getmtime(exe) < os.path.getmtime(src):
            rc, o, e = sh(['gcc', '-O1', '-o', exe, src])
            if rc != 0:
                b['impl_ok'] = False
                b['errors'].append('helper child: ' + (o + e)[-1500:])
        # copies of the helper under names that only the quoting rules of the command-line form can spell
        for rel in self.CHILD_COPIES:
            dst = os.path.join(run, rel)
            os.makedirs(os.path.dirname(dst), exist_ok=True)
            if os.path.exists(exe) and ((not os.path.exists(dst)) or os.path.getmtime(dst) < os.path.getmtime(exe)):
                shutil.copy2(exe, dst)
        # which seam the harness found for the command-line splitter on this tree (see harness/args.cpp, section B)
        self.split_seam = 'direct'
        if b.get('impl_ok') and self.exes.get('impl') and os.path.exists(self.exes['impl']):
            rc, o, e = sh([self.exes['impl'], '--seam'])
            if rc == 0 and o.strip() == 'split public':
                self.split_seam = 'public'
                msg = ('L-int seam unavailable on this tree: no Process::Private::splitCommandLine(const String&, <container>&) to call; '
                       'split / round-trip cases were driven through the public Process::open("./ac " + line, stdoutStream) and the '
                       'words read from the helper child\'s argv[1..]')
                log('[C20] ' + msg)
                self.assumptions = list(type(self).assumptions) + [msg]
        return b

    def seam_note(self, note):
        if getattr(self, 'split_seam', 'direct') == 'public':
            return (note + ' ' if note else '') + '[L-int seam unavailable: splitter reached through the public open(commandLine) and the helper child]'
        return note

    # A sanitizer report ends the harness process (one restart per crashing case) and a hanging
    # splitter costs its watchdog time: on a tree where a defect hits a large part of an exhaustive
    # stream, stop that stream after MAX_BAD such cases.  The un-run tail is removed from the
    # stream (in place) so that it is neither compared nor counted.  Never triggers on a good tree.
    MAX_BAD = 24

    def run_impl(self, cases, tag='impl'):
        wd = os.path.join(BUILD, self.id, 'run')
        res, crashes, bad, i, step = [], {}, 0, 0, (25 if (cases and cases[0] and cases[0][-1].startswith('launch')) else 150)
        while i < len(cases):
            part = cases[i:i + step]
            r, cr = run_exe_on_cases(self.exes['impl'], part, wd, tag, is_impl=True, per_case_timeout=self.per_case_timeout)
            res += r
            for k, v in cr.items():
                crashes[i + k] = v
            bad += sum(1 for o in r if any(l.startswith('!') for l in o))
            i += len(part)
            # a launch that trips its watchdog costs seconds: give up on a launch stream much earlier
            limit = 3 if (part and part[-1] and part[-1][-1].startswith('launch')) else self.MAX_BAD
            if bad > limit and i < len(cases):
                log('[C20] stream %s: %d crashing/hanging cases in the first %d - remaining %d cases not run' % (tag, bad, i, len(cases) - i))
                del cases[i:]
                break
        return res, crashes

    def nontrivial(self, case, obs):
        last = case[-1] if case else ''
        if last == 'parse':
            items = [l for l in obs if l.startswith('r ')]
            return len(items) >= 2 or any(not l.startswith('r 0 ') for l in items)
        if last.startswith('split'):
            h = last.split()[1]
            return any(l.startswith('words') and int(l.split()[1]) >= 2 for l in obs) or (h != '-' and b'"' in bytes.fromhex(h))
        if last.startswith('rt '):
            return any(ch in bytes.fromhex(h) for h in last.split()[2:] if h != '-' for ch in b'"\\ ') if len(last.split()) > 2 else False
        if case and case[0].startswith('@E'):
            return any(l.split()[1:2] == ['set'] for l in obs)
        if case and case[0].startswith('@P'):
            return any(l.split()[1:3] in (['popen', '1'], ['pstart', '1']) or 'fail' in l for l in obs)
        return last.startswith('launch')


    # One report per defect: vf groups failing cases by the first 80 characters of the reason (digits -> N), so the
    # reason starts with a tag of constant text that names WHAT is wrong (not the data), padded to 80 characters.
    @staticmethod
    def open_fields(spec_line, impl_line):
        """vf's wildcard is the bare token `?`.  The reference also leaves a FIELD of a token open (`1:?` - joined, the exit code
        of a child ended by a signal is not specified; `argv=?` - the words of a command line outside the property's class):
        an implementation token with the same prefix counts as that token."""
        if '?' not in spec_line:
            return impl_line
        st, it = spec_line.split(' '), impl_line.split(' ')
        for j in range(min(len(st), len(it))):
            if len(st[j]) > 1 and st[j].endswith('?') and st[j] != '??*' and it[j].startswith(st[j][:-1]):
                it[j] = st[j]
        return ' '.join(it)

    def judge(self, cases, impl_obs, spec_obs):
        fails = []
        shown, shown_spec = impl_obs, spec_obs
        # a reference line that ends in `??*` leaves the rest of the line open (vf expands that token only when the lengths
        # differ): compare the specified prefix
        def cut(sl, il):
            st = sl.split(' ')
            if st[-1] != '??*':
                return sl, il
            it = il.split(' ')
            return ' '.join(st[:-1]), (' '.join(it[:len(st) - 1]) if len(it) >= len(st) - 1 and not il.startswith('!') else il)
        pairs = [[cut(s[k], l) if k < len(s) else (None, l) for k, l in enumerate(o)] for s, o in zip(spec_obs, impl_obs)]
        spec_obs = [[p[0] for p in ps if p[0] is not None] + list(s[len(ps):]) for ps, s in zip(pairs, spec_obs)]
        impl_obs = [[p[1] for p in ps] for ps in pairs]
        impl_obs = [[self.open_fields(s[k], l) if k < len(s) else l for k, l in enumerate(o)] for s, o in zip(spec_obs, impl_obs)]
        for (i, k, reason) in super().judge(cases, impl_obs, spec_obs):
            if k < len(shown[i]) and k < len(shown_spec[i]):
                reason = 'spec expects `%s`, implementation gives `%s`' % (shown_spec[i][k], shown[i][k])
            exp = ['#'] + (spec_obs[i][k].split() if k < len(spec_obs[i]) else [])     # observation lines carry no case number here
            got = ['#'] + (impl_obs[i][k].split() if k < len(impl_obs[i]) else [])
            tag = None
            if len(exp) >= 2 and exp[1] in ('set', 'get', 'vars', 'child'):
                tag = 'environment: ' + {'set': 'result of setEnvironmentVariable', 'get': 'value from getEnvironmentVariable',
                                         'vars': 'enumeration by getEnvironmentVariables', 'child': 'environment inherited by a child'}[exp[1]]
            elif len(exp) >= 11 and exp[1][:1] == 'p' and len(got) >= 11:
                what = {2: 'result', 4: 'isRunning', 6: 'open descriptors of the process', 8: 'close() of a descriptor not held',
                        10: 'bytes moved on descriptor zero of the caller'}
                d = next((j for j in (2, 4, 6, 8, 10) if exp[j] != '?' and exp[j] != got[j]), None)
                if d is not None:
                    tag = 'Process object: %s after %s' % (what[d], {'popen': 'open', 'pstart': 'start', 'pjoin': 'join', 'pjoin0': 'join()',
                                                                      'pkill': 'kill', 'pdel': 'the destructor', 'pclose': 'close',
                                                                      'pread': 'read(buffer, length)', 'pread2': 'read(buffer, length, streams)',
                                                                      'pwrite': 'write', 'prun': 'isRunning', 'pwait': 'wait',
                                                                      'pintr': 'interrupt'}.get(exp[1], exp[1]))
            last = cases[i][-1].split() if cases[i] else []
            if not tag and last[:1] == ['launch'] and len(last) >= 10 and last[9].split(':')[0] in ('manyfds', 'vpause', 'pause'):
                tag = 'launch: ' + {'manyfds': 'the parent has more than FD_SETSIZE descriptors open',
                                    'vpause': 'the child is silent for a while (select/poll answered with time-outs first)',
                                    'pause': 'the child is silent for 1.2 s between its writes'}[last[9].split(':')[0]]
            if tag:
                if len(exp) >= 11 and exp[1] == 'popen':
                    # which kernel answer was injected on the open whose observation differs (k-th observation line = k-th observing op)
                    opl = [l for l in cases[i] if l[:1] == 'p' and not l.startswith('psig')]
                    fl = sorted(set(re.sub(r'\d', '', f) for f in (opl[k].split()[2:] if k < len(opl) else [])))
                    tag = tag.rstrip() + (' with ' + '+'.join(fl) if fl else '')
                reason = (tag + ': ').ljust(80) + reason
            fails.append((i, k, reason))
        fails.sort(key=lambda f: sum(len(l) for l in cases[f[0]]))
        return fails

    # ---- generators --------------------------------------------------------------------------
    def rand_vec(self, rng, n):
        vec = []
        for _ in range(n):
            r = rng.random()
            if r < 0.04:
                vec.append(rng.choice(['-\xc8', '-a\xc8b', '\xc8', '--\xc8=\xff']))
            elif r < 0.5:
                vec.append(rng.choice(TOKENS))
            elif r < 0.8:
                vec.append(''.join(rng.choice(ALPHA) for _ in range(rng.randrange(0, 7))))
            else:
                vec.append(rng.choice(['-', '--']) + rng.choice(['a', 'ab', 'abc', 'b', 'c', 'cc', 'x', 'abcd']) +
                           rng.choice(['', '=', '=x', '=-a', '==', 'x']))
        return vec

    def rand_table(self, rng):
        names = ['a', 'ab', 'abc', 'b', 'c', 'cc', 'x', '', None, None]
        tbl = []
        for _ in range(rng.randrange(1, 7)):
            tbl.append((rng.choice([97, 98, 99, 120, 45, 61, 300, 0, 200, -56]), rng.choice(names), rng.randrange(4)))
        return tbl

    def long_case(self, rng):
        """round 5: the other end of the scope - names of 1..40 characters, values of 20..60, vectors of 20..40 strings, tables of
        up to 16 rows (any length-gated slip in read() is invisible on strings of <= 6 characters)"""
        def word(lo, hi, alpha='abcx'):
            return ''.join(rng.choice(alpha) for _ in range(rng.randrange(lo, hi + 1)))
        tbl, names = [], []
        for _ in range(rng.randrange(1, 17)):
            r = rng.random()
            name = None if r < 0.15 else word(1, 40) if r < 0.7 else word(1, 12, 'abcx-=') if r < 0.8 else rng.choice(names or ['a'])
            if 0.8 <= r < 0.92 and names:               # a sibling: same length, one character (anywhere, also far behind) differs
                n = rng.choice(names)
                k = rng.randrange(len(n))
                name = n[:k] + rng.choice('abcx'.replace(n[k], '') or 'y') + n[k + 1:]
            if name is not None:
                names.append(name)
            tbl.append((rng.choice([97, 98, 99, 120, 300, 301, 0, 200]), name, rng.randrange(4)))
        vec = []
        for _ in range(rng.randrange(20, 41)):
            r = rng.random()
            value = word(20, 60, ALPHA + 'abcx') if rng.random() < 0.8 else word(20, 60, 'ab') + '\xc8\xff'
            if r < 0.35 and names:
                n = rng.choice(names)
                n = n if rng.random() < 0.8 else (n[:-1] if rng.random() < 0.5 else n + 'x')      # exact, a prefix, one longer
                vec.append('--' + n + rng.choice(['', '', '=' + value, '=']))
            elif r < 0.55:
                vec.append('-' + word(1, 30, 'abcx') + rng.choice(['', value]))
            elif r < 0.6:
                vec.append(rng.choice(['--', '-', '']))
            else:
                vec.append(value)
        return parse_case(tbl, vec)

    def launch_cases(self, rng, thorough):
        cases = []
        sizes = [0, 1, 4095, 4096, 4097, 65535, 65536, 65537] + ([1048576, 1048577] if thorough else [])
        env_sets = [[], [('K', 'v')], [('A', '1'), ('B', ''), ('PATH', '/x:/y'), ('Z=Z', 'q=r')],
                    [('b', '2'), ('PATH', '/x'), ('B', '1'), ('A', '0')]]      # the last one is not given in key order
        argsets = [['zero'], ['zero', 'a b', '', '"q"', '-x', '--y=z'], [], ['zero', 'x' * 300]]

        def one(api, form, streams, code, mode, size, seed, first, strs=(), env=(), profile=None):
            ops = ['s ' + hx(s) for s in strs] + ['env %s %s' % (hx(k), hx(v)) for k, v in env]
            ops.append('launch %s %s %d %d %d %d %d %s%s' % (api, form, streams, code, mode, size, seed, hx(first),
                                                             ' ' + profile if profile else ''))
            return ops
        # all 8 redirection combinations x forms, small payload
        for streams in range(8):
            for form in ('cmd', 'argv', 'argv0', 'list'):
                env = rng.choice(env_sets)
                strs = rng.choice([a for a in argsets if a or form != 'argv0']) if form != 'cmd' else ()
                first = CHILD if form != 'cmd' else CHILD + rng.choice(['', ' a', ' "a b" c', ' a\\"b "c\\"d" ""', ' "" x'])
                mode = rng.choice([0, 1, 2, 3])
                size = rng.choice([0, 1, 100, 5000]) if mode else 0
                cases.append(one('open', form, streams, rng.randrange(256), mode, size, rng.randrange(1 << 30), first, strs, env))
        # start(): nothing redirected
        for form in ('cmd', 'argv', 'argv0'):
            for env in env_sets:
                strs = rng.choice([a for a in argsets if a or form != 'argv0']) if form != 'cmd' else ()
                first = CHILD if form != 'cmd' else CHILD + ' p "q r"'
                cases.append(one('start', form, 0, rng.randrange(256), 1, 300, rng.randrange(1 << 30), first, strs, env))
        # the List overload with an environment (forwarding)
        for env in env_sets:
            cases.append(one('open', 'list', 1, 7, 0, 0, 1, CHILD, ['zero', 'k'], env))
        # payload sizes around the pipe capacity, through stdin and back through stdout / stderr / both
        for size in sizes:
            for mode, streams in ((1, 5), (2, 6), (3, 7), (1, 4), (1, 1), (3, 3)):
                if size >= 1048576 and mode == 3 and streams != 7:
                    continue
                cases.append(one('open', 'argv', streams, rng.randrange(256), mode, size, rng.randrange(1 << 30), CHILD, ['zero', 'p']))
        # launch profiles: a second open()/start() on a running Process; descriptor 0 of the parent closed;
        # an executable that does not exist (with and without PATH lookup)
        for api, form, streams in (('open', 'argv', 1), ('open', 'cmd', 7), ('open', 'list', 4), ('start', 'argv', 0), ('start', 'cmd', 0)):
            strs = ['zero', 'p'] if form != 'cmd' else ()
            cases.append(one(api, form, streams, rng.randrange(256), 1 if streams & 4 else 0, 200 if streams & 4 else 0,
                             rng.randrange(1 << 30), CHILD + (' p' if form == 'cmd' else ''), strs, rng.choice(env_sets), 'again'))
        for streams in range(8):
            for form in (('argv', 'cmd', 'list', 'argv0') if thorough else ('argv', 'cmd')):
                strs = ['zero', 'p'] if form != 'cmd' else ()
                mode = rng.choice([1, 2, 3]) if streams & 4 else 0
                size = rng.choice([1, 300, 70000]) if mode else 0
                cases.append(one('open', form, streams, rng.randrange(256), mode, size, rng.randrange(1 << 30),
                                 CHILD + (' p' if form == 'cmd' else ''), strs, rng.choice(env_sets), 'fd0'))
        for streams in range(8):
            for exe in ('./no-such-helper', 'no-such-helper-on-the-path'):
                form = rng.choice(['argv', 'cmd', 'list'])
                strs = ['zero', 'p'] if form != 'cmd' else ()
                cases.append(one('open', form, streams, 0, 0, 0, 1, exe + (' p' if form == 'cmd' else ''), strs, rng.choice(env_sets[:3]), 'noexec'))
        for exe in ('./no-such-helper', 'no-such-helper-on-the-path'):
            cases.append(one('start', 'argv', 0, 0, 0, 0, 1, exe, ['zero'], [], 'noexec'))
            cases.append(one('start', 'cmd', 0, 0, 0, 0, 1, exe + ' a b', (), [], 'noexec'))
        cases += self.launch_tie_cases(rng, thorough, one)
        # silence of the child during read(buffer, length, streams): virtual (the recorder answers select/poll with time-outs
        # for 5 s of virtual time, no waiting) in both tiers, one real pause of 1.2 s in the thorough tier
        for streams, mode in ((1, 1), (2, 2), (3, 3), (7, 3), (5, 1), (6, 2), (3, 0), (7, 1)):
            for form, size in (('argv', 300), ('cmd', 70000), ('list', 0)):
                strs = ['zero', 'p'] if form != 'cmd' else ()
                cases.append(one('open', form, streams, rng.randrange(256), mode if size else 0, size, rng.randrange(1 << 30),
                                 CHILD + (' p' if form == 'cmd' else ''), strs, rng.choice(env_sets), 'vpause'))
        # a silence longer than any time-out a reader could sensibly use (2000 s of virtual time)
        for streams, mode, form in ((3, 3, 'argv'), (1, 1, 'cmd'), (2, 2, 'list')):
            strs = ['zero', 'p'] if form != 'cmd' else ()
            cases.append(one('open', form, streams, rng.randrange(256), mode, 300, rng.randrange(1 << 30),
                             CHILD + (' p' if form == 'cmd' else ''), strs, [], 'vpause:2000000'))
        if thorough:
            cases.append(one('open', 'argv', 3, 41, 3, 300, 12, CHILD, ['zero', 'p'], [], 'pause'))
        # more than FD_SETSIZE descriptors open in the parent (when the hard limit of this machine allows it)
        if self.many_fds_possible():
            for streams, mode in ((1, 1), (2, 2), (3, 3), (7, 3)):
                for form in ('argv', 'cmd', 'list'):
                    strs = ['zero', 'p'] if form != 'cmd' else ()
                    cases.append(one('open', form, streams, rng.randrange(256), mode, 300, 2 * rng.randrange(1 << 29),
                                     CHILD + (' p' if form == 'cmd' else ''), strs, rng.choice(env_sets), 'manyfds'))
        # exit codes
        codes = range(256) if thorough else sorted(set([0, 1, 2, 127, 128, 254, 255] + [rng.randrange(256) for _ in range(12)]))
        for code in codes:
            cases.append(one('open', 'argv', 1, code, 0, 0, code, CHILD, ['zero']))
        return cases


    @staticmethod
    def many_fds_possible():
        try:
            import resource
            soft, hard = resource.getrlimit(resource.RLIMIT_NOFILE)
            return hard == resource.RLIM_INFINITY or hard >= 2048
        except Exception:
            return False

    # ---- round 5: the launch tie samples every copy of the argv / environment preparation -------
    # Process.cpp carries the code five times: start(cmd) and open(cmd) each copy the split words into an argv array,
    # start(exe, argc, argv) and open(exe, argc, argv, ..) each prepare args/env, open(exe, List, ..) builds an array and
    # forwards.  Every entry point gets: 0 / 1 / 2 / 16 / 17 / 40 arguments, environments of 0 / 1 / 16 / 17 / 40 entries,
    # an empty argument at the first / middle / last position and everywhere, words that need quoting, and (command-line
    # forms) first words that only the quoting rules can spell - so "first word" and "text up to the first space" differ.
    TIE_WORDS = ['a', 'a b', '"', 'q"r', ' ', '-x', '--y=z', 'b\\', '\xc8\xff', 'w' * 70, "it's", '\\"', 'a  b', '=']
    TIE_FORMS = [('start', 'cmd'), ('start', 'argv'), ('start', 'argv0'), ('open', 'cmd'), ('open', 'argv'), ('open', 'argv0'), ('open', 'list')]
    FIRST_WORDS = [('./ac', './ac'), ('"./ac"', './ac'), ('./a"c"', './ac'), ('"./a"c', './ac'), ('"./sp dir/ac"', './sp dir/ac'),
                   ('./sp" "dir/ac', './sp dir/ac'), ('"./a\\"c"', './a"c'), ('"sp dir"/ac', 'sp dir/ac')]

    def tie_env(self, m):
        vals = ['v', '', 'a=b', ' sp ', '\xc8', 'x' * 40, '"q"']
        return [('K%02d' % i if i % 5 else 'k_%d' % i, vals[i % len(vals)]) for i in range(m)]

    def launch_tie_cases(self, rng, thorough, one):
        cases = []
        def emit(api, form, words, env, first=None, exe='./ac'):
            """words = the arguments the child must see behind argv[0]"""
            streams = rng.choice([0, 1, 1, 3, 5, 7]) if api == 'open' else 0
            code, seed = rng.randrange(256), rng.randrange(1 << 30)
            if form == 'cmd':
                fw = first if first is not None else exe
                line = fw + (' ' + self.join_words_bs(words) if words else '')
                cases.append(one(api, form, streams, code, 0, 0, seed, line, (), env))
            elif form == 'argv0':       # the vector carries its own argv[0] and its terminating null pointer
                cases.append(one(api, form, streams, code, 0, 0, seed, exe, ['own0'] + list(words), env))
            else:                       # argv / list: element 0 is the program-name slot
                cases.append(one(api, form, streams, code, 0, 0, seed, exe, ['zero'] + list(words), env))
        def words_n(n, empties=()):
            return ['' if i in empties else rng.choice(self.TIE_WORDS) for i in range(n)]
        envs_nz = [1, 16, 17, 40]
        k = 0
        for api, form in self.TIE_FORMS:
            for n in (0, 1, 2, 16, 17, 40):
                emit(api, form, words_n(n), [])
                k += 1
                emit(api, form, words_n(n), self.tie_env(envs_nz[k % 4]))
            for m in (0, 1, 16, 17, 40):
                emit(api, form, words_n(2), self.tie_env(m))
            for n in (1, 2, 3, 16, 17, 40):
                for empties in ({0}, {n - 1}, {n // 2}, set(range(n))):
                    k += 1
                    emit(api, form, words_n(n, empties), self.tie_env(envs_nz[k % 4]) if k % 2 else [])
            if form in ('argv', 'list'):         # no vector at all: argc == 0 / an empty list
                cases.append(one(api, form, 1 if api == 'open' else 0, 9, 0, 0, 3, './ac', (), []))
                cases.append(one(api, form, 1 if api == 'open' else 0, 9, 0, 0, 3, './ac', (), self.tie_env(17)))
            # program names that need quoting (command-line forms) or contain a space / a quote (the other forms)
            if form == 'cmd':
                for fw, _ in self.FIRST_WORDS:
                    for env in ([], self.tie_env(2)):
                        emit(api, form, rng.choice([[], ['a'], ['', 'x'], ['x', '']]), env, first=fw)
            else:
                for exe in ('./sp dir/ac', './a"c', 'sp dir/ac'):
                    for env in ([], self.tie_env(2)):
                        emit(api, form, rng.choice([[], ['a'], ['', 'x'], ['x', '']]), env, exe=exe)
        return cases

    # ---- round 3: quoting round trip, environment machine, Process object machine ----------------
    @staticmethod
    def join_words_bs(words):
        """ArgsSpec.join_words_bs: quote every word; the backslashes a word ends in go behind the closing quote."""
        out = []
        for w in words:
            k = len(w) - len(w.rstrip('\\'))
            body = w[:len(w) - k]
            out.append('"' + body.replace('"', '\\"') + '"' + '\\' * k)
        return ' '.join(out)

    def rt_case(self, words):
        return ['rt ' + hx(self.join_words_bs(words)) + ''.join(' ' + hx(w) for w in words)]

    ENV_NAMES = ['A', 'B', 'AB', 'a', 'PATH', 'A\x00x', 'Z=Z', '', '=', '\x00A', 'LONG_' + 'n' * 40, '\xc8']
    ENV_VALUES = ['', '1', 'v=w', 'x\x00y', '\x00', ' sp ace ', 'v' * 70, '\xff\x01']
    ENV_STARTS = [[], ['A=1'], ['B=2', 'A=1', 'junk', 'C='], ['=x', 'A=1', 'AB=3'], ['PATH=/x:/y', 'a=low', 'A=up', 'B=', 'nokey'],
                  ['\xc8=hi', 'A==', 'B=b=c']]

    def env_case(self, rng, start, nops, child):
        ops = ['@E'] + ['ev ' + hx(e) for e in start]
        good = [n for n in self.ENV_NAMES if n.split('\x00')[0] and '=' not in n.split('\x00')[0]]
        for _ in range(nops):
            r = rng.random()
            if r < 0.45:
                ops.append('eset %s %s' % (hx(rng.choice(self.ENV_NAMES)), hx(rng.choice(self.ENV_VALUES))))
            elif r < 0.85:
                ops.append('eget %s %s' % (hx(rng.choice(good)), hx(rng.choice(['', 'dflt']))))
            else:
                ops.append('evars')
        ops.append('evars')
        if child:
            ops.append('echild')
        return ops

    POBJ_INJECT = ['', '', '', ' vforkfail', ' pipefail1', ' pipefail2', ' pipefail3', ' fd0', ' fd0 dupfail', ' fd0 vforkfail']

    def pobj_moves(self, st):
        """the operations whose outcome is determined in abstract state st = (running, out, err, inn, child, outread, intr)
        child: 'exits' (ends by itself), 'paused' (alive until signalled), 'dying' (signalled)"""
        running, out, err, inn, child, outread, intr = st
        m = ['prun', 'pclose 7', 'pclose 1', 'pclose 2', 'pclose 4', 'pclose 5', 'pjoin waitfail', 'pjoin0 waitfail',
             'pkill waitfail' if (not running or child != 'exits') else None, 'pintr']
        for sfx in self.POBJ_INJECT:
            m += ['popen %d%s' % (sm, sfx) for sm in range(8)]
        m += ['pstart', 'pstart vforkfail']
        # Process::wait: a pending interrupt is answered at once; otherwise it needs a child that ends (or none at all)
        if intr or not running or child in ('exits', 'dying'):
            m.append('pwait')
        if not running:
            m += ['pjoin', 'pjoin0', 'pkill', 'pread', 'pwrite 5', 'pread2 3', 'pread2 1', 'pread2 2']
        else:
            if child in ('exits', 'dying'):
                m += ['pjoin', 'pjoin0']
            if child in ('paused', 'dying'):
                m.append('pkill')
            if child == 'paused':
                m += ['psig 15', 'psig 2', 'psig 9']
            # the child's header is there to be read unless a signal may have hit the child before it wrote it;
            # without the stream read(buffer, length) goes to descriptor 0 (noted) - determined as well
            if not out or (not outread and child != 'dying'):
                m.append('pread')
            if not inn or child == 'paused':
                m += ['pwrite 5', 'pwrite 4096']
            # `pause`: the recorder first answers select/poll with time-outs for 5 s of virtual time (no real waiting)
            for sm in (1, 2, 3):
                so, se = out and sm & 1, err and sm & 2
                if not so and not se:
                    m.append('pread2 %d' % sm)
                elif so:
                    if not outread and child != 'dying':
                        m += ['pread2 %d' % sm, 'pread2 %d pause' % sm]
                elif child in ('exits', 'dying'):
                    m += ['pread2 %d' % sm, 'pread2 %d pause' % sm]
        return [x for x in m if x]

    def pobj_admits(self, case):
        """is this @P case one the generator can emit?  (every operation determined in the state it meets, closed by pobj_finish)"""
        if not case or not case[0].startswith('@P'):
            return True
        try:
            mode = int(case[0].split()[2])
        except (IndexError, ValueError):
            return False
        st = (False, False, False, False, 'paused' if mode & 4 else 'exits', False, False)
        ops = list(case[1:])
        # the tail pobj_finish writes: pdel | pkill ; pdel | pdel waitfail
        body = ops
        for tail in (['pkill', 'pdel'], ['pdel waitfail'], ['pdel']):
            if ops[-len(tail):] == tail:
                body = ops[:-len(tail)]
                break
        else:
            return False
        for op in body:
            if op.startswith('pdel') or op not in self.pobj_moves(st):
                return False
            st = self.pobj_next(st, op, mode)
        running, child = st[0], st[4]
        if running and child == 'paused':
            return tail in (['pkill', 'pdel'], ['pdel waitfail'])
        return tail == ['pdel'] or (tail == ['pkill', 'pdel'] and 'pkill' in self.pobj_moves(st))

    def shrink(self, case, pred, budget=400):
        """ddmin, but a Process-object case is only ever reduced to a case the generator itself can emit: otherwise the
        printed replay could be one whose outcome is not determined (a join on a child nobody signalled, ..)"""
        if case and case[0].startswith('@P') and self.pobj_admits(case):
            inner = pred
            pred = lambda c: self.pobj_admits(c) and inner(c)
        return super().shrink(case, pred, budget)

    def pobj_next(self, st, op, mode):
        running, out, err, inn, child, outread, intr = st
        t = op.split()
        o = t[0]
        base = 'paused' if mode & 4 else 'exits'
        if o == 'pintr':
            return (running, out, err, inn, child, outread, True)
        if o == 'pwait':
            return (running, out, err, inn, child, outread, False)
        if o in ('popen', 'pstart') and not running:
            if any(f.startswith('pipefail') and int(f[8:]) <= bin(int(t[1]) & 7).count('1') for f in t[2:] if o == 'popen') \
               or 'vforkfail' in t or ('dupfail' in t and o == 'popen' and int(t[1]) & 7):
                return st
            sm = int(t[1]) if o == 'popen' else 0
            return (True, bool(sm & 1), bool(sm & 2), bool(sm & 4), base, False, intr)
        if not running:
            return st
        if o == 'pclose':
            sm = int(t[1])
            return (running, out and not sm & 1, err and not sm & 2, inn and not sm & 4, child, outread, intr)
        if o == 'psig':
            return (running, out, err, inn, 'dying', outread, intr)
        if o == 'pkill' and 'waitfail' in t:
            return (running, out, err, inn, 'dying', outread, intr)
        if o in ('pjoin', 'pjoin0', 'pkill') and 'waitfail' not in t:
            return (False, False, False, False, base, False, intr)
        if o == 'pread' and out:
            return (running, out, err, inn, child, True, intr)
        if o == 'pread2' and out and int(t[1]) & 1:
            return (running, out, err, inn, child, True, intr)
        return st

    def pobj_finish(self, ops, st):
        running, out, err, inn, child, outread, intr = st
        if running and child == 'paused':
            ops.append('pdel waitfail' if len(ops) % 2 else 'pkill')
            if ops[-1] == 'pkill':
                ops.append('pdel')
        else:
            ops.append('pdel')
        return ops

    def pobj_rand_case(self, rng, n):
        mode = rng.choice([0, 4, 4])
        st = (False, False, False, False, 'paused' if mode else 'exits', False, False)
        ops = ['@P %d %d' % (rng.randrange(256), mode)]
        for _ in range(n):
            mv = self.pobj_moves(st)
            # mostly: get a process running first
            if not st[0] and rng.random() < 0.6:
                mv = [x for x in mv if x.startswith('popen') or x.startswith('pstart')]
            op = rng.choice(mv)
            ops.append(op)
            st = self.pobj_next(st, op, mode)
        return self.pobj_finish(ops, st)

    def pobj_exhaustive(self, depth, mode, code):
        """every sequence of determined operations up to the given depth after one open (all 8 stream sets, injections on the first)"""
        out = []
        st0 = (False, False, False, False, 'paused' if mode else 'exits', False, False)
        def rec(ops, st, d, first):
            out.append(self.pobj_finish(list(ops), st))
            if d == 0:
                return
            for mv in self.pobj_moves(st):
                if mv.startswith('popen') and (len(mv.split()) > 2 and st[0]):
                    continue            # injections on a refused open change nothing
                if mv.startswith('popen') and not first and mv not in ('popen 7', 'popen 0', 'popen 2 vforkfail', 'popen 5 fd0'):
                    continue            # all stream sets and injections on the first move only
                rec(ops + [mv], self.pobj_next(st, mv, mode), d - 1, False)
        rec(['@P %d %d' % (code, mode)], st0, depth, True)
        return out

    def streams(self, tier, rng):
        thorough = tier == 'thorough'
        out = []
        one = strings_upto(ALPHA, 5 if thorough else 4)
        out.append(Stream('args_1', [parse_case(FIXED_TABLE, [s]) for s in one], exhaustive=True,
                          note='every single argument up to length %d over {- a b c = x}' % (5 if thorough else 4)))
        two = strings_upto(ALPHA, 3 if thorough else 2)
        out.append(Stream('args_2', [parse_case(FIXED_TABLE, [s, t]) for s in two for t in two], exhaustive=True,
                          note='every pair of arguments up to length %d' % (3 if thorough else 2)))
        if thorough:
            three = strings_upto(ALPHA, 2)
            out.append(Stream('args_3', [parse_case(FIXED_TABLE, [s, t, u]) for s in three for t in three for u in three],
                              exhaustive=True, note='every triple of arguments up to length 2'))
        toks = TOKENS if thorough else TOKENS[:20]
        out.append(Stream('args_tok3', [parse_case(FIXED_TABLE2, [s, t, u]) for s in toks for t in toks for u in toks],
                          exhaustive=True, note='every triple over the token set, second table (multi-letter names, long-only, name-less)'))
        cases = []
        for _ in range(6000 if thorough else 1200):
            cases.append(parse_case(self.rand_table(rng), self.rand_vec(rng, rng.randrange(0, 7))))
        out.append(Stream('args_rand', cases, note='random tables (duplicate/negative/zero characters, empty and missing names, all flag combinations)'))
        out.append(Stream('args_long', [self.long_case(rng) for _ in range(1500 if thorough else 250)],
                          note='long strings: option names of 1..40 characters, values of 20..60, vectors of 20..40 strings, tables of up to 16 rows'))
        out.append(Stream('args_argc0', [table_ops(t) + ['s ' + hx(x) for x in v] + ['parse0'] for t in (FIXED_TABLE, FIXED_TABLE2)
                                         for v in ([], ['-a'], ['--', 'x'])],
                          note='Arguments constructed with argc == 0: read() is false at once and stays false'))
        # command lines
        n = 8 if thorough else 6
        out.append(Stream('split_ex', [['split ' + hx(s)] for s in strings_upto(CMD_ALPHA, n)], exhaustive=True,
                          note=self.seam_note('every command line up to length %d over {a SP " \\}' % n)))
        cases = []
        for _ in range(3000 if thorough else 600):
            k = rng.randrange(0, 40)
            cases.append(['split ' + hx(''.join(rng.choice('ab "\\\\"  \t\'=-') for _ in range(k)))])
        out.append(Stream('split_rand', cases, note=self.seam_note('')))
        out.append(Stream('launch', self.launch_cases(rng, thorough),
                          note='8 redirection combinations x forms; payloads around the pipe capacity; exit codes'))
        # round trip through the quoting function for all words (trailing backslashes included)
        wal = 'a "\\'
        ws1 = strings_upto(wal, 5 if thorough else 4)
        ws2 = strings_upto(wal, 2)
        out.append(Stream('split_rt', [self.rt_case([w]) for w in ws1] + [self.rt_case([u, v]) for u in ws2 for v in ws2] +
                          [self.rt_case([rng.choice(ws1) for _ in range(rng.randrange(0, 6))]) for _ in range(1500 if thorough else 300)],
                          note=self.seam_note('split(join(words)) = words for every word list: single words up to length %d and pairs up to length 2 over '
                                              '{a SP " \\} exhaustively, longer lists at random' % (5 if thorough else 4))))
        # environment machine
        cases = []
        for start in self.ENV_STARTS:
            for name in self.ENV_NAMES:
                for value in self.ENV_VALUES[:6]:
                    g = [n for n in ('A', 'B', name) if n.split('\x00')[0] and '=' not in n.split('\x00')[0]]
                    cases.append(['@E'] + ['ev ' + hx(e) for e in start] + ['eset %s %s' % (hx(name), hx(value))] +
                                 ['eget %s %s' % (hx(n), hx('d')) for n in g] + ['evars'])
        out.append(Stream('env_ex', cases, exhaustive=True,
                          note='every (initial environment, name, value) of the pools: one set, then get of the name and two others, then enumeration'))
        out.append(Stream('env_rand', [self.env_case(rng, rng.choice(self.ENV_STARTS), rng.randrange(1, 8), i % 3 == 0)
                                       for i in range(900 if thorough else 240)],
                          note='random set/get/enumerate sequences; every third case ends by starting a child with an empty environment map'))
        # Process object machine
        cases = []
        for mode in (4, 0):
            cases += self.pobj_exhaustive(2 if thorough else 1, mode, 5 + mode)
        first = [c for c in cases]
        deeper = []
        for sm, dp in (((7, 3), (1, 2), (0, 2), (6, 2)) if thorough else ((7, 2), (1, 2))):
            for mode in (4, 0):
                st = (True, bool(sm & 1), bool(sm & 2), bool(sm & 4), 'paused' if mode else 'exits', False, False)
                sub = []
                def rec(ops, st, d):
                    sub.append(self.pobj_finish(list(ops), st))
                    if d == 0:
                        return
                    for mv in self.pobj_moves(st):
                        if mv.startswith('popen') and len(mv.split()) > 2:
                            continue
                        if mv.startswith('popen') and mv != 'popen 7':
                            continue
                        rec(ops + [mv], self.pobj_next(st, mv, mode), d - 1)
                rec(['@P %d %d' % (40 + sm, mode), 'popen %d' % sm], st, dp)
                deeper += sub
        out.append(Stream('pobj_ex', first + deeper, exhaustive=True,
                          note='every sequence of operations with a determined outcome: depth %d from a new object (all stream sets and injected '
                               'failures), depth %s after a successful open; both child scripts (ends by itself / stays until signalled)' %
                               ((2, '3 (all three streams) / 2') if thorough else (1, 2))))
        out.append(Stream('pobj_rand', [self.pobj_rand_case(rng, rng.randrange(1, 9)) for _ in range(2500 if thorough else 500)],
                          note='random operation sequences on one Process object, kernel failures injected (pipe, F_DUPFD, vfork, waitpid)'))
        return out

    # ---- glibc getopt_long as an additional search oracle for the reference -----------------------
    def extra_checks(self, tier, rng, ctx):
        def abbreviates(tbl, vec):
            for s in vec:
                if s.startswith('--') and len(s) > 2:
                    name = s[2:].split('=')[0]
                    for (_, n, _) in tbl:
                        if n is not None and n != name and n.startswith(name):
                            return True
            return False
        vecs = []
        toks = TOKENS
        for _ in range(3000 if tier == 'thorough' else 800):
            tbl = rng.choice([FIXED_TABLE, FIXED_TABLE2[:4]])
            vec = [rng.choice(toks) if rng.random() < 0.7 else ''.join(rng.choice(ALPHA) for _ in range(rng.randrange(0, 5)))
                   for _ in range(rng.randrange(0, 5))]
            if not abbreviates(tbl, vec):
                vecs.append((tbl, vec))
        for s in strings_upto(ALPHA, 4 if tier == 'thorough' else 3):
            for extra in ([], ['x']):
                if not abbreviates(FIXED_TABLE, [s] + extra):
                    vecs.append((FIXED_TABLE, [s] + extra))
        gcases = [table_ops(t) + ['s ' + hx(s) for s in v] + ['getopt'] for t, v in vecs]
        pcases = [parse_case(t, v) for t, v in vecs]
        g, _ = self.run_impl(gcases, tag='impl_glibc')
        ref = self.run_spec(pcases, tag='spec_glibc')
        bad = 0
        for (t, v), go, ro, pc in zip(vecs, g, ref, pcases):
            ro = [l for l in ro if not l.startswith('again')]
            ok = len(go) == len(ro) and all(line_matches(a, b) for a, b in zip(go, ro))
            if not ok:
                bad += 1
                if bad == 1:
                    p = self.write_replay('no-failing-input-found', 'reference parser (ArgsSpec.getopt_ref) disagrees with glibc getopt_long',
                                          pc, {'glibc': go, 'reference': ro})
                    ctx['violations'].append((p, ' no-failing-input-found'))
        log('[C20] glibc cross-check: %d vectors, %d disagreements' % (len(vecs), bad))


CHECK = C20
