import os, sys, itertools, re, json
from vf import Check, Stream, first_diff, build_harness, build_libnstd, sh, VERIF, BUILD, REPO, log

NV = 6
FLAVS = ('str', 'var', 'ptr')


def applicable(f):
    ops = ['create', 'null', 'copy', 'assign', 'reset', 'destroy']
    if f == 'ptr':
        ops += ['swap', 'fromraw']
    else:
        ops += ['write', 'detach']
    return ops


def gen_history(rng, f, n, nv=NV, valid=0.93):
    """mostly valid history: tracks which variables are constructed; 1-valid of the ops ignore it"""
    live = [False] * nv
    ops = []
    kinds = applicable(f)
    w = {'create': 2, 'null': 1, 'copy': 5, 'assign': 5, 'reset': 2, 'destroy': 3, 'swap': 3, 'fromraw': 2, 'write': 4, 'detach': 2}
    for _ in range(n):
        k = rng.choices(kinds, [w[x] for x in kinds])[0]
        lv = [i for i in range(nv) if live[i]]
        dv = [i for i in range(nv) if not live[i]]
        if rng.random() > valid:
            a, b = rng.randrange(nv), rng.randrange(nv)
        else:
            if k in ('create', 'null'):
                if not dv:
                    k = 'destroy'
                    a = b = rng.choice(lv)
                else:
                    a = b = rng.choice(dv)
            elif k in ('copy', 'fromraw'):
                if not dv or not lv:
                    continue
                a, b = rng.choice(dv), rng.choice(lv)
            elif k in ('assign', 'swap'):
                if not lv:
                    continue
                a, b = rng.choice(lv), rng.choice(lv)
            else:
                if not lv:
                    continue
                a = b = rng.choice(lv)
        if k == 'create':
            ops.append('create %d %d' % (a, rng.choice([0, 1, 2, 3, 4, 6, 7, 8])))
            if 0 <= a < nv:
                live[a] = True
        elif k == 'null':
            ops.append('null %d' % a)
            live[a] = True
        elif k in ('copy', 'fromraw'):
            ops.append('%s %d %d' % (k, a, b))
            if not live[a] and live[b]:
                live[a] = True
        elif k in ('assign', 'swap'):
            ops.append('%s %d %d' % (k, a, b))
        elif k == 'destroy':
            ops.append('destroy %d' % a)
            live[a] = False
        else:
            ops.append('%s %d' % (k, a))
    return ['@' + f] + ops


def small_alphabet(f, nv):
    al = []
    for v in range(nv):
        al += ['create %d 3' % v, 'null %d' % v, 'reset %d' % v, 'destroy %d' % v]
        if f != 'ptr':
            al += ['write %d' % v, 'detach %d' % v]
    for a in range(nv):
        for b in range(nv):
            al.append('assign %d %d' % (a, b))
            if a != b:
                al.append('copy %d %d' % (a, b))
                if f == 'ptr':
                    al.append('fromraw %d %d' % (a, b))
            if f == 'ptr' and a < b:
                al.append('swap %d %d' % (a, b))
    return al


class C09(Check):
    id = 'C09'
    comp = 'Rc'
    extracted = ['coq/Rc/model.mli', 'coq/Rc/model.ml', 'ocaml/zconv.ml', 'ocaml/rc_driver.ml']
    harness_sources = ['harness/rc.cpp']
    per_case_timeout = 10
    level_text = ''
    level_note = ''
    technique = 'machine-checked proof (Coq 8.16) about an executable model + differential correspondence (ASan/UBSan) + TSan stress as search'
    rule = ('cases = handle histories (create/null/copy/fromraw/assign/reset/swap/write/detach/destroy) on 6 variables of one '
            'handle type (String, Variant holding a list, RefCount::Ptr<T>); a case is non-trivial when some payload was shared by '
            'two live variables (a reference counter of 2 or more was observed) and at least one payload was released; distinct = distinct op text')
    assumptions = []

    # ---- oracle -------------------------------------------------------------------------------
    def judge(self, cases, impl_obs, spec_obs):
        fails = Check.judge(self, cases, impl_obs, spec_obs)
        bad = {i for (i, _, _) in fails}
        for i, obs in enumerate(impl_obs):
            if i in bad:
                continue
            for k, line in enumerate(obs):
                if line.startswith('!') or line.startswith('?'):
                    continue
                sec = line.split(' | ')
                m = re.match(r'live=(-?\d+) dtors=(-?\d+)', sec[1]) if len(sec) > 1 else None
                if not m:
                    continue
                livecnt = int(m.group(1))
                if sec[0] == 'end':
                    if livecnt != 0:
                        fails.append((i, k, 'payload blocks still live after every handle was destroyed: live=%d' % livecnt))
                        break
                    continue
                if len(sec) < 3:
                    continue
                classes = {c for c in sec[2].split(' ') if c != '.'}
                if livecnt != len(classes):
                    fails.append((i, k, 'live payload blocks (%d) differ from the number of distinct payloads the live handles refer to (%d): `%s`'
                                  % (livecnt, len(classes), line)))
                    break
        return fails

    def nontrivial(self, case, obs):
        shared = False
        released = False
        for line in obs:
            sec = line.split(' | ')
            if len(sec) >= 4 and re.search(r'\b([2-9]|\d\d+)[=#]', sec[3]):
                shared = True
            m = re.search(r'dtors=(\d+)', line)
            if m and int(m.group(1)) > 0:
                released = True
        return shared and released

    # ---- generators ---------------------------------------------------------------------------
    def streams(self, tier, rng):
        thorough = tier == 'thorough'
        out = []
        for f in FLAVS:
            cases = [gen_history(rng, f, rng.randrange(4, 45)) for _ in range(2500 if thorough else 500)]
            out.append(Stream('hist_' + f, cases, note='mostly valid random histories, 6 variables'))
        cases = [gen_history(rng, rng.choice(FLAVS), rng.randrange(4, 30), valid=0.5) for _ in range(1500 if thorough else 300)]
        out.append(Stream('malformed', cases, note='half of the ops ignore which variables are constructed (both sides skip them)'))
        # boundary: few variables so that counts go up and down through 1 and 2 all the time
        cases = []
        for f in FLAVS:
            for _ in range(1500 if thorough else 300):
                cases.append(gen_history(rng, f, rng.randrange(6, 30), nv=rng.choice([2, 3]), valid=0.97))
        cases += self.targeted()
        out.append(Stream('boundary', cases, note='2-3 variables; targeted: self assignment, assignment of null, capacity boundary, swap then destroy'))
        # exhaustive small scope
        depth = 4 if thorough else 3
        for f in FLAVS:
            al = small_alphabet(f, 2)
            cases = []
            for tup in itertools.product(al, repeat=depth):
                cases.append(['@' + f, 'create 0 3'] + list(tup))
            out.append(Stream('exh_' + f, cases, exhaustive=False,
                              note='every sequence of %d ops over 2 variables after `create 0 3` (%d-letter alphabet)' % (depth, len(al))))
        return out

    def targeted(self):
        t = []
        for f in FLAVS:
            t.append(['@' + f, 'create 0 3', 'assign 0 0', 'copy 1 0', 'assign 1 1', 'assign 0 1', 'destroy 0', 'destroy 1'])
            t.append(['@' + f, 'create 0 3', 'null 1', 'assign 0 1', 'assign 1 0', 'destroy 1', 'destroy 0'])
            t.append(['@' + f, 'create 0 2', 'copy 1 0', 'copy 2 0', 'reset 0', 'reset 1', 'reset 2', 'reset 2'])
        for n in (0, 1, 2, 3, 4, 7, 8):
            t.append(['@str', 'create 0 %d' % n, 'write 0', 'write 0', 'copy 1 0', 'write 1', 'write 0', 'detach 1', 'write 0', 'write 0', 'write 0', 'write 0'])
            t.append(['@var', 'create 0 %d' % n, 'write 0', 'copy 1 0', 'detach 1', 'write 0', 'copy 2 1', 'write 2', 'write 1'])
        t.append(['@str', 'null 0', 'write 0', 'null 1', 'detach 1', 'copy 2 1', 'reset 1', 'reset 2', 'assign 0 1'])
        t.append(['@var', 'null 0', 'write 0', 'null 1', 'detach 1', 'copy 2 1', 'reset 1', 'assign 0 1'])
        t.append(['@ptr', 'create 0 1', 'create 1 2', 'swap 0 1', 'destroy 0', 'copy 2 1', 'destroy 1', 'destroy 2'])
        t.append(['@ptr', 'create 0 1', 'fromraw 1 0', 'fromraw 2 1', 'destroy 0', 'destroy 1', 'copy 3 2', 'reset 2'])
        t.append(['@ptr', 'create 0 1', 'null 1', 'swap 0 1', 'fromraw 2 1', 'destroy 1', 'destroy 0'])
        return t


CHECK = C09
