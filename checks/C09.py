import os, sys, itertools, re, json
from vf import Check, Stream, TieBroken, first_diff, build_harness, build_libnstd, run_exe_on_cases, sh, VERIF, BUILD, REPO, log

NV = 6
FLAVS = ('str', 'var', 'ptr', 'xml')
SEQ_FLAVS = FLAVS + ('strx',)            # strx: String with uncounted data (attach, literals) and the modifiers built from other calls; no Model
KINDS = {'str': ['-'], 'var': ['list', 'map', 'array', 'string'], 'ptr': ['plain', 'conv'], 'xml': ['element', 'text'], 'strx': ['-']}
# every mutating entry point of String (String.hpp: the non-const members) besides append(char) / detach / resize / reserve / clear / operator=
STR_MODS = ['tolower', 'toupper', 'replace', 'charptr', 'appends', 'pluseq', 'pluseqc', 'appendp', 'appendself', 'prepends', 'prependp', 'trim']
STRX_MODS = ['attach', 'assignlit', 'printf', 'printfself', 'join', 'replacess', 'constptr']
TWO_VAR = ('assign', 'swap', 'assignraw', 'viaelem', 'appends', 'pluseq', 'prepends', 'vswap')
CONC_KINDS = {'str': ['-'], 'var': ['list', 'map', 'array', 'string'], 'ptr': ['plain'], 'xml': ['element']}


def digits(rng, n):
    """contents: n markers 1..7 ('-' = empty)"""
    return ''.join(str(rng.randrange(1, 8)) for _ in range(n)) or '-'


def applicable(f, kind='-'):
    ops = ['create', 'null', 'copy', 'assign', 'reset', 'destroy']
    if f == 'ptr':
        ops += ['swap', 'fromraw', 'assignraw']
    elif f == 'xml' and kind == 'text':
        ops += ['assignval']
    else:
        ops += ['write', 'detach']
        if f in ('str', 'strx'):
            ops += ['resize', 'reserve'] + STR_MODS
        if f == 'strx':
            ops += STRX_MODS + ['lit']
        if f == 'var':
            ops += ['assignval', 'assignscalar', 'nullk', 'vswap']
        if not (f == 'var' and kind == 'string') and f not in ('str', 'strx'):
            ops += ['viaelem']
    if f in ('var', 'xml'):
        ops += ['retype']
    return ops


def mod_op(rng, k, a, b, c):
    """text of one of the modifier / Variant ops on variable a (second handle b, third c)"""
    if k in ('tolower', 'toupper', 'constptr'):
        return '%s %d' % (k, a)
    if k in ('replace', 'charptr'):
        return '%s %d %d %d' % (k, a, rng.randrange(1, 8), rng.randrange(1, 8))
    if k in ('appends', 'pluseq', 'prepends', 'vswap'):
        return '%s %d %d' % (k, a, b)
    if k == 'pluseqc':
        return 'pluseqc %d %d' % (a, rng.randrange(1, 8))
    if k in ('appendp', 'prependp', 'attach', 'printf', 'printfself'):
        return '%s %d %s' % (k, a, digits(rng, rng.choice([0, 1, 2, 3, 5, 8])))
    if k == 'appendself':
        return 'appendself %d %d %d' % (a, rng.choice([0, 0, 1, 2, 3, 5]), rng.choice([0, 1, 2, 3, 4, 8]))
    if k == 'trim':
        return 'trim %d %s' % (a, rng.choice(['7', '7', '7', '1', '4', '17', '147', '2']))
    if k in ('assignlit', 'lit'):
        return '%s %d %d' % (k, a, rng.randrange(3))
    if k == 'join':
        return 'join %d %d %d %d' % (a, b, c, rng.randrange(1, 8))
    if k == 'replacess':
        return 'replacess %d %s %s' % (a, digits(rng, rng.choice([1, 1, 2])), digits(rng, rng.choice([0, 1, 2, 3])))
    if k in ('assignscalar', 'nullk'):
        return '%s %d %d' % (k, a, rng.randrange(6))
    if k == 'retype':
        return 'retype %d %s' % (a, digits(rng, rng.choice([0, 1, 2, 3])))
    raise ValueError(k)


def gen_history(rng, f, n, nv=NV, valid=0.93, kind=None):
    """mostly valid history: tracks which variables are constructed; 1-valid of the ops ignore it"""
    kind = kind or rng.choice(KINDS[f])
    live = [False] * nv
    ops = []
    kinds = applicable(f, kind)
    w = {'create': 2, 'null': 1, 'copy': 5, 'assign': 5, 'reset': 2, 'destroy': 3, 'swap': 3, 'fromraw': 2, 'write': 4, 'detach': 2,
         'assignraw': 3, 'assignval': 3, 'viaelem': 3, 'resize': 3, 'reserve': 2, 'assignscalar': 2, 'nullk': 1, 'vswap': 3, 'retype': 3, 'lit': 1}
    for k_ in STR_MODS + STRX_MODS:
        w[k_] = 1
    if f == 'strx':
        w['copy'] = w['assign'] = 8
    for _ in range(n):
        k = rng.choices(kinds, [w[x] for x in kinds])[0]
        lv = [i for i in range(nv) if live[i]]
        dv = [i for i in range(nv) if not live[i]]
        if rng.random() > valid:
            a, b = rng.randrange(nv), rng.randrange(nv)
        else:
            if k in ('create', 'null', 'lit', 'nullk'):
                if not dv:
                    k = 'destroy'
                    a = b = rng.choice(lv)
                else:
                    a = b = rng.choice(dv)
            elif k in ('copy', 'fromraw'):
                if not dv or not lv:
                    continue
                a, b = rng.choice(dv), rng.choice(lv)
            elif k in TWO_VAR or k == 'join':
                if not lv:
                    continue
                a, b = rng.choice(lv), rng.choice(lv)
            else:
                if not lv:
                    continue
                a = b = rng.choice(lv)
        if k == 'create':
            if f == 'ptr':
                ops.append('create %d %d' % (a, rng.randrange(0, 100)))
            else:
                ops.append('create %d %s' % (a, digits(rng, rng.choice([0, 1, 2, 3, 4, 6, 7, 8]))))
            if 0 <= a < nv:
                live[a] = True
        elif k == 'null':
            ops.append('null %d' % a)
            live[a] = True
        elif k in ('lit', 'nullk'):
            ops.append(mod_op(rng, k, a, b, b))
            if 0 <= a < nv:
                live[a] = True
        elif k in STR_MODS + STRX_MODS + ['assignscalar', 'vswap', 'retype']:
            ops.append(mod_op(rng, k, a, b, rng.choice([i for i in range(nv) if live[i]] or [a])))
        elif k in ('copy', 'fromraw'):
            ops.append('%s %d %d' % (k, a, b))
            if not live[a] and live[b]:
                live[a] = True
        elif k in ('assign', 'swap', 'assignraw', 'viaelem'):
            ops.append('%s %d %d' % (k, a, b))
        elif k == 'destroy':
            ops.append('destroy %d' % a)
            live[a] = False
        elif k == 'write':
            ops.append('write %d %d' % (a, rng.randrange(1, 8)))
        elif k == 'assignval':
            ops.append('assignval %d %s' % (a, digits(rng, rng.choice([0, 1, 2, 3, 5]))))
        elif k == 'resize':
            ops.append('resize %d %d' % (a, rng.choice([0, 0, 0, 1, 2, 3, 5, 9])))
        elif k == 'reserve':
            ops.append('reserve %d %d' % (a, rng.choice([0, 0, 1, 3, 4, 7, 8, 20])))
        else:
            ops.append('%s %d' % (k, a))
    return ['@%s %s' % (f, kind)] + ops


def small_alphabet(f, nv, kind='-'):
    al = []
    for v in range(nv):
        al += ['create %d 123' % v, 'null %d' % v, 'reset %d' % v, 'destroy %d' % v]
        if 'write' in applicable(f, kind):
            al += ['write %d %d' % (v, 4 + v), 'detach %d' % v]
        if 'assignval' in applicable(f, kind):
            al += ['assignval %d 7%d' % (v, 1 + v)]
        if 'resize' in applicable(f, kind):
            al += ['resize %d 0' % v, 'resize %d 2' % v, 'reserve %d 0' % v, 'reserve %d 9' % v]
    for a in range(nv):
        for b in range(nv):
            al.append('assign %d %d' % (a, b))
            if f == 'ptr':
                al.append('assignraw %d %d' % (a, b))
            if 'viaelem' in applicable(f, kind):
                al.append('viaelem %d %d' % (a, b))
            if a != b:
                al.append('copy %d %d' % (a, b))
                if f == 'ptr':
                    al.append('fromraw %d %d' % (a, b))
            if f == 'ptr' and a < b:
                al.append('swap %d %d' % (a, b))
    return al


# ---- every mutating entry point on a payload that another handle shares ------------------------------
def mut_letters(f, kind='-'):
    """one-variable letters (format with the variable), two-variable letters (format with both)"""
    one, two = [], []
    if f in ('str', 'strx'):
        one = ['write %d 5', 'detach %d', 'resize %d 2', 'reserve %d 9', 'reset %d', 'tolower %d', 'toupper %d', 'replace %d 4 1', 'replace %d 1 7', 'charptr %d 5 2',
               'pluseqc %d 3', 'appendp %d 26', 'appendp %d -', 'appendself %d 1 2', 'appendself %d 0 9', 'prependp %d 71', 'prependp %d -', 'trim %d 7', 'trim %d 14']
        two = ['assign %d %d', 'appends %d %d', 'pluseq %d %d', 'prepends %d %d']
        if f == 'strx':
            one += ['attach %d 45', 'attach %d -', 'assignlit %d 2', 'assignlit %d 0', 'printf %d 62', 'printfself %d 3', 'replacess %d 14 6', 'replacess %d 5 -', 'constptr %d']
            two += ['join %d %d %%d 7']
    elif f == 'var':
        one = ['write %d 5', 'detach %d', 'reset %d', 'assignval %d 71', 'retype %d 3', 'retype %d -'] + ['assignscalar %%d %d' % k for k in range(6)]
        two = ['assign %d %d', 'vswap %d %d'] + (['viaelem %d %d'] if kind != 'string' else [])
    elif f == 'xml':
        one = ['reset %d', 'retype %d 3', 'retype %d -'] + (['write %d 5', 'detach %d'] if kind == 'element' else ['assignval %d 71'])
        two = ['assign %d %d'] + (['viaelem %d %d'] if kind == 'element' else [])
    return one, two


def fmt2(l, a, b):
    """two-variable letter; join takes a third handle: both other variables"""
    t = l % (a, b)
    return t % (1 - a if a in (0, 1) else 0) if '%d' in t else t


def mut_alphabet(f, kind, nv=2):
    one, two = mut_letters(f, kind)
    al = []
    for v in range(nv):
        al += [l % v for l in one] + ['destroy %d' % v]
    for a in range(nv):
        for b in range(nv):
            al += [fmt2(l, a, b) for l in two]
    al += ['copy 2 0', 'copy 2 1']
    return al


def shared_mut_cases():
    """each mutating entry point through handle 1 while handles 0 and 2 share the payload, then through handle 0 (now shared with 2 only),
    then again through 1 (now alone on its payload); arguments that are handles: another handle to the same payload, the handle itself,
    a handle to another payload"""
    t = []
    for f in SEQ_FLAVS:
        if f == 'ptr':
            continue
        for kind in KINDS[f]:
            h = '@%s %s' % (f, kind)
            one, two = mut_letters(f, kind)
            for d in ('4267', '7157', '-', '1', '71234567', '777'):
                for l in one:
                    t.append([h, 'create 0 ' + d, 'copy 1 0', 'copy 2 0', l % 1, l % 0, l % 1, 'destroy 2', l % 0, 'destroy 0', 'destroy 1'])
                for l in two:
                    for (a, b) in ((1, 0), (1, 1), (0, 1), (1, 3), (3, 1)):
                        t.append([h, 'create 0 ' + d, 'copy 1 0', 'copy 2 0', 'create 3 25', fmt2(l, a, b), fmt2(l, a, b), 'destroy 2', fmt2(l, b, a), 'destroy 0', 'destroy 1', 'destroy 3'])
            if f == 'strx':
                # uncounted data: a literal / attached text copied, assigned and modified
                for l in one:
                    t.append([h, 'lit 0 2', 'copy 1 0', 'null 2', 'assign 2 0', l % 1, l % 0, 'attach 2 4267', 'copy 3 2', l % 3, l % 2, 'assign 0 2', l % 0])
            if f == 'var':
                t.append([h, 'create 0 12', 'copy 1 0', 'nullk 2 2', 'copy 3 2', 'vswap 1 2', 'vswap 3 0', 'vswap 0 0', 'assign 1 3', 'write 3 4', 'assignval 2 5'])
    return t


# ---- concurrent cases ---------------------------------------------------------------------------
def gen_thread_prog(rng, f, nv, own, n, valid=0.95):
    """program of one thread over its own variables 0..nv-1, the first `own` of which hold the common payload"""
    live = [i < own for i in range(nv)]
    ops = []
    kinds = ['copy', 'assign', 'drop', 'read', 'reset'] + (['swap'] if f == 'ptr' else ['write', 'write', 'reserve'])
    w = {'copy': 4, 'assign': 3, 'drop': 3, 'read': 2, 'swap': 2, 'write': 4, 'reserve': 1, 'reset': 2}
    for _ in range(n):
        k = rng.choices(kinds, [w[x] for x in kinds])[0]
        lv = [i for i in range(nv) if live[i]]
        dv = [i for i in range(nv) if not live[i]]
        if rng.random() > valid:
            a, b = rng.randrange(nv + 1), rng.randrange(nv + 1)
        elif k == 'copy':
            if not lv or not dv:
                continue
            a, b = rng.choice(dv), rng.choice(lv)
        elif k in ('assign', 'swap'):
            if not lv:
                continue
            a, b = rng.choice(lv), rng.choice(lv)
        else:
            if not lv:
                continue
            a = b = rng.choice(lv)
        if k == 'copy':
            ops.append('copy %d %d' % (a, b))
            if a < nv and b < nv and not live[a] and live[b]:
                live[a] = True
        elif k in ('assign', 'swap'):
            ops.append('%s %d %d' % (k, a, b))
        elif k in ('drop', 'reset'):
            ops.append('%s %d' % (k, a))
            if a < nv:
                live[a] = False
        elif k == 'write':
            ops.append('write %d %d' % (a, rng.randrange(1, 8)))
        else:
            ops.append('%s %d' % (k, a))
    return ops


def gen_schedule(rng, nth, npoints, style):
    if style == 'uniform':
        return [rng.randrange(nth) for _ in range(npoints)]
    if style == 'bursty':
        s = []
        while len(s) < npoints:
            s += [rng.randrange(nth)] * rng.randrange(1, 7)
        return s
    # few preemptions: run threads in a random order, switch at a few random points
    order = list(range(nth))
    rng.shuffle(order)
    s = []
    for t in order:
        s += [t] * (npoints // nth + 1)
    for _ in range(rng.randrange(1, 4)):
        i = rng.randrange(len(s))
        s[i:i] = [rng.randrange(nth)] * rng.randrange(1, 4)
    return s


def conc_head(rng, f, kind=None):
    return '@c%s %s' % (f, kind or rng.choice(CONC_KINDS[f]))


def gen_conc(rng, f, free=False):
    nth = rng.choice([2, 2, 3, 3, 4])
    nv = rng.choice([2, 3, 3, 4, 5])
    owns = [rng.choice([1, 1, 1, 2, 0]) for _ in range(nth)]
    if sum(owns) == 0:
        owns[0] = 1
    val = str(rng.randrange(0, 100)) if f == 'ptr' else digits(rng, rng.choice([0, 1, 2, 3, 3, 5, 7, 8]))
    case = [conc_head(rng, f), 'init %s %d %s' % (val, nv, ' '.join(map(str, owns)))]
    total = 0
    for t in range(nth):
        p = gen_thread_prog(rng, f, nv, owns[t], rng.randrange(1, 11))
        total += len(p)
        case += ['t %d %s' % (t, o) for o in p]
    if free:
        case.append('free %d' % rng.choice([2, 3, 5]))
    else:
        for _ in range(rng.choice([1, 2, 3])):
            s = gen_schedule(rng, nth, min(60, 4 * total + 4), rng.choice(['uniform', 'bursty', 'preempt']))
            case.append('go ' + ' '.join(map(str, s)))
    return case


CONC_UNITS = {   # the building blocks of the exhaustive scope (variable 0 holds the payload)
    'write': ['write 0 5'], 'drop': ['drop 0'], 'copydrop': ['copy 1 0', 'drop 0'], 'self': ['assign 0 0'],
    'writedrop': ['write 0 6', 'drop 0'], 'copywrite': ['copy 1 0', 'write 1 7'], 'read': ['read 0', 'drop 0'],
    'assign2': ['copy 1 0', 'write 1 4', 'assign 0 1'], 'reserve': ['reserve 0', 'drop 0'], 'reset': ['reset 0'],
    'copyreset': ['copy 1 0', 'reset 1', 'reset 0'],
}


def conc_exhaustive(f, depth, per_case=64):
    """two threads, one handle each to the common payload, every pair of unit programs, every schedule in {0,1}^depth
    (at most per_case schedules in one case: the framework budgets about 50 ms per case)"""
    cases = []
    units = [u for u in CONC_UNITS if not (f == 'ptr' and ('write' in u or u in ('reserve', 'assign2')))]
    scheds = [' '.join(map(str, s)) for s in itertools.product((0, 1), repeat=depth)]
    for a in units:
        for b in units:
            head = ['@c' + f, 'init %s 2 1 1' % ('3' if f == 'ptr' else '12')] + ['t 0 ' + o for o in CONC_UNITS[a]] + ['t 1 ' + o for o in CONC_UNITS[b]]
            for i in range(0, len(scheds), per_case):
                cases.append(head + ['go ' + s for s in scheds[i:i + per_case]])
    return cases


# ---- handles stored inside payloads (flavour nest) -------------------------------------------------
NNV = 4
NEST_KINDS = ('same', 'conv')


class NestSim:
    """pointer graph only (no counters, no releases): used by the generator to know which locations resolve"""
    def __init__(self):
        self.vars = [None] * NNV          # None = not constructed, 'null', or object id
        self.next = []                    # object id -> 'null' or object id

    def holder(self, v, k):
        o = self.vars[v]
        if o is None or o == 'null':
            return None
        for _ in range(1, k):
            o = self.next[o]
            if o == 'null':
                return None
        return o

    def resolvable(self, v, k):
        if self.vars[v] is None:
            return False
        return k == 0 or self.holder(v, k) is not None

    def get(self, v, k):
        return self.vars[v] if k == 0 else self.next[self.holder(v, k)]

    def put(self, v, k, x):
        if k == 0:
            self.vars[v] = x
        else:
            self.next[self.holder(v, k)] = x

    def locations(self, maxk=4):
        return [(v, k) for v in range(NNV) for k in range(maxk + 1) if self.resolvable(v, k)]

    def apply(self, op):
        t = op.split()
        a = [int(x) for x in t[1:]]
        if t[0] == 'create' and self.vars[a[0]] is None:
            self.next.append('null'); self.vars[a[0]] = len(self.next) - 1
        elif t[0] == 'null' and self.vars[a[0]] is None:
            self.vars[a[0]] = 'null'
        elif t[0] == 'destroy':
            self.vars[a[0]] = None
        elif t[0] == 'copy' and self.vars[a[0]] is None and self.resolvable(a[1], a[2]):
            self.vars[a[0]] = self.get(a[1], a[2])
        elif t[0] in ('assign', 'assignraw') and self.resolvable(a[0], a[1]) and self.resolvable(a[2], a[3]):
            self.put(a[0], a[1], self.get(a[2], a[3]))
        elif t[0] == 'reset' and self.resolvable(a[0], a[1]):
            self.put(a[0], a[1], 'null')


def gen_nest(rng, n, kind=None, valid=0.93, nv=NNV):
    """mostly valid history over <variable, depth> locations; biased towards sources stored inside the payload
    the target is a handle of (cur = cur->next, a->next = a->next->next) and towards growing chains"""
    kind = kind or rng.choice(NEST_KINDS)
    sim = NestSim()
    ops = []
    kinds = ['create', 'null', 'copy', 'assign', 'assignraw', 'reset', 'destroy']
    w = [4, 1, 3, 9, 3, 2, 3]
    for _ in range(n):
        k = rng.choices(kinds, w)[0]
        lv = [v for v in range(nv) if sim.vars[v] is not None]
        dv = [v for v in range(nv) if sim.vars[v] is None]
        locs = [l for l in sim.locations() if l[0] < nv]
        if rng.random() > valid:
            a = [rng.randrange(nv), rng.randrange(5), rng.randrange(nv), rng.randrange(5)]
            op = {'create': 'create %d %d' % (a[0], rng.randrange(100)), 'null': 'null %d' % a[0], 'destroy': 'destroy %d' % a[0],
                  'copy': 'copy %d %d %d' % (a[0], a[2], a[3]), 'reset': 'reset %d %d' % (a[0], a[1])}.get(k, '%s %d %d %d %d' % (k, a[0], a[1], a[2], a[3]))
        elif k in ('create', 'null'):
            if not dv:
                op = 'destroy %d' % rng.choice(lv)
            else:
                op = '%s %d' % (k, rng.choice(dv)) + (' %d' % rng.randrange(100) if k == 'create' else '')
        elif k == 'destroy':
            if not lv:
                continue
            op = 'destroy %d' % rng.choice(lv)
        elif k == 'copy':
            if not dv or not locs:
                continue
            op = 'copy %d %d %d' % ((rng.choice(dv),) + rng.choice(locs))
        elif k == 'reset':
            if not locs:
                continue
            op = 'reset %d %d' % rng.choice(locs)
        else:
            if not locs:
                continue
            d = rng.choice(locs)
            r = rng.random()
            inner = [(v, kk) for (v, kk) in locs if v == d[0] and kk > d[1]]
            tails = [l for l in locs if sim.get(*l) == 'null' and l[1] > 0]
            if r < 0.45 and inner:
                s_ = min(inner, key=lambda l: l[1]) if rng.random() < 0.7 else rng.choice(inner)     # source inside the target's payload
            elif r < 0.8 and tails:
                d = rng.choice(tails)                                                                 # grow a chain (no cycle)
                on_path = {sim.holder(d[0], j) for j in range(1, d[1] + 1)}
                fresh = [(v, 0) for v in lv if sim.vars[v] != 'null' and sim.vars[v] not in on_path]
                if not fresh:
                    op = 'destroy %d' % rng.choice(lv) if (not dv or rng.random() < 0.3) else 'create %d %d' % (rng.choice(dv), rng.randrange(100))
                    ops.append(op)
                    sim.apply(op)
                    continue
                s_ = rng.choice(fresh)
            else:
                s_ = rng.choice(locs)
            op = '%s %d %d %d %d' % (k, d[0], d[1], s_[0], s_[1])
        ops.append(op)
        sim.apply(op)
    return ['@nest ' + kind] + ops


def nest_chain(length, first=10):
    """variable 0 holds the head of a chain of `length` objects, each kept alive by its predecessor only"""
    ops = ['create 0 %d' % first]
    for i in range(1, length):
        ops += ['create 1 %d' % (first + i), 'assign 0 %d 1 0' % i, 'destroy 1']
    return ops


def nest_targeted():
    t = []
    for kind in NEST_KINDS:
        h = '@nest ' + kind
        for L in (2, 3, 4):
            ch = nest_chain(L)
            for a in ('assign', 'assignraw'):
                t.append([h] + ch + ['%s 0 0 0 1' % a] * L)                                  # cur = cur->next down the chain
                t.append([h] + ch + ['%s 0 1 0 2' % a] * (L - 1))                            # a->next = a->next->next
                t.append([h] + ch + ['%s 0 0 0 2' % a, '%s 0 0 0 1' % a])                    # cur = cur->next->next
                t.append([h] + ch + ['copy 1 0 1', '%s 0 0 0 1' % a, '%s 1 0 1 1' % a, 'destroy 0', '%s 1 0 1 1' % a])
                t.append([h] + ch + ['%s 0 0 0 0' % a, '%s 0 1 0 1' % a, '%s 0 %d 0 0' % (a, L), 'copy 1 0 1', 'destroy 0', '%s 1 0 1 1' % a, 'destroy 1'])   # self, cycle
                t.append([h] + ch + ['copy 1 0 %d' % (L - 1), '%s 1 0 1 1' % a, '%s 0 0 1 0' % a])
            t.append([h] + ch + ['reset 0 1', 'reset 0 0'])
            t.append([h] + ch + ['reset 0 %d' % (L - 1), 'reset 0 1', 'destroy 0'])
            t.append([h] + ch + ['destroy 0'])                                              # the whole chain goes
            t.append([h] + ch + ['copy 1 0 %d' % (L - 1), 'destroy 0', 'destroy 1'])        # the cascade stops at a shared object
            t.append([h] + ch + ['copy 1 0 1', 'copy 2 1 1', 'reset 0 0', 'reset 1 0', 'null 3', 'assign 2 0 3 0'])
            t.append([h] + ch + ['null 1', 'assign 0 1 1 0', 'assign 0 0 1 0', 'assign 1 0 0 1'])
    return t


def nest_alphabet(nv=2, maxk=2, raw=True):
    al = []
    for v in range(nv):
        al += ['create %d 7%d' % (v, v), 'null %d' % v, 'destroy %d' % v] + ['reset %d %d' % (v, k) for k in range(maxk + 1)]
    for d in range(nv):
        for s_ in range(nv):
            for sk in range(maxk + 1):
                if d != s_:
                    al.append('copy %d %d %d' % (d, s_, sk))
                for dk in range(maxk + 1):
                    al.append('assign %d %d %d %d' % (d, dk, s_, sk))
                    if raw:
                        al.append('assignraw %d %d %d %d' % (d, dk, s_, sk))
    return al

# ---- the mutating entry points, enumerated from the headers ---------------------------------------------
# every non-const, non-static member function (constructors and destructor aside) of the three value-handle classes, with the op
# that drives it.  gen_tables() reads the headers of the tree under test: a member that is not in this table (or one that
# disappeared) breaks the tie between the op language and the code (reported as no-failing-input-found).
ENTRY_POINTS = {
    'String': {
        'append(const String&)': 'appends', 'append(const char)': 'write', 'append(const char*,usize)': 'appendp / appendself', 'attach(const char*,usize)': 'attach (strx)',
        'clear()': 'reset', 'detach()': 'detach', 'detach(usize,usize)': 'private: through every modifier', 'join(const List<String>&,char)': 'join (strx)',
        'operator char*()': 'charptr', 'operator const char*()': 'appendself / constptr (strx)', 'operator+=(char)': 'pluseqc', 'operator+=(const String&)': 'pluseq',
        'operator=(const String&)': 'assign / assignlit (strx)', 'prepend(const String&)': 'prepends', 'prepend(const char*,usize)': 'prependp',
        'printf(const char*,...)': 'printf / printfself (strx)', 'replace(char,char)': 'replace', 'replace(const String&,const String&)': 'replacess (strx)',
        'reserve(usize)': 'reserve', 'resize(usize)': 'resize', 'toLowerCase()': 'tolower', 'toUpperCase()': 'toupper', 'trim(const char*)': 'trim'},
    'Variant': {
        'clear()': 'reset', 'operator=(bool)': 'assignscalar 0', 'operator=(double)': 'assignscalar 1', 'operator=(int)': 'assignscalar 2', 'operator=(uint)': 'assignscalar 3',
        'operator=(int64)': 'assignscalar 4', 'operator=(uint64)': 'assignscalar 5', 'operator=(const Variant&)': 'assign',
        'operator=(const Array<Variant>&)': 'assignval / retype (kind array)', 'operator=(const HashMap<String,Variant>&)': 'assignval / retype (kind map)',
        'operator=(const List<Variant>&)': 'assignval / retype (kind list)', 'operator=(const String&)': 'assignval / retype (kind string)', 'swap(Variant&)': 'vswap',
        'toArray()': 'write / detach / retype', 'toList()': 'write / detach / retype', 'toMap()': 'write / detach / retype', 'toString()': 'write / detach / retype'},
    'Xml::Variant': {'clear()': 'reset', 'operator=(const String&)': 'assignval / retype', 'operator=(const Variant&)': 'assign', 'toElement()': 'write / detach / retype'},
}


def class_body(src, cls):
    m = re.search(r'\bclass\s+%s\b[^;{]*\{' % cls, src)
    i = m.end(); d = 1; j = i
    while d:
        c = src[j]
        d += (c == '{') - (c == '}')
        j += 1
    return src[i:j - 1]
def members(src, cls):
    """non-const, non-static member functions (no constructors / destructor) declared in the class: set of `name(params)`"""
    src = re.sub(r'//[^\n]*', '', src); src = re.sub(r'/\*.*?\*/', '', src, flags=re.S)
    body = class_body(src, cls)
    out = []; i = 0; head = ''
    while i < len(body):
        c = body[i]
        if c == '{':
            d = 1; i += 1
            while d:
                d += (body[i] == '{') - (body[i] == '}'); i += 1
            out.append(head); head = ''
            continue
        if c == ';':
            out.append(head); head = ''
        elif c == ':' and re.search(r'\b(public|private|protected)\s*$', head):
            head = ''
        else:
            head += c
        i += 1
    res = set()
    for h in out:
        h = ' '.join(h.split())
        if '(' not in h or re.match(r'(struct|class|enum|union|friend|typedef)\b', h):
            continue
        h = re.sub(r'^template\s*<[^>]*>\s*', '', h)
        m = re.match(r'(.*?)(operator\s*[^(]+|operator\s*\(\)|~?\w+)\s*\((.*)$', h)
        if not m:
            continue
        pre, name, rest = m.group(1), ' '.join(m.group(2).split()), m.group(3)
        d = 1; k = 0
        while d and k < len(rest):
            d += (rest[k] == '(') - (rest[k] == ')'); k += 1
        params, tail = rest[:k - 1], rest[k:]
        tail = tail.split(':')[0]
        if re.match(r'\s*static\b', pre) or name == cls or name.startswith('~') or re.search(r'\bconst\b', tail):
            continue
        params = re.sub(r'\s*=\s*[^,]+', '', params)                    # default arguments
        params = ','.join(re.sub(r'\s*\b\w+$', '', p.strip()) if re.search(r'[\s&*]\w+$', p.strip()) and not re.fullmatch(r'(const\s+)?\w+', p.strip()) else p.strip() for p in params.split(',')) if params.strip() else ''
        res.add('%s(%s)' % (name, re.sub(r'\s+', ' ', params)))
    return res


def entry_points_table():
    inc = os.path.join(REPO, 'include', 'nstd')
    found = {'String': members(open(os.path.join(inc, 'String.hpp')).read(), 'String'),
             'Variant': members(open(os.path.join(inc, 'Variant.hpp')).read(), 'Variant')}
    x = re.sub(r'//[^\n]*', '', open(os.path.join(inc, 'Document', 'Xml.hpp')).read())
    found['Xml::Variant'] = members(class_body(x, 'Xml'), 'Variant')
    bad = []
    for cls, tab in ENTRY_POINTS.items():
        for m in sorted(found[cls] - set(tab)):
            bad.append('%s::%s is a non-const member no op drives' % (cls, m))
        for m in sorted(set(tab) - found[cls]):
            bad.append('%s::%s (driven by `%s`) is no longer declared' % (cls, m, tab[m]))
    if bad:
        raise TieBroken('mutating entry points of the headers differ from the op language: ' + '; '.join(bad))
    return 'entry points: ' + ', '.join('%s %d' % (c, len(t)) for c, t in ENTRY_POINTS.items())


class C09(Check):
    id = 'C09'
    comp = 'Rc'
    extracted = ['coq/Rc/model.mli', 'coq/Rc/model.ml', 'ocaml/zconv.ml', 'ocaml/rc_driver.ml']
    harness_sources = ['harness/rc.cpp', 'harness/rc_nest.cpp']
    harness_link_flags = ['-Wl,--wrap=_ZN6Memory4copyEPvPKvm']      # Memory::copy out of a payload block is a trace event
    per_case_timeout = 20
    level_text = ('Proved in Coq for the model: (sequential) for every history of create/null/copy/fromraw/assign/assignraw/assignval/reset/swap/write/detach/resize/reserve/'
                  'strmod/strcat/retype/destroy on String, Variant, RefCount::Ptr and Xml::Variant handles - strmod = ANY modifier of String that is detach(..) followed by a write into the own '
                  'block (append, resize, reserve, toLowerCase, toUpperCase, replace(char, char), a store through operator char*, append / prepend of characters: one generic lemma for every mode), '
                  'strcat = append / operator+= / prepend of the text of a handle that may be the target itself or share its payload, retype = the `type != T` branch of the write accessors and value '
                  'assignments of Variant / Xml::Variant; scalar assignment to a Variant is reset, and Variant::swap, the local copy prepend keeps and the String trim assigns are histories of these '
                  'operations over a seventh variable - the counter of a payload equals the number of live handles referring to it, '
                  'a payload is released exactly once, exactly when its last handle goes, never accessed afterwards and modified in place only while '
                  'exactly one handle refers to it, and the CONTENTS read through the handles (for Ptr: the identities of the objects) are those of the '
                  'value-semantics Spec over whole histories (a write through one handle changes no other); (handles stored inside payloads: ONE member handle per object, Ptr only, sequential, no swap of member handles) for every history of '
                  'create/null/copy/assign (same-type, converting, operator=(C*))/reset/destroy over locations <variable, depth> of RefCount::Ptr handles to a pointee '
                  'type with a Ptr member - so the source of an assignment may be a handle stored inside the object the target is the last handle of, and the target '
                  'may be a member handle - the counter of an object equals the handles to it in variables plus those inside objects that exist, an object is '
                  'released exactly once, exactly when no such handle is left (the release cascades and stops at an object with another handle), no operation and no '
                  'walk along the chains accesses a released object, and variables, chains and destroyed objects are those of the counter-free reference object; (concurrent) release/counting safety for EVERY '
                  'schedule of the interleaving machine in which threads owning distinct handles to a common payload copy, assign, swap, modify '
                  '(append / write access only / String::clear), read and drop them, each call split into its atomic increment / decrement-and-test / '
                  'plain read `ref == 1` accesses, plus completion: every schedule that lets each thread finish ends with released <-> no handle left; '
                  'and every access trace of the implementation that the acceptor RcConc.replay accepts is a run of that machine (a trace it rejects is reported as a break of the '
                  'model/implementation correspondence, never as a failing input: what decides the property on a concurrent run is the end state, the ledger and the sanitizers). '
                  'NOT in the Model (no theorem; judged by the value-semantics Spec for every handle, by running the same call on a private unshared String with the same text, and by the block ledger): '
                  'String handles on uncounted data (attach, literal constructor and their copies / assignments) and the modifiers built from other calls (printf, join, replace(String, String)).')
    level_note = ('partial: the concurrent clause is proved for the interleaving model under sequential consistency with the __sync builtins as '
                  'atomic steps (hardware/compiler memory ordering is outside the model). It is tied to the implementation on the schedules actually '
                  'run: baton-passing real threads switched at the scheduling points placed before and after every atomic operation (schedules '
                  'generated, 2-thread scope exhaustive up to the stated depth). What decides the PROPERTY on these runs is what the text states, read off the end state, '
                  'the allocation ledger and the sanitizers: contents of every handle against the value-semantics Spec, live payload blocks = distinct payloads the live '
                  'handles refer to, nothing left allocated after the last handle, no use after free / double free. In addition, as a check of the CORRESPONDENCE with the '
                  'interleaving machine the theorems are about (its failure is reported as no-failing-input-found, never as a failing input of the property), the harness records the access trace of the real code '
                  '(atomic increment/decrement with the value returned, allocation and release of a payload block, copy out of the old payload, in-place '
                  'modification with the resulting contents, and the counter as a write access is entered) and the extracted RcConc.replay must accept it '
                  'event by event (kind and result); a rejected trace means the implementation is not the modelled machine (e.g. it skips a +1/-1 pair, allocates other '
                  'capacities, or counts with builtins the harness has no scheduling points for - then a `go` run executes the threads one after the other). NOT observed: the plain reads of `ref` in front of an atomic operation and the '
                  'plain reads of the payload other than Memory::copy / the container copy (their place in the order is tied only through the branch '
                  'they decide and through ASan when they hit released memory); the counter value of an `r` event is read by the harness in the same '
                  'scheduling segment as the library reads it, not by the library; events carry no block identity (the counter values returned tie '
                  'them to a block only indirectly). Scope of the concurrent model: for String, and for Variant containers of integers, there is no '
                  'scheduling point between the plain read `ref == 1` / `ref > 1` and the in-place write that follows it (the machine allows other '
                  'threads in between, the harness produces that only where the modification itself counts nested payloads: Xml children, map keys, '
                  'inner strings); the in-place write, together with String\'s read of length and capacity, is one atomic step; Variant::clear / '
                  'Xml::Variant::clear / `p = 0` are driven concurrently as what the destructor does (they are the same code), String::clear as clear '
                  'followed by the destructor; handles never travel between threads. Free-running real threads (schedules the OS produced) under '
                  'ASan/UBSan are compared on their end state only; they are also run under TSan as a search oracle only (a plain write racing with an '
                  'atomic access counts; the plain reads of `ref` that TSan reports on the unchanged code are the part that sequential consistency assumes '
                  'away). The contents read through the handles are proved equal to the value-semantics Spec for sequential histories; for the concurrent '
                  'machine they are validated by correspondence only (no theorem). "Released" for Variant / Xml::Variant payloads is observed on ALL '
                  'allocations made inside the library calls: after every operation the blocks allocated for payloads must be exactly those reachable '
                  'from the live payloads; which block is a payload block is decided by provenance (the block the handle of the call refers to when the call returns), not by its size. '
                  'One payload type per case (Variant: list, map, array or string; Xml::Variant: element or text); the type-changing branches are driven by `retype` (the write accessor of another '
                  'type, then the value assignment of the case type: both `type != T` branches in one op, observed after the second); Xml::Variant text payloads have no '
                  'write accessor (value assignment only), element payloads no value assignment. A Variant holding a scalar (bool, double, int, uint, int64, uint64: data inside the handle, no payload) '
                  'is observed as a handle without payload (`-`), whatever the scalar; in kind string a scalar is cleared right after it was assigned (toString() would turn it into text). '
                  'String cases use the characters a b c A B C and space for the markers 1-7; a call that would make a text longer than 100 characters is skipped on both sides. '
                  'The op language is tied to the headers of the tree under test: every non-const, non-static member function of String, Variant and Xml::Variant (constructors / destructor aside) is enumerated from the header and must be in the table ENTRY_POINTS of this check with the op that drives it (a new or vanished member is reported as a break of the tie, no-failing-input-found). '
                  'Scheduling points of the baton scheduler: before and after every __sync / __atomic read-modify-write, compare-and-swap and exchange builtin (only the add/sub ones are trace events). Handles stored inside payloads are modelled for '
                  'RefCount::Ptr (machine RcNest: a pointee type with a Ptr member, locations <variable, depth>, sequential only); its reference object is RcNest.pstep (a pointer graph without counters in which, after every operation, the objects no handle refers to are destroyed, '
                  'repeatedly; proved independent of the order of destruction), refined by the Model over whole histories; swap of member handles and handles travelling '
                  'between threads are not in that machine; '
                  'nested Variant payloads are driven only through viaelem; String handles on literal / attached text (uncounted data) are driven in flavour strx, '
                  'which has no Model (see level_text); objects with two or more member handles are outside RcNest. The converting Ptr(const Ptr<D>&) / operator=(const Ptr<D>&) are driven in sequential cases only (kinds conv).')
    technique = ('machine-checked proof (Coq 8.16) about an executable model (sequential handle/block machine + machine with handles inside payloads + interleaving machine + trace acceptor) + differential '
                 'correspondence (ASan/UBSan): sequential histories op by op with contents and a ledger of every allocation, concurrent scenarios with real '
                 'threads under a baton-passing scheduler hooked at every atomic operation whose recorded access trace is replayed step by step through the '
                 'extracted machine, and free-running threads compared on their end state')
    rule = ('sequential cases = handle histories (create/null/copy/fromraw/assign/assignraw/assignval/reset/swap/write/detach/resize/reserve/destroy, every other modifier of String: '
            'toLowerCase, toUpperCase, replace(char, char), operator char*, append(String | const char*, n | into the own text), operator+=, prepend(String | const char*, n), trim; Variant: scalar '
            'assignment and construction (6 overloads), swap, type-changing accessor / value assignment; flavour strx also attach, literal constructor / assignment, printf, join, '
            'replace(String, String), operator const char*) on 6 variables of one '
            'handle type (String; Variant holding a list, map, array or string; RefCount::Ptr<T>, plain or through Ptr<Derived>; Xml::Variant holding an element '
            'or a text); non-trivial when some payload was shared by two live variables (a reference counter of 2 or more was observed) and at least one '
            'payload was released. nest cases = histories over 4 RefCount::Ptr variables and their chains (pointee with a Ptr member, same-type or derived member type): '
            'create/null/copy/assign/assignraw/reset/destroy on locations <variable, depth 0..4>; non-trivial when a handle stored inside a payload was followed '
            '(a chain of two or more objects was observed) and at least one object was released. concurrent cases = 2-4 threads owning 0-2 handles each to one common payload, programs of '
            'copy/assign/drop/write/reserve/reset/read/swap over their own variables, 1-3 explicit schedules (`go`, access trace replayed) or free runs; '
            'non-trivial when at least two threads execute a counting call (copy, assign, drop, write, reserve, reset). distinct = distinct op text')
    assumptions = ['sequential consistency of the __sync_* builtins and of the plain reads of `ref` (concurrent clause)',
                   'operator new / delete[] behave as allocation and release of disjoint blocks']

    def gen_tables(self):
        try:
            return [entry_points_table()]
        except (OSError, AttributeError, IndexError) as e:        # header missing or not parseable
            raise TieBroken('cannot enumerate the mutating entry points from the headers: %r' % (e,))

    def __init__(self):
        Check.__init__(self)
        self._impl_by_key = {}
        self._model_by_key = {}

    def run_impl(self, cases, tag='impl'):
        # chunks: a broken tree may crash on most cases of an exhaustive stream; every crash restarts the
        # harness and vf.py gives up after 400 restarts per call
        # (a defect that crashes on a large part of an exhaustive stream: after 150 crashes the rest of the stream is
        # not run - vf.py drops the cases marked `! notrun` - the failing inputs found so far are reported)
        res, crashes = [], {}
        step = 300
        for i in range(0, len(cases), step):
            if len(crashes) > 150:
                res += [['! notrun'] for _ in cases[i:i + step]]
                continue
            r, c = run_exe_on_cases(self.exes['impl'], cases[i:i + step], os.path.join(BUILD, self.id, 'run'), tag, is_impl=True,
                                    per_case_timeout=self.per_case_timeout)
            res += r
            for k, v in c.items():
                crashes[i + k] = v
        self._impl_by_key = {'\n'.join(c): o for c, o in zip(cases, res)}
        return res, crashes

    # the model driver gets, in front of every `go`, the access trace the harness recorded for it
    def with_traces(self, cases):
        out = []
        for c in cases:
            if not (c and c[0].startswith('@c')):
                out.append(c)
                continue
            obs = self._impl_by_key.get('\n'.join(c))
            if obs is None:
                out.append(c)
                continue
            nc = [c[0]]
            for i, line in enumerate(c[1:]):
                if line.startswith('go') and i < len(obs) and ' | trace ' in obs[i]:
                    nc.append('trace ' + obs[i].split(' | trace ', 1)[1])
                nc.append(line)
            out.append(nc)
        return out

    def run_model(self, cases, tag='model'):
        res = Check.run_model(self, self.with_traces(cases), tag)
        self._model_by_key = {'\n'.join(c): o for c, o in zip(cases, res)}
        return res

    def property_fails(self, case):
        impl, _ = self.run_impl([case], tag='shr_impl')
        self.run_model([case], tag='shr_model')
        spec = self.run_spec([case], tag='shr_spec')
        f = self.judge([case], impl, spec)
        return f[0] if f else None

    # ---- TSan, as search only -----------------------------------------------------------------
    # A report counts when a plain (non-atomic) WRITE races with an atomic access or with another plain
    # write, or when TSan reports anything other than a data race (use after free ...).  The library's
    # plain READS of `ref` racing with atomic updates, and an in-place payload write after the plain read
    # `ref == 1`, are reported by TSan on the good tree too: they are data races in the C++11 sense and
    # exactly the part the level_note puts outside the model (sequential consistency is assumed).
    def main(self, tier, seed, replay=None):
        self._replay = replay
        return Check.main(self, tier, seed, replay)

    def tsan_suspicious(self, err):
        out = []
        for rep in err.split('=================='):
            m = re.search(r'WARNING: ThreadSanitizer: ([^\n(]*)', rep)
            if not m:
                continue
            kind = m.group(1).strip()
            acc = [a.lower() for a in re.findall(r'^\s+((?:Previous )?(?:[Aa]tomic )?(?:[Rr]ead|[Ww]rite)) of size \d+', rep, flags=re.M)]
            acc = [a.replace('previous ', '') for a in acc]
            if kind != 'data race':
                out.append(rep.strip()[:1800])
            elif 'write' in acc and all(a in ('write', 'atomic write', 'atomic read') for a in acc):
                out.append(rep.strip()[:1800])
        return out

    def tsan_run(self, exe, cases, tag):
        wd = os.path.join(BUILD, self.id, 'run')
        os.makedirs(wd, exist_ok=True)
        from vf import write_cases
        f = os.path.join(wd, tag + '.ops')
        write_cases(f, cases)
        env = dict(os.environ)
        env['TSAN_OPTIONS'] = 'halt_on_error=0 report_signal_unsafe=0 exitcode=0'
        rc, o, e = sh([exe, f], cwd=wd, timeout=600, env=env)
        return self.tsan_suspicious(e)

    def extra_checks(self, tier, rng, ctx):
        cases = list(getattr(self, '_tsan_cases', []))
        if self._replay:
            try:
                rp = json.load(open(self._replay if os.path.isabs(self._replay) else os.path.join(VERIF, self._replay)))
                cases = [rp['ops']] if any(l.startswith('free') for l in rp.get('ops', [])) else []
            except (OSError, ValueError):
                cases = []
        if not cases:
            return
        lib, l = build_libnstd(variant='tsan', extra_flags=['-fsanitize=thread'])
        if not lib:
            log('[C09] TSan search skipped: libnstd does not build with -fsanitize=thread')
            return
        exe, l = build_harness(self.id, self.harness_sources, lib, extra_flags=['-fsanitize=thread'], link_flags=self.harness_link_flags,
                               variant='tsan', name='harness_tsan')
        if not exe:
            log('[C09] TSan search skipped: harness does not build with -fsanitize=thread: ' + l[-500:])
            return
        sus = self.tsan_run(exe, cases, 'tsan_all')
        self.tsan_stats = {'cases': len(cases), 'suspicious_reports': len(sus)}
        if not sus:
            return
        # locate one case that reproduces a suspicious report on its own
        found = None
        for c in sorted(cases, key=len):
            s1 = self.tsan_run(exe, [c], 'tsan_one')
            if s1:
                found = (c, s1[0])
                break
        if not found:
            found = ([], sus[0])
        case, rep = found
        if case:
            still = lambda cand: any(l.startswith('free') for l in cand) and bool(self.tsan_run(exe, [cand], 'tsan_shr'))
            case = self.shrink(case, still, budget=60)
        p = self.write_replay('failing-input', 'TSan (search oracle): a non-atomic write races with an atomic access to the same word, in free-running threads',
                              case, {'reason': 'ThreadSanitizer report', 'report': rep})
        ctx['violations'].append((p, ''))

    # ---- oracle -------------------------------------------------------------------------------
    TAGS = {
        'runs': 'RUNS-DISAGREE   runs of the same threads disagree or a destroyed object was read ...................... ',
        'leak': 'LEAK-AT-END     payload blocks still live after every handle was destroyed ................................ ',
        'live': 'LIVE-VS-HANDLES live payload blocks differ from the number of distinct payloads the live handles refer to ... ',
        'aux':  'PAYLOAD-PARTS   blocks allocated for payloads are not exactly those reachable from the live payloads ........ ',
        'after': 'LEAK-AFTER-JOIN blocks still allocated after every thread handle was destroyed ........................... ',
        'priv': 'SHARED-VS-PRIVATE a modifier gives another text on a handle of the case than on a private, unshared String with the same text ',
    }

    def judge(self, cases, impl_obs, spec_obs):
        fails = Check.judge(self, cases, impl_obs, spec_obs)
        bad = {i for (i, _, _) in fails}
        for i, obs in enumerate(impl_obs):
            if i in bad or (cases[i] and cases[i][0].startswith('@nest')):
                continue
            for k, line in enumerate(obs):
                if line.startswith('!') or line.startswith('?'):
                    continue
                if 'DIFFERENT-RUNS' in line or 'BADCANARY' in line:
                    fails.append((i, k, self.TAGS['runs'] + '`%s`' % line[:300]))
                    break
                sec = line.split(' | ')
                m = re.match(r'live=(-?\d+)(?: dtors=(-?\d+))?(?: aux=(\S+))?$', sec[1]) if len(sec) > 1 else None
                if not m:
                    continue
                livecnt = int(m.group(1))
                if m.group(3) not in (None, 'ok'):
                    fails.append((i, k, self.TAGS['aux'] + '`%s`' % sec[1]))
                    break
                pv = [x for x in sec[4:] if x.startswith('priv=')]
                if pv and pv[0] != 'priv=ok':
                    fails.append((i, k, self.TAGS['priv'] + '`%s | %s`' % (sec[0], pv[0])))
                    break
                if sec[0] == 'end':
                    if livecnt != 0:
                        fails.append((i, k, self.TAGS['leak'] + 'live=%d' % livecnt))
                        break
                    continue
                if len(sec) < 3:
                    continue
                classes = {c for c in sec[2].split(' ') if c not in ('.', ';', '')}
                if livecnt != len(classes):
                    fails.append((i, k, self.TAGS['live'] + '(%d vs %d): `%s`' % (livecnt, len(classes), ' | '.join(sec[:4]))))
                    break
                if len(sec) >= 5 and sec[4].startswith('after=') and sec[4] != 'after=0':
                    fails.append((i, k, self.TAGS['after'] + sec[4]))
                    break
                # An access trace that RcConc.replay rejects (`! trace-...` printed by the model driver in place of the
                # observation) is NOT judged here: it says that the implementation is not the modelled machine, not
                # that the property fails.  The line differs from the implementation's, so vf.py reports the case as a
                # break of the model/implementation correspondence (`no-failing-input-found`).
        return fails

    def nontrivial(self, case, obs):
        if case and case[0].startswith('@c'):
            counting = set()
            for l in case:
                t = l.split()
                if len(t) >= 3 and t[0] == 't' and t[2] in ('copy', 'assign', 'drop', 'write', 'reserve', 'reset'):
                    counting.add(t[1])
            return len(counting) >= 2
        if case and case[0].startswith('@nest'):
            # a handle stored inside a payload was followed, and some object was released
            return any('>' in l.split(' | ')[0] for l in obs) and any(re.search(r'dtors=[1-9]', l) for l in obs)
        shared = False
        released = False
        for line in obs:
            sec = line.split(' | ')
            if len(sec) >= 4 and re.search(r'\b([2-9]|\d\d+)[=#]', sec[3]):
                shared = True
            m = re.search(r'dtors=(\d+)', line)
            if m and int(m.group(1)) > 0:
                released = True
        return shared and released

    # ---- generators ---------------------------------------------------------------------------
    def streams(self, tier, rng):
        thorough = tier == 'thorough'
        out = []
        for f in SEQ_FLAVS:
            cases = [gen_history(rng, f, rng.randrange(4, 45)) for _ in range(2500 if thorough else 400)]
            out.append(Stream('hist_' + f, cases, note='mostly valid random histories, 6 variables, payload type drawn per case'))
        cases = [gen_history(rng, rng.choice(SEQ_FLAVS), rng.randrange(4, 30), valid=0.5) for _ in range(1500 if thorough else 300)]
        out.append(Stream('malformed', cases, note='half of the ops ignore which variables are constructed (both sides skip them)'))
        # boundary: few variables so that counts go up and down through 1 and 2 all the time
        cases = []
        for f in SEQ_FLAVS:
            for _ in range(1500 if thorough else 250):
                cases.append(gen_history(rng, f, rng.randrange(6, 30), nv=rng.choice([2, 3]), valid=0.97))
        cases += self.targeted()
        out.append(Stream('boundary', cases, note='2-3 variables; targeted: self assignment (also through a raw pointer), assignment of null, capacity boundary, value assignment while shared, swap then destroy'))
        # exhaustive small scope
        depth = 4 if thorough else 3
        for f in FLAVS:
            cases = []
            notes = []
            for kind in (KINDS[f] if thorough else KINDS[f][:2]):
                al = small_alphabet(f, 2, kind)
                notes.append('%s: %d letters' % (kind, len(al)))
                for tup in itertools.product(al, repeat=depth):
                    cases.append(['@%s %s' % (f, kind), 'create 0 123'] + list(tup))
            out.append(Stream('exh_' + f, cases, exhaustive=False,
                              note='every sequence of %d ops over 2 variables after `create 0 123` (%s)' % (depth, '; '.join(notes))))
        # every mutating entry point of String / Variant / Xml::Variant on a payload that another handle shares
        out.append(Stream('shared_mut', shared_mut_cases(), note='each mutating entry point (String: every non-const member; Variant: every assignment overload, swap, '
                          'the type-changing accessor and value assignment; Xml::Variant: both type-changing branches) through one of three handles that share a payload, '
                          'then through the others; handle arguments: same payload, the handle itself, another payload; literal / attached text (strx)'))
        cases = []
        notes = []
        mdepth = 3 if thorough else 2
        for f in SEQ_FLAVS:
            if f == 'ptr':
                continue
            for kind in KINDS[f]:
                al = mut_alphabet(f, kind)
                notes.append('%s %s: %d' % (f, kind, len(al)))
                for tup in itertools.product(al, repeat=mdepth):
                    cases.append(['@%s %s' % (f, kind), 'create 0 4267', 'copy 1 0'] + list(tup))
                if thorough:
                    for tup in itertools.product(al, repeat=2):
                        cases.append(['@%s %s' % (f, kind), 'create 0 71', 'copy 1 0'] + list(tup))
        out.append(Stream('exh_mut', cases, exhaustive=False,
                          note='every sequence of %d mutating ops / destroy / copy over two handles that share a payload (letters: %s)' % (mdepth, '; '.join(notes))))
        # handles stored inside payloads
        cases = [gen_nest(rng, rng.randrange(6, 40)) for _ in range(6000 if thorough else 1500)]
        cases += [gen_nest(rng, rng.randrange(6, 30), nv=2, valid=0.97) for _ in range(3000 if thorough else 700)]
        cases += [gen_nest(rng, rng.randrange(4, 30), valid=0.5) for _ in range(1500 if thorough else 300)]
        cases += nest_targeted()
        out.append(Stream('nest', cases, note='RefCount::Ptr to a pointee with a Ptr member (same-type and converting overloads): random histories over <variable, depth> '
                          'locations (4 and 2 variables, biased towards a source stored inside the payload the target refers to; half-malformed ones), targeted: walking / '
                          'unlinking / skipping along chains of 2-4 objects through operator= and operator=(C*), reset and destruction cascades, self assignment, cycles'))
        cases = []
        al = nest_alphabet(2, 2, raw=not thorough)
        ndepth = 3 if thorough else 2
        for kind in NEST_KINDS:
            for tup in itertools.product(al, repeat=ndepth):
                cases.append(['@nest ' + kind] + nest_chain(3) + list(tup))
        out.append(Stream('exh_nest', cases, exhaustive=False,
                          note='every sequence of %d ops (%d letters: locations of depth 0-2 over 2 variables%s) after building a chain of 3 objects held by variable 0, both kinds'
                          % (ndepth, len(al), '' if thorough else ', operator=(C*) included')))
        # concurrent: explicit schedules (baton passing at every atomic operation), access trace replayed
        for f in FLAVS:
            cases = [gen_conc(rng, f) for _ in range(1500 if thorough else 500)]
            out.append(Stream('conc_' + f, cases, note='2-4 real threads, 1-3 generated schedules each (uniform, bursty, few preemptions); access trace replayed through RcConc'))
        cases = self.conc_targeted(rng, 40 if thorough else 8)
        out.append(Stream('conc_targeted', cases, note='all threads write the common payload at once; drop racing write; copy racing drop; clear racing drop; self assignment; random schedules'))
        cases = []
        depths = {f: 10 for f in FLAVS} if thorough else {'str': 7, 'ptr': 8, 'var': 7, 'xml': 7}
        for f in FLAVS:
            cases += conc_exhaustive(f, depths[f])
        out.append(Stream('conc_exh', cases, note='2 threads x 1 handle, every pair of unit programs, every schedule in {0,1}^d then to completion, d = %s' % depths))
        # free-running threads
        cases = [gen_conc(rng, rng.choice(FLAVS), free=True) for _ in range(1200 if thorough else 400)]
        out.append(Stream('conc_free', cases, note='same scenarios, threads released together and left to the OS scheduler, 2-5 repetitions each'))
        self._tsan_cases = cases + [c for c in self.conc_targeted(rng, 0)]
        return out

    def targeted(self):
        t = []
        for f in FLAVS:
            for kind in KINDS[f]:
                h = '@%s %s' % (f, kind)
                t.append([h, 'create 0 123', 'assign 0 0', 'copy 1 0', 'assign 1 1', 'assign 0 1', 'destroy 0', 'destroy 1'])
                t.append([h, 'create 0 123', 'null 1', 'assign 0 1', 'assign 1 0', 'destroy 1', 'destroy 0'])
                t.append([h, 'create 0 12', 'copy 1 0', 'copy 2 0', 'reset 0', 'reset 1', 'reset 2', 'reset 2'])
        for d in ('-', '1', '12', '123', '1234', '1234567', '12345671'):
            t.append(['@str -', 'create 0 ' + d, 'write 0 1', 'write 0 2', 'copy 1 0', 'write 1 3', 'write 0 4', 'detach 1', 'write 0 5', 'write 0 6', 'write 0 7', 'write 0 1'])
            for kind in KINDS['var']:
                t.append(['@var ' + kind, 'create 0 ' + d, 'write 0 1', 'copy 1 0', 'detach 1', 'write 0 2', 'copy 2 1', 'write 2 3', 'write 1 4',
                          'assignval 2 77', 'copy 3 2', 'assignval 3 -', 'assignval 3 5', 'assignval 2 6'])
            t.append(['@xml element', 'create 0 ' + d, 'write 0 1', 'copy 1 0', 'detach 1', 'write 0 2', 'copy 2 1', 'write 2 3', 'write 1 4', 'assign 2 2', 'assign 1 2',
                      'viaelem 0 1', 'viaelem 2 0', 'viaelem 2 2', 'null 3', 'viaelem 3 0', 'null 4', 'viaelem 0 4'])
            for kind in ('list', 'map', 'array'):
                t.append(['@var ' + kind, 'create 0 ' + d, 'create 1 76', 'viaelem 0 1', 'copy 2 0', 'viaelem 2 1', 'viaelem 1 1', 'null 3', 'viaelem 3 2', 'null 4', 'viaelem 0 4',
                          'create 5 5', 'copy 4 5', 'viaelem 5 4'])
            t.append(['@xml text', 'create 0 ' + d, 'copy 1 0', 'assignval 1 71', 'assignval 1 72', 'copy 2 1', 'assignval 1 -', 'assign 2 2', 'assign 1 2'])
        t.append(['@str -', 'null 0', 'write 0 1', 'null 1', 'detach 1', 'copy 2 1', 'reset 1', 'reset 2', 'assign 0 1'])
        # write accesses that reach detach(.., 0) on a shared payload / on the static empty data
        for d in ('-', '1', '123', '1234', '12345671'):
            t.append(['@str -', 'create 0 ' + d, 'copy 1 0', 'resize 1 0', 'write 1 5', 'copy 2 0', 'reserve 2 0', 'write 2 6', 'copy 3 0', 'detach 3', 'resize 0 0', 'write 0 7'])
            t.append(['@str -', 'create 0 ' + d, 'copy 1 0', 'copy 2 1', 'resize 2 1', 'resize 1 0', 'resize 1 0', 'reserve 1 0', 'detach 1', 'copy 3 1', 'reserve 3 0', 'detach 1', 'resize 0 2', 'reserve 0 8', 'reserve 0 2'])
            t.append(['@str -', 'create 0 ' + d, 'resize 0 0', 'copy 1 0', 'reserve 1 0', 'copy 2 0', 'detach 2', 'copy 3 0', 'resize 3 0', 'write 0 1', 'write 1 2'])
        t.append(['@str -', 'null 0', 'resize 0 0', 'null 1', 'reserve 1 0', 'copy 2 1', 'resize 2 0', 'null 3', 'copy 4 3', 'resize 4 3', 'reserve 3 5', 'write 3 1'])
        for kind in KINDS['var']:
            t.append(['@var ' + kind, 'null 0', 'write 0 1', 'null 1', 'detach 1', 'copy 2 1', 'reset 1', 'assign 0 1', 'null 3', 'assignval 3 12'])
        t.append(['@xml element', 'null 0', 'write 0 1', 'null 1', 'detach 1', 'copy 2 1', 'reset 1', 'assign 0 1', 'assign 0 0'])
        t.append(['@xml text', 'null 0', 'assignval 0 1', 'null 1', 'copy 2 1', 'assign 0 1', 'assign 0 0'])
        for kind in KINDS['ptr']:
            h = '@ptr ' + kind
            t.append([h, 'create 0 1', 'create 1 2', 'swap 0 1', 'destroy 0', 'copy 2 1', 'destroy 1', 'destroy 2'])
            t.append([h, 'create 0 1', 'fromraw 1 0', 'fromraw 2 1', 'destroy 0', 'destroy 1', 'copy 3 2', 'reset 2'])
            t.append([h, 'create 0 1', 'null 1', 'swap 0 1', 'fromraw 2 1', 'destroy 1', 'destroy 0'])
            t.append([h, 'create 0 1', 'assignraw 0 0', 'copy 1 0', 'assignraw 1 1', 'assignraw 0 1', 'destroy 0', 'assignraw 1 1', 'destroy 1'])
            t.append([h, 'create 0 1', 'create 1 2', 'assignraw 0 1', 'null 2', 'assignraw 1 2', 'assignraw 2 0', 'destroy 0', 'destroy 2'])
        return t

    def conc_targeted(self, rng, nsched):
        t = []
        for f in FLAVS:
            w = 'read 0' if f == 'ptr' else 'write 0 5'
            fams = [
                [[w], [w], [w]],                                              # detach at ref = number of threads
                [['drop 0'], ['drop 0'], ['drop 0']],                         # who releases?
                [['reset 0'], ['drop 0'], ['reset 0']],                       # clear() racing the last drop
                [[w, 'drop 0'], ['drop 0'], ['copy 1 0', 'drop 0', 'drop 1']],
                [['copy 1 0', 'drop 1', 'copy 1 0', 'drop 1', 'drop 0'], ['assign 0 0', w, 'drop 0']],
                [['copy 1 0', w, 'assign 0 1', 'drop 1', 'drop 0'], [w, w, 'copy 1 0', 'assign 1 0', 'reset 0', 'drop 1']],
            ]
            for progs in fams:
                for val in (['7'] if f == 'ptr' else ['12', '123']):
                    case = [conc_head(rng, f), 'init %s 2 ' % val + ' '.join('1' for _ in progs)]
                    n = 0
                    for i, p in enumerate(progs):
                        case += ['t %d %s' % (i, o) for o in p]
                        n += len(p)
                    for _ in range(nsched):
                        case.append('go ' + ' '.join(map(str, gen_schedule(rng, len(progs), min(60, 4 * n + 4), rng.choice(['uniform', 'bursty', 'preempt'])))))
                    case.append('free 3')
                    t.append(case)
        return t


CHECK = C09
