import os, sys, hashlib, itertools
from vf import Check, Stream, VERIF, BUILD, sh, log, run_exe_on_cases

MON_NAMES = {1: 'timers (once per interval / not before due / least due time first / the loop never sleeps past a due time)',
             2: 'life times and registrations (callback for a dead or unregistered object, event kind not registered)',
             3: 'a failed read/write must be followed by onClosed (or the removal of the client) before the loop has waited twice',
             4: 'interrupt/run (run returned without interrupt, or kept waiting although interrupted)',
             5: 'timers: the loop waits with a negative time-out (= without limit) while a timer is live',
             6: 'a live, open socket was taken out of the poll set (it can never be dispatched again): epoll_ctl DEL that is not part of a removal, a connect dispatch or a closing'}

IVS = [1, 2, 3, 5, 10]
# values beyond 32 bits (round 5): intervals whose low 32 bits are small / negative / zero, clock bases next to 2^31, 2^32 (an uptime of 24.9 / 49.7 days)
WIDE_IVS = [2 ** 31 - 1, 2 ** 32 + 5, 2 ** 32 + 5, 2 ** 33 + 50, 2 ** 32 + 1, 2 ** 31, 2 ** 40]
BASES = [2 ** 31 - 3, 2 ** 31, 2 ** 31 + 7, 2 ** 32 - 2, 2 ** 32 + 1, 2 ** 41]
CHUNK = 63      # sockets one epoll_wait of the code (64-entry array, one entry kept for the event descriptor) takes


class Gen:
    """Builds one case: a history of top-level operations, behaviours of callbacks and run() scripts."""

    def __init__(self, rng, nt=4, nc=4, nl=1, ne=1):
        self.r = rng
        self.ops = []
        self.t = list(range(nt))          # identities the case may use
        self.c = list(range(nc))
        self.l = list(range(nl))
        self.e = list(range(ne))
        self.nextc = 20                   # identities for accepted / connected clients
        self.live = {'t': set(), 'c': set(), 'l': set(), 'e': set()}

    def ent(self, kinds='tcle'):
        k = self.r.choice(kinds)
        pool = {'t': self.t, 'c': self.c + list(range(20, self.nextc)), 'l': self.l, 'e': self.e}[k]
        return k, self.r.choice(pool) if pool else 0

    def action(self, weights=None):
        r = self.r
        w = weights or {}
        kinds = ['timer', 'rmtimer', 'pair', 'rmclient', 'listen', 'rmlistener', 'connect', 'rmestab',
                 'write', 'read', 'suspend', 'resume', 'interrupt', 'adv']
        ws = [w.get(k, 1.0) for k in kinds]
        k = r.choices(kinds, ws)[0]
        if k == 'timer':
            return 'timer %d %d' % (r.choice(self.t or [0]), r.choice(IVS))
        if k == 'rmtimer':
            return 'rmtimer %d' % r.choice(self.t or [0])
        if k in ('pair', 'rmclient', 'read', 'suspend', 'resume'):
            return '%s %d' % (k, self.ent('c')[1])
        if k == 'write':
            return 'write %d %d' % (self.ent('c')[1], r.choice([0, 1, 2, 3, 5, 8, 100]))
        if k in ('listen', 'rmlistener'):
            return '%s %d' % (k, r.choice(self.l or [0]))
        if k in ('connect', 'rmestab'):
            return '%s %d' % (k, r.choice(self.e or [0]))
        if k == 'adv':
            return 'adv %d' % r.choice([0, 1, 2, 3, 5, 7])
        return 'interrupt'

    def on(self, ent, kind, acts, new=0, acc=0):
        self.ops.append('on %s %s %d %d%s' % (ent, kind, new, acc, ''.join(' / ' + a for a in acts)))

    def intro(self, ent, kind, acts_fn, acc=None):
        n = self.nextc
        self.nextc += 1
        acc = self.r.random() < 0.7 if acc is None else acc
        self.on(ent, kind, acts_fn(n), n, 1 if acc else 0)
        return n

    def item(self, ents, dt=None, realistic=True):
        r = self.r
        dt = r.choice([0, 0, 1, 2, 3, 5, 10]) if dt is None else dt
        parts = []
        for e in ents:
            k = e[0]
            if k == 'c':
                b = r.choice([1, 1, 2, 3, 3, 4, 8, 16, 5, 9, 7]) if realistic else r.randrange(1, 32)
            elif k == 'l':
                b = r.choice([1, 1, 1, 9, 16])
            else:
                b = r.choice([2, 2, 2, 8, 10, 16, 24])
            parts.append('%s=%d' % (e, b))
        if not parts and r.random() < 0.12:
            return '%d!' % dt         # a handled signal: epoll_wait fails with EINTR after dt
        return '%d:%s' % (dt, ','.join(parts)) if parts else '%d' % dt


def case_same_tick(rng):
    """5..9 timers created in the same tick with the same interval (one run of equal keys in the MultiMap, tall enough for rotations),
    removal of early/middle/late ones at top level and from the first activation, then a few rounds"""
    n = rng.randrange(5, 10)
    iv = rng.choice(IVS)
    ops = ['timer %d %d' % (i, iv) for i in range(n)]
    if rng.random() < 0.5:
        ops.insert(rng.randrange(0, n), 'timer %d %d' % (n, iv + rng.choice([-1, 1])) if iv > 1 else 'timer %d 2' % n)
    vict = rng.sample(range(n), rng.randrange(1, 4))
    if rng.random() < 0.6:
        ops += ['rmtimer %d' % v for v in vict]
    else:
        first = rng.randrange(n)
        ops.append('on t%d act 0 0' % first + ''.join(' / rmtimer %d' % v for v in vict))
    ops.append('run ' + ' '.join(str(rng.choice([iv, iv, 0, 2 * iv])) for _ in range(rng.randrange(2, 5))))
    return ops


def case_timers(rng, big=False):
    if rng.random() < 0.25:
        return case_same_tick(rng)
    g = Gen(rng, nt=7 if big else 5, nc=1, nl=0, ne=0)
    n = len(g.t)
    iv = rng.choice(IVS)
    same = rng.random() < 0.6
    if rng.random() < 0.2:
        g.ops.append('adv %d' % rng.choice(BASES))
    for i in range(n - 1):
        if rng.random() < 0.25:
            g.ops.append('adv %d' % rng.choice([0, 1, iv, 2 * iv]))
        g.ops.append('timer %d %d' % (i, iv if same else rng.choice(IVS)))
    # behaviours: remove others / self / create the spare one / interrupt
    for _ in range(rng.randrange(1, 8)):
        t = rng.randrange(n)
        acts = []
        for _ in range(rng.randrange(1, 4)):
            x = rng.random()
            if x < 0.5:
                acts.append('rmtimer %d' % rng.randrange(n))
            elif x < 0.7:
                acts.append('timer %d %d' % (rng.randrange(n), rng.choice(IVS)))
            elif x < 0.8:
                acts.append('adv %d' % rng.choice([1, 2, 5]))
            elif x < 0.9:
                acts.append('interrupt')
            else:
                acts.append('rmtimer %d' % t)
        g.on('t%d' % t, 'act', acts)
    if rng.random() < 0.4:
        g.ops.append('rmtimer %d' % rng.randrange(n))
    for _ in range(rng.randrange(1, 4)):
        items = [g.item([], dt=rng.choice([0, 1, iv, iv, 2 * iv, 3 * iv + 1])) for _ in range(rng.randrange(1, 6))]
        g.ops.append('run ' + ' '.join(items))
        if rng.random() < 0.5:
            g.ops.append(rng.choice(['rmtimer %d' % rng.randrange(n), 'timer %d %d' % (rng.randrange(n), rng.choice(IVS)), 'adv %d' % iv]))
    return g.ops


def opts_line(rng):
    # TCP_NODELAY cannot be set on the socket pairs the simulated accept hands out, so nodelay stays off here (stream mt sets it)
    return 'opts %d 0 %d %d %d' % (rng.randrange(2), rng.choice([0, 4096, 65536]), rng.choice([0, 4096, 65536]), rng.randrange(2))


def case_pending(rng, big=False):
    """many sockets ready in one poll round; callbacks remove / re-register objects whose event is still buffered"""
    nc = rng.randrange(3, 12 if big else 7)
    g = Gen(rng, nt=2, nc=nc, nl=2, ne=2)
    if rng.random() < 0.3:
        g.ops.append(opts_line(rng))
    for i in range(nc):
        g.ops.append('pair %d' % i)
    for i in g.l:
        g.ops.append('listen %d' % i)
    for i in g.e:
        g.ops.append('connect %d' % i)
    # some clients get a backlog (write interest) or are suspended
    for i in range(nc):
        x = rng.random()
        if x < 0.3:
            g.ops.append('sendq %s' % rng.choice(['w', '1', '2']))
            g.ops.append('write %d %d' % (i, rng.choice([3, 5])))
        elif x < 0.4:
            g.ops.append('suspend %d' % i)
    ents = ['c%d' % i for i in range(nc)] + ['l%d' % i for i in g.l] + ['e%d' % i for i in g.e]

    def victim_acts(n_new=None):
        acts = []
        for _ in range(rng.randrange(1, 4)):
            x = rng.random()
            v = rng.randrange(nc)
            if x < 0.45:
                acts.append('rmclient %d' % v)
            elif x < 0.55:
                acts.append('rmlistener %d' % rng.choice(g.l))
            elif x < 0.65:
                acts.append('rmestab %d' % rng.choice(g.e))
            elif x < 0.75:
                acts.append('suspend %d' % v)
            elif x < 0.8:
                acts.append('resume %d' % v)
            elif x < 0.88:
                acts.append('write %d %d' % (v, rng.choice([1, 4])))
            elif x < 0.93:
                acts.append('read %d' % v)
            elif x < 0.97:
                acts.append('interrupt')
            elif n_new is not None:
                acts.append('rmclient %d' % n_new)
        return acts

    for e in ents:
        if rng.random() < 0.6:
            if e[0] == 'c':
                g.on(e, rng.choice(['read', 'read', 'write', 'closed']), victim_acts())
            elif e[0] == 'l':
                g.intro(e, 'accepted', victim_acts)
            else:
                if rng.random() < 0.7:
                    g.intro(e, 'connected', victim_acts)
                else:
                    g.on(e, 'abolished', victim_acts())
    if rng.random() < 0.3:
        g.ops.append('recvq ' + ' '.join(rng.choice(['w', 'z', 'e', '3']) for _ in range(3)))
    if rng.random() < 0.3:
        g.ops.append('sendq ' + ' '.join(rng.choice(['w', 'e', '0', '1', '100']) for _ in range(3)))
    if rng.random() < 0.3:
        g.ops.append('connq ' + ' '.join(rng.choice(['0', '111', '0']) for _ in range(2)))
    for _ in range(rng.randrange(1, 3)):
        items = []
        for _ in range(rng.randrange(1, 4)):
            k = rng.randrange(2, len(ents) + 1)
            items.append(g.item(rng.sample(ents, k)))
        g.ops.append('run ' + ' '.join(items))
        if rng.random() < 0.4:
            g.ops.append(rng.choice(['rmclient %d' % rng.randrange(nc), 'interrupt', 'pair %d' % rng.randrange(nc)]))
    return g.ops


def case_io(rng, big=False):
    """failed reads and writes, backlog and write readiness, hang-ups"""
    nc = rng.randrange(1, 5)
    g = Gen(rng, nt=1, nc=nc, nl=0, ne=0)
    for i in range(nc):
        g.ops.append('pair %d' % i)
    for _ in range(rng.randrange(2, 9)):
        i = rng.randrange(nc)
        x = rng.random()
        if x < 0.3:
            # a failed read/write, possibly followed by the removal of the client before the closing pass sees it
            tail = rng.choice([[], [], ['read %d' % i], ['rmclient %d' % i], ['rmclient %d' % i, 'pair %d' % rng.randrange(nc, nc + 2)],
                               ['write %d 2' % i, 'rmclient %d' % i]])
            g.on('c%d' % i, 'read', ['read %d' % i] + tail)
            g.ops.append('recvq ' + ' '.join(rng.choice(['w', 'z', 'e', '1', '7', '0']) for _ in range(rng.randrange(1, 3))))
        elif x < 0.5:
            g.on('c%d' % i, 'closed', rng.choice([['rmclient %d' % i], [], ['read %d' % i], ['write %d 3' % i, 'rmclient %d' % i],
                                                    ['rmclient %d' % rng.randrange(nc)]]))
        elif x < 0.7:
            g.ops.append('sendq ' + ' '.join(rng.choice(['w', 'e', '0', '1', '2', '100']) for _ in range(rng.randrange(1, 3))))
            g.ops.append('write %d %d' % (i, rng.choice([0, 1, 3, 5])))
        elif x < 0.8:
            g.on('c%d' % i, 'write', rng.choice([['write %d 4' % i], ['write %d 0' % i], ['rmclient %d' % i], ['suspend %d' % i], []]))
        elif x < 0.9:
            g.ops.append(rng.choice(['suspend %d', 'resume %d', 'read %d']) % i)
            if rng.random() < 0.3:
                g.ops.append('rmclient %d' % i)
        else:
            g.ops.append('timer 0 %d' % rng.choice(IVS))
            g.on('t0', 'act', ['read %d' % i, 'write %d 2' % rng.randrange(nc)])
        if rng.random() < 0.5:
            ents = ['c%d' % k for k in range(nc) if rng.random() < 0.7]
            g.ops.append('run ' + ' '.join(g.item(ents) for _ in range(rng.randrange(1, 4))))
    g.ops.append('run ' + g.item(['c%d' % k for k in range(nc)]) + ' 1')
    return g.ops


def case_interrupt(rng, big=False):
    nc = rng.randrange(1, 4)
    g = Gen(rng, nt=2, nc=nc, nl=0, ne=0)
    for i in range(nc):
        g.ops.append('pair %d' % i)
    if rng.random() < 0.5:
        g.ops.append('timer 0 %d' % rng.choice(IVS))
        g.on('t0', 'act', rng.choice([['interrupt'], ['interrupt', 'interrupt'], ['rmtimer 0', 'interrupt'], []]))
    for _ in range(rng.randrange(1, 5)):
        x = rng.random()
        if x < 0.35:
            g.ops.append('interrupt')
            if rng.random() < 0.3:
                g.ops.append('interrupt')
        elif x < 0.7:
            i = rng.randrange(nc)
            g.on('c%d' % i, 'read', rng.choice([['interrupt'], ['interrupt', 'rmclient %d' % i], ['read %d' % i, 'interrupt'], ['suspend %d' % i]]))
        ents = ['c%d' % k for k in range(nc) if rng.random() < 0.8]
        items = [g.item(ents if rng.random() < 0.7 else []) for _ in range(rng.randrange(0, 4))]
        g.ops.append(('run ' + ' '.join(items)).strip())
    return g.ops


def case_random(rng, big=False):
    g = Gen(rng, nt=3, nc=4, nl=2, ne=2)
    if rng.random() < 0.3:
        g.ops.append(opts_line(rng))
    made = {'t': [], 'c': [], 'l': [], 'e': []}       # identities created at top level (approximation of "live")

    def act(inside=False):
        """an action that mostly refers to objects that exist"""
        x = rng.random()
        if x < 0.2 or not any(made.values()):
            k = rng.choice('tccle')
            i = rng.choice({'t': g.t, 'c': g.c, 'l': g.l, 'e': g.e}[k])
            if not inside and i not in made[k]:
                made[k].append(i)
            return {'t': 'timer %d %d' % (i, rng.choice(IVS)), 'c': 'pair %d' % i, 'l': 'listen %d' % i, 'e': 'connect %d' % i}[k]
        if x < 0.3:
            return g.action()
        k = rng.choice([k for k in 'tcle' if made[k]])
        i = rng.choice(made[k] + (list(range(20, g.nextc)) if k == 'c' and rng.random() < 0.3 and g.nextc > 20 else []))
        if k == 't':
            return rng.choice(['rmtimer %d' % i, 'timer %d %d' % (i, rng.choice(IVS)), 'adv %d' % rng.choice([1, 2, 5])])
        if k == 'c':
            return rng.choice(['rmclient %d' % i, 'write %d %d' % (i, rng.choice([1, 3, 8])), 'write %d 2' % i, 'read %d' % i, 'read %d' % i,
                               'suspend %d' % i, 'resume %d' % i, 'interrupt'])
        if k == 'l':
            return rng.choice(['rmlistener %d' % i, 'listen %d' % i])
        return rng.choice(['rmestab %d' % i, 'connect %d' % i])

    for _ in range(rng.randrange(6, 40 if big else 24)):
        x = rng.random()
        if x < 0.4:
            g.ops.append(act())
        elif x < 0.72:
            k = rng.choice([k for k in 'tcle' if made[k]] or ['c'])
            pool = made[k] or [0]
            i = rng.choice(pool)
            acts = [act(True) for _ in range(rng.randrange(0, 4))]
            if k == 't':
                g.on('t%d' % i, 'act', acts)
            elif k == 'c':
                if rng.random() < 0.3 and g.nextc > 20:
                    i = rng.randrange(20, g.nextc)
                g.on('c%d' % i, rng.choice(['read', 'read', 'write', 'closed', 'closed']), acts)
            elif k == 'l':
                g.intro('l%d' % i, 'accepted', lambda n: acts + (['rmclient %d' % n] if rng.random() < 0.15 else []) +
                        (['write %d 3' % n, 'suspend %d' % n] if rng.random() < 0.2 else []))
            else:
                if rng.random() < 0.7:
                    g.intro('e%d' % i, 'connected', lambda n: acts + (['rmestab %d' % i] if rng.random() < 0.5 else []))
                else:
                    g.on('e%d' % i, 'abolished', acts + ['rmestab %d' % i])
        elif x < 0.8:
            g.ops.append(rng.choice(['sendq ' + ' '.join(rng.choice(['w', 'e', '0', '1', '2', '100']) for _ in range(2)),
                                     'recvq ' + ' '.join(rng.choice(['w', 'z', 'e', '1', '9']) for _ in range(2)),
                                     'acceptq ' + rng.choice(['0', '1', '1 0']),
                                     'connq ' + rng.choice(['0', '111', '104 0'])]))
        else:
            pool = ['c%d' % i for i in made['c'] + list(range(20, g.nextc))] + ['l%d' % i for i in made['l']] + ['e%d' % i for i in made['e']]
            items = []
            for _ in range(rng.randrange(0, 5)):
                sub = rng.sample(pool, rng.randrange(0, min(6, len(pool)) + 1)) if pool else []
                items.append(g.item(sub, realistic=rng.random() < 0.8))
            g.ops.append(('run ' + ' '.join(items)).strip())
    g.ops.append('run 1')
    return g.ops


def case_announce(rng, big=False):
    """onAccepted/onConnected scripts that remove the client they announce (before/after reading, writing, suspending it; with
    and without handing a callback object back), then events, failed io and removals for that client and its neighbours"""
    g = Gen(rng, nt=1, nc=2, nl=2, ne=2)
    for i in g.l:
        g.ops.append('listen %d' % i)
    for i in g.e:
        g.ops.append('connect %d' % i)
    for i in g.c:
        if rng.random() < 0.6:
            g.ops.append('pair %d' % i)
    news = []

    def acts(n):
        a = []
        for _ in range(rng.randrange(0, 3)):
            a.append(rng.choice(['read %d' % n, 'write %d 3' % n, 'suspend %d' % n, 'resume %d' % n, 'timer 0 2', 'interrupt',
                                 'rmclient %d' % rng.choice(g.c), 'write %d 2' % rng.choice(g.c), 'rmlistener %d' % rng.choice(g.l)]))
        if rng.random() < 0.75:
            a.insert(rng.randrange(0, len(a) + 1), 'rmclient %d' % n)
            if rng.random() < 0.3:
                a.append(rng.choice(['rmclient %d' % n, 'read %d' % n, 'write %d 1' % n]))
            if rng.random() < 0.4:          # a client created right after the removal (it may get the pool slot of the removed one)
                k = 10 + len(spare)
                spare.append(k)
                a.append('pair %d' % k)
        return a

    spare = []

    for _ in range(rng.randrange(1, 5)):
        if rng.random() < 0.6:
            news.append(g.intro('l%d' % rng.choice(g.l), 'accepted', acts, acc=rng.random() < 0.8))
        else:
            news.append(g.intro('e%d' % rng.choice(g.e), 'connected', acts, acc=rng.random() < 0.8))
    for n in news:
        for _ in range(rng.randrange(0, 3)):
            g.on('c%d' % n, rng.choice(['read', 'closed', 'write']), rng.choice([[], ['read %d' % n], ['rmclient %d' % n], ['write %d 2' % n]]))
    if rng.random() < 0.5:
        g.ops.append('recvq ' + ' '.join(rng.choice(['w', 'z', 'e', '3']) for _ in range(3)))
    if rng.random() < 0.5:
        g.ops.append('sendq ' + ' '.join(rng.choice(['w', 'e', '0', '1', '100']) for _ in range(3)))
    ents = ['l%d' % i for i in g.l] + ['e%d' % i for i in g.e]
    for _ in range(rng.randrange(1, 3)):
        items = [g.item(rng.sample(ents, rng.randrange(1, len(ents) + 1)), dt=0) for _ in range(rng.randrange(1, 3))]
        pool = ['c%d' % n for n in news] + ['c%d' % i for i in g.c] + ['c%d' % k for k in spare]
        items += [g.item(rng.sample(pool, rng.randrange(1, len(pool) + 1))) for _ in range(rng.randrange(1, 4))]
        g.ops.append('run ' + ' '.join(items))
    return g.ops


def case_late(rng, big=False):
    """timers created where the loop has already decided how long to sleep: in onClosed (closing pass), next to timers created
    in onRead/onWrite/onActivated and at top level; failed reads/writes bring the clients into the closing set"""
    nc = rng.randrange(1, 4)
    g = Gen(rng, nt=6, nc=nc, nl=0, ne=0)
    for i in range(nc):
        g.ops.append('pair %d' % i)
    t = 0
    if rng.random() < 0.5:
        g.ops.append('timer %d %d' % (t, rng.choice(IVS + [50, 400000])))
        t += 1
    for i in range(nc):
        where = rng.choice(['closed', 'closed', 'closed', 'read', 'write'])
        fail = rng.choice(['read %d' % i, 'write %d 2' % i])
        g.on('c%d' % i, 'read', [fail] + (['timer %d %d' % (t, rng.choice(IVS))] if where == 'read' else []))
        if where == 'read':
            t += 1
        mk = ['timer %d %d' % (t, rng.choice(IVS + [30]))] if where == 'closed' else []
        if mk:
            t += 1
            if rng.random() < 0.3:
                mk.append('timer %d %d' % (t, rng.choice(IVS)))
                t += 1
        g.on('c%d' % i, 'closed', mk + rng.choice([['rmclient %d' % i], ['rmclient %d' % i], []]))
    g.ops.append('recvq ' + ' '.join(rng.choice(['z', 'e', 'z', 'w']) for _ in range(nc)))
    g.ops.append('sendq ' + ' '.join(rng.choice(['e', '0', 'w', '100']) for _ in range(nc)))
    ents = ['c%d' % k for k in range(nc)]
    items = [g.item(rng.sample(ents, rng.randrange(1, nc + 1)), dt=rng.choice([0, 0, 1]))]
    items += [g.item([], dt=rng.choice([0, 1, 2, 5, 30, 60])) for _ in range(rng.randrange(1, 5))]
    g.ops.append('run ' + ' '.join(items))
    return g.ops


def case_wide(rng, big=False):
    """values beyond 32 bits: a clock base next to 2^31 / 2^32 / 2^41 (long uptime), timer intervals of 24.9 days and more whose low 32 bits
    are small, negative or zero, waits that long; small steps first (a timer cut to 32 bits fires early), long steps afterwards"""
    g = Gen(rng, nt=5, nc=1, nl=0, ne=0)
    if rng.random() < 0.6:
        g.ops.append('adv %d' % rng.choice(BASES))
    nt = rng.randrange(1, 5)
    wide = rng.random() < 0.7
    ivs = []
    for i in range(nt):
        iv = rng.choice(WIDE_IVS[:5] if rng.random() < 0.85 else WIDE_IVS) if wide else rng.choice(IVS)
        ivs.append(iv)
        if rng.random() < 0.3:
            g.ops.append('adv %d' % rng.choice([1, 5, 1000]))
        g.ops.append('timer %d %d' % (i, iv))
    if rng.random() < 0.4:
        t = rng.randrange(nt)
        g.on('t%d' % t, 'act', rng.choice([['rmtimer %d' % t], ['timer %d %d' % (nt, rng.choice(WIDE_IVS[:5] if wide else IVS))], ['interrupt'], []]))
    g.ops.append('run ' + ' '.join(g.item([], dt=rng.choice([0, 1, 5, 50, 1000])) for _ in range(rng.randrange(1, 4))))
    if wide and rng.random() < 0.5:
        # long steps: at most a few intervals of the shortest timer, so that the catch-up work stays small
        lo = min(ivs)
        g.ops.append('run ' + ' '.join(g.item([], dt=rng.choice([lo - 1000, lo - 1, lo, lo + 1, 2 ** 32, 5, 0])) for _ in range(rng.randrange(1, 4))))
        if rng.random() < 0.5:
            g.ops.append('adv %d' % rng.choice([lo, 2 ** 32]))
            g.ops.append('run 0 1')
    return g.ops


def case_crowd(rng, big=False):
    """70..130 sockets ready at the same moment: more than the 64-entry array of Poll::poll takes.  The kernel hands them out 63 at a time
    (items marked `+` continue the first one: a caller that asks for more than 64 events gets them in ONE call); callbacks remove
    clients whose event is still buffered or still waiting in the kernel"""
    n = rng.randrange(70, 131)
    ops = []
    if rng.random() < 0.3:
        ops.append('listen 0')
    for i in range(n):
        ops.append('pair %d' % i)
    ents = ['c%d' % i for i in range(n)]
    if ops[0] == 'listen 0':
        ents.append('l0')
        ops.append('on l0 accepted 200 1')
    rng.shuffle(ents)
    for _ in range(rng.randrange(0, 5)):
        a, b = rng.randrange(n), rng.randrange(n)
        ops.append('on c%d read 0 0 / %s' % (a, rng.choice(['rmclient %d' % b, 'suspend %d' % b, 'read %d' % a, 'interrupt', 'write %d 3' % b])))
    items = []
    for k in range(0, len(ents), CHUNK):
        part = ents[k:k + CHUNK]
        items.append('0%s:%s' % ('+' if k else '', ','.join('%s=1' % e for e in part)))
    ops.append('run ' + ' '.join(items) + ' 1')
    if rng.random() < 0.5:
        ops.append('run 0:%s 0' % ','.join('%s=1' % e for e in rng.sample(ents, 5)))
    return ops


def chunks(acts, limit=62):
    """cuts a behaviour into pieces that fit an `on` line (the harness reads at most 64 tokens per line)"""
    out, cur, used = [], [], 5
    for x in acts:
        k = 1 + len(x.split())
        if used + k > limit and cur:
            out.append(cur)
            cur, used = [], 5
        cur.append(x)
        used += k
    out.append(cur)
    return out


def on_line(ent, kind, acts):
    return 'on %s %s 0 0' % (ent, kind) + ''.join(' / ' + x for x in acts)


def removal_order(rng, ids):
    """orders in which an application gives up clients: oldest first, newest first, interleaved from both ends, evens then odds, random"""
    x = rng.randrange(6)
    if x == 0:
        return list(ids)
    if x == 1:
        return list(reversed(ids))
    if x == 2:
        out, a, b = [], 0, len(ids) - 1
        while a <= b:
            out.append(ids[a]); a += 1
            if a <= b:
                out.append(ids[b]); b -= 1
        return out
    if x == 3:
        return list(ids[0::2]) + list(ids[1::2])
    if x == 4:
        return list(ids[1::2]) + list(ids[0::2])
    out = list(ids)
    rng.shuffle(out)
    return out


def case_closing(rng, big=False):
    """9..18 clients (more than the 8 buckets of the closing set: two of them share a bucket whatever their addresses) whose read or write
    FAILS IN THE SAME ROUND - one callback (an onRead, a timer) or the application at top level reads/writes them all - and that are then
    removed in varying orders (oldest first, newest first, interleaved, random; all or all but a few): right away, from a second timer of
    the same tick, from the first onClosed of the closing pass, at top level before run(); the clients that are left get their onClosed
    (and remove themselves there or stay); a second wave re-uses the pool slots"""
    n = rng.randrange(9, 19)
    ops = ['pair %d' % i for i in range(n)]
    order = list(range(n))
    if rng.random() < 0.4:
        rng.shuffle(order)
    nrecv = nsend = 0
    fails = []
    wr = rng.choice([0.0, 0.0, 0.2, 0.5])
    for i in order:
        if rng.random() < wr:
            fails.append('write %d 2' % i); nsend += 1
        else:
            fails.append('read %d' % i); nrecv += 1
    keep = rng.choice([0, 0, 1, 2, 3])                    # clients the application does not remove itself before the closing pass
    victims = removal_order(rng, order)
    if keep:
        drop = set(rng.sample(order, keep))
        victims = [v for v in victims if v not in drop]
    if rng.random() < 0.2:
        victims = victims[:rng.randrange(2, len(victims) + 1)]
    rms = ['rmclient %d' % v for v in victims]
    where1 = rng.choice(['top', 'timer', 'read'])
    where2 = rng.choice({'top': ['same', 'same', 'timer', 'closed'], 'timer': ['same', 'same', 'closed'], 'read': ['same', 'closed']}[where1])
    if where1 == 'read' and (len(chunks(fails)) > 1 or (where2 == 'same' and len(chunks(fails + rms)) > 1)):
        where1 = 'timer'                                  # too long for one onRead: a chain of timers of the same tick does it
    if nrecv:
        ops.append('recvq ' + ' '.join(rng.choice('zzze') for _ in range(nrecv)))
    if nsend:
        ops.append('sendq ' + ' '.join('e' for _ in range(nsend)))
    ready = []
    tacts = []                                            # behaviour of the timer phase, spread over timers t0, t1, … of the same tick
    if where1 == 'top':
        ops += fails
        if where2 == 'same':
            ops += rms
        elif where2 == 'timer':
            tacts = rms
    elif where1 == 'timer':
        tacts = fails + (rms if where2 == 'same' else [])
    else:
        ready.append('c%d=1' % order[0])
        ops.append(on_line('c%d' % order[0], 'read', fails + (rms if where2 == 'same' else [])))
    if tacts:
        iv = rng.choice([1, 5])
        parts = chunks(tacts)
        if where1 == 'timer' and where2 == 'same' and rng.random() < 0.5:
            parts = chunks(fails) + chunks(rms)
        for k, part in enumerate(parts):
            ops.append('timer %d %d' % (k, iv))
            ops.append(on_line('t%d' % k, 'act', part))
        ops.append('adv %d' % iv)
    if where2 == 'closed':
        ops.append(on_line('c%d' % order[0], 'closed', chunks(rms)[0]))
    # the clients that reach the closing pass: some remove themselves in onClosed, some stay (and may fail again later)
    for i in order:
        x = rng.random()
        if x < 0.5:
            ops.append('on c%d closed 0 0 / rmclient %d' % (i, i))
        elif x < 0.6:
            ops.append('on c%d closed 0 0 / rmclient %d / rmclient %d' % (i, rng.choice(order), i))
    dt = rng.choice([0, 0, 1])
    items = ['%d%s' % (dt, ':' + ','.join(ready) if ready else ''), '0', '0', '1']
    ops.append('run ' + ' '.join(items))
    if rng.random() < 0.6:
        # second wave: new clients (they get the pool slots and the set items of the removed ones) and the survivors fail together
        m = rng.randrange(3, 12)
        news = list(range(30, 30 + m))
        ops += ['pair %d' % k for k in news]
        both = news + [i for i in order if rng.random() < 0.5]
        rng.shuffle(both)
        both = both[:18]
        ops.append('recvq ' + ' '.join('z' for _ in both))
        ops += ['read %d' % k for k in both]
        ops += ['rmclient %d' % k for k in removal_order(rng, both)[:rng.randrange(0, len(both) + 1)]]
        for k in news:
            if rng.random() < 0.5:
                ops.append('on c%d closed 0 0 / rmclient %d' % (k, k))
        ops.append('run 0 0 1')
    return ops


def case_mt(rng, big=False):
    """rounds on the real kernel (real eventfd/epoll, real time) with a loop thread and one or two interrupting threads: interrupt()
    before / during / racing with run(), stalls around the write to the event descriptor, a host-name lookup (getaddrinfo interposed)
    completing together with an interrupt, removal of an establisher whose lookup is pending, clear()"""
    rounds = []
    for _ in range(rng.randrange(8, 30 if big else 18)):
        x = rng.random()
        us = rng.choice([0, 0, 1, 5, 20, 50, 100, 300, 1000])
        st = rng.choice('nnnwp')
        if x < 0.2:
            rounds.append('b%s0' % st)
        elif x < 0.45:
            rounds.append('d%s%d' % (st, us))
        elif x < 0.65:
            rounds.append('r%s%d' % (st, us))
        elif x < 0.7:
            rounds.append('n')
        elif x < 0.78:
            rounds.append('2%d' % us)
        elif x < 0.86:
            rounds.append(rng.choice(['hf', 'ho', 'ho', 'Hf', 'x', 'x']))
        elif x < 0.93:
            rounds.append('g%d' % rng.choice([0, 100, 1000, 3000]))
        else:
            rounds.append('c')
    ops = []
    if rng.random() < 0.3:
        ops.append('interrupt')
    k = 0
    while k < len(rounds):             # several mt operations per case: the threads are created and joined per operation
        n = rng.randrange(3, 12)
        ops.append('mt ' + ' '.join(rounds[k:k + n]))
        k += n
    return ops


def cases_exhaustive():
    """small exhaustive scope: two clients and a timer; client 0's onRead runs every sequence of at most two actions of a
    fixed alphabet, both orders of the two clients in the epoll result"""
    alpha = ['rmclient 0', 'rmclient 1', 'suspend 1', 'resume 1', 'write 1 3', 'read 0', 'interrupt', 'rmtimer 0', 'timer 1 1',
             'pair 2', 'adv 2', 'suspend 0']
    seqs = [[a] for a in alpha] + [[a, b] for a in alpha for b in alpha]
    out = []
    for acts in seqs:
        for ready in ('c0=1,c1=3', 'c1=3,c0=1'):
            out.append(['pair 0', 'pair 1', 'timer 0 2', 'sendq w', 'write 1 4', 'recvq z', 'sendq w 2',
                        'on c0 read 0 0' + ''.join(' / ' + a for a in acts),
                        'on c1 read 0 0 / read 1', 'on c1 closed 0 0 / rmclient 1', 'on c0 closed 0 0 / rmclient 0',
                        'on t0 act 0 0 / write 1 1',
                        'run 0:%s 2:c1=3 2' % ready, 'run 0'])
    return out


SMOKE = [
    ['timer 1 10', 'timer 2 10', 'pair 1', 'on t1 act 0 0 / rmtimer 2 / write 1 5', 'sendq 2', 'on c1 read 0 0 / read 1', 'recvq z',
     'on c1 closed 0 0 / rmclient 1', 'run 10 0:c1=3 5:c1=1'],
    ['listen 0', 'connect 0', 'on l0 accepted 5 1 / write 5 3 / suspend 5', 'on l0 accepted 6 0 / rmclient 6', 'on e0 connected 7 1 / rmestab 0',
     'on c5 closed 0 0 / rmclient 5', 'sendq e', 'run 0:l0=1,e0=2 0:l0=1 0:l0=1 3'],
    ['timer 1 5', 'timer 2 5', 'timer 3 5', 'timer 4 5', 'timer 5 5', 'timer 6 5', 'on t1 act 0 0 / rmtimer 3 / rmtimer 5 / rmtimer 1',
     'on t2 act 0 0 / timer 7 1', 'run 5 5 5'],
    ['pair 1', 'pair 2', 'pair 3', 'on c1 read 0 0 / rmclient 2 / rmclient 1', 'on c3 read 0 0 / suspend 3 / interrupt', 'run 0:c1=1,c2=1,c3=1 0:c3=1',
     'pair 4', 'run 0'],
    ['pair 1', 'interrupt', 'interrupt', 'run 5', 'run 0:c1=1'],
    # a client removed by the onAccepted that announces it although that callback hands a callback object back (fixes/C14/01)
    ['listen 0', 'on l0 accepted 5 1 / rmclient 5', 'on c5 closed 0 0', 'on c5 read 0 0', 'run 0:l0=1 0:c5=1 0'],
    # a timer created in onClosed: the loop must not sleep past its due time (fixes/C14/02)
    ['pair 1', 'on c1 read 0 0 / read 1', 'recvq z', 'on c1 closed 0 0 / timer 0 1 / rmclient 1', 'run 0:c1=1 7'],
    # a client that stays readable while it has a send backlog (level-triggered): the write readiness must be served
    ['pair 1', 'sendq w', 'write 1 5', 'on c1 read 0 0 / read 1', 'on c1 read 0 0 / read 1', 'recvq 3 3', 'run 0:c1=3 0:c1=3 0:c1=1'],
    # round 5: signals while the loop waits (epoll_wait fails with EINTR): run() goes on, also with an interrupt pending
    ['pair 1', 'timer 0 5', 'run 2! 5! 0:c1=1 3!', 'interrupt', 'run 1!'],
    # an uptime of 24.9 days and a timer of 49.7 days + 5 ms
    ['adv 2147483645', 'timer 0 4294967301', 'timer 1 5', 'run 5 5', 'rmtimer 1', 'run 4294967286 5 5'],
    # round 6: twelve clients (more than the 8 buckets of the closing set) fail their read in the same round and are removed oldest
    # first / the rest from the first onClosed, newest first: no callback for a client whose remove() has returned
    ['pair %d' % i for i in range(12)] + ['recvq ' + ' '.join('z' for _ in range(12))] + ['read %d' % i for i in range(12)] +
    ['rmclient %d' % i for i in range(6)] + ['on c6 closed 0 0' + ''.join(' / rmclient %d' % i for i in (10, 9, 8, 7)), 'on c11 closed 0 0 / rmclient 11', 'run 0 0'],
    ['mt g0 ho g1000 b0'],
]


def unmap(bits, mask, kind):
    """python mirror of Socket::Poll::unmapEvents on the four registrations (independent oracle)"""
    rd = mask in (8209, 8213)
    wr = mask in (8212, 8213)
    r = set()
    if bits & (1 | 4 | 8) and rd:
        r.add('A' if kind == 'l' else 'R')
    if (bits & 2) or (not r and bits & (4 | 8)):
        if wr:
            r.add('C' if kind == 'e' else 'W')
    return r


LEVEL_WAITS = 3


def undelivered(case, obs):
    """bounded liveness on the implementation's log ("every registered socket that is readable, writable-with-backlog, acceptable or
    connected is EVENTUALLY dispatched"): a registered socket the simulated epoll reported with an event kind of its interest must be
    dispatched (first observable effect of the dispatch) before the loop has come back from LEVEL_WAITS further epoll_wait calls (calls
    that end run() - an interrupt arrived together with the events - do not count), unless it was re-registered or removed meanwhile.
    The simulated epoll is level triggered (what was reported and not acted upon is reported again by every later epoll_wait, and the end of the script is held back for up to 3 such calls), so a loop that merely drops a buffered event
    and picks it up from the next epoll_wait passes, a loop that never serves the socket does not.  Returns a reason or None."""
    runs = [l.split()[1:] for l in case if l.split() and l.split()[0] == 'run']
    nrun = 0
    items = []
    k = 0
    reg = {}
    expect = {}
    tocount = None       # the sockets that were waiting for their dispatch when the loop entered epoll_wait (line number of that wait)
    cur = None           # [entries of the script item being handed out, first entry not yet reported, line] (a caller with a smaller array gets it in pieces)

    def parse(it):
        out = []
        if ':' in it:
            for part in it.split(':', 1)[1].split(','):
                if part:
                    e, b = part.split('=')
                    out.append((e, int(b)))
        return out

    def report(entries, at):
        for e, b in entries:
            if e in reg:
                fl = unmap(b, reg[e], e[0])
                if fl and e not in expect:
                    expect[e] = ('W' if 'W' in fl else sorted(fl)[0], at, 0)

    def served(e, kinds):
        if e in expect and expect[e][0] in kinds:
            expect.pop(e)

    for n, l in enumerate(obs):
        t = l.split()
        if not t:
            continue
        if cur is not None and cur[3]:          # the rest of the item comes with the next call (`item more`)
            if t[0] == 'item' and t[1] == 'more':
                cur[2], cur[3] = n, False
        elif cur is not None:
            if t[0] == 'partial':
                report(cur[0][cur[1]:int(t[1])], cur[2])
                cur[1], cur[3] = int(t[1]), True
                continue
            if t[0] == 'merged':                 # a caller with a larger array takes the continuation item in the same call
                report(cur[0][cur[1]:], cur[2])
                cur = [parse(items[k]) if k < len(items) else [], 0, n, False]
                k += 1
                continue
            report(cur[0][cur[1]:], cur[2])
            cur = None
        if tocount is not None and t[0] not in ('item', 'rereport', 'interrupt', 'partial', 'merged'):
            waiting, at_wait = tocount
            tocount = None
            if t[0] != 'ret':
                for e in sorted(waiting):
                    if e in expect:
                        what, at, cnt = expect[e]
                        if cnt + 1 >= LEVEL_WAITS:
                            return ('ready socket %s (%s, first reported at line %d) is still not dispatched after %d further epoll_wait calls that '
                                    'reported it again (last one at line %d)' % (e, what, at, LEVEL_WAITS, at_wait))
                        expect[e] = (what, at, cnt + 1)
        if t[0] == 'ctl':
            if t[1] == 'del':
                reg.pop(t[2], None)
            else:
                reg[t[2]] = int(t[3])
            expect.pop(t[2], None)
        elif t[0] == 'run':
            items = runs[nrun] if nrun < len(runs) else []
            nrun += 1
            k = 0
        elif t[0] in ('removed', 'deferred'):
            expect.pop(t[1], None)
        elif t[0] == 'introret' and t[2] == '0':
            expect.pop(t[1], None)
        elif t[0] == 'wait':
            tocount = (set(expect), n)
        elif t[0] == 'item' and t[1] == 'script':
            if k < len(items):
                cur = [parse(items[k]), 0, n, False]
                k += 1
        elif t[0] == 'send' and t[-1] == 'd':
            served(t[1], 'W')
        elif t[0] == 'cb' and t[2] == 'write':
            served(t[1], 'W')
        elif t[0] == 'cb' and t[2] == 'read':
            served(t[1], 'R')
        elif t[0] == 'cb' and t[2] == 'closed':
            served(t[1], 'RW')
        elif t[0] == 'accept':
            served(t[1], 'A')
        elif t[0] == 'soerr':
            served(t[1], 'C')
    return None


class C14(Check):
    id = 'C14'
    comp = 'ServerLoop'
    extracted = ['coq/ServerLoop/model.mli', 'coq/ServerLoop/model.ml', 'ocaml/zconv.ml', 'ocaml/serverloop_driver.ml']
    harness_sources = ['harness/serverloop.cpp', 'harness/serverloop_kernel.cpp']
    has_spec = False
    per_case_timeout = 6
    level_text = ('Theorems in Coq 8.16 about an executable model of Server::run, the epoll variant of Socket::Poll, the timer queue, the pools, '
                  'the closing set and interrupt (coq/ServerLoop): for every fuel and every history of operations, callback behaviours, clocks, '
                  'epoll results and send/recv/accept/SO_ERROR outcomes the log of the model is accepted by four monitors that are the reading of '
                  'the property text (ServerLoopSpec: timers / life times, registrations and event kinds / failed read-write answered by onClosed / '
                  'interrupt and run), and what acceptance means is proved on the raw log: the (n+1)-th activation of a timer is the one due at '
                  'creation + (n+1)*interval, is not early, and no live timer is due earlier; the loop never waits past the due time of a live timer '
                  '(time-out taken after everything that can create timers, so no catch-up bursts of its own making) and - under the environment hypothesis Env, '
                  'intervals > 0 and a clock that is never set back - never with a negative time-out, which for epoll_wait means "without limit" '
                  '(wait_timeout_nonnegative, monitor wmon); "once per interval" is read as once per ELAPSED interval: a late loop fires one activation per missed '
                  'interval (catch-up), an implementation that skips missed intervals would be rejected; no callback after remove() '
                  '(also from inside callbacks, with a buffered event, and for the client removed by the very onAccepted/onConnected that announces it; '
                  'Poll::set/remove prune); dispatched kinds are registered kinds (onRead, the send of a backlog, onWrite, accept, connect); a failed '
                  'read/write (a zero-length write with an empty backlog counts as failed, as in the code) is followed by onClosed - in the model before the next '
                  'wait/dispatch (monitor cmon), judged on the implementation in the weaker reading the text supports: before the loop has waited twice (monitor cmt; '
                  'cmon implies cmt: closed_clause_text_level); a socket leaves the poll set only as part of its removal, its connect dispatch or its closing '
                  '(socket_stays_registered, monitor kmon - a live listener or client that is silently unregistered can never be dispatched again); '
                  'run() returns only after interrupt(), and once interrupted the next wait is the last; a pending interrupt makes run() return '
                  'after the buffered events have been served; a ready registered socket that the (fair) epoll reports and no callback removes or suspends is '
                  'dispatched within a bounded number of iterations; the timer and closing phases of an iteration terminate with explicit fuel bounds and run() '
                  'is never cut off by fuel once the fuel is large enough - a statement about the proof device and the FINITE epoll script of the model, whose exhaustion '
                  'injects an interrupt from another thread; it is not a claim that Server::run returns by itself (37 theorems, closed under the global context). '
                  'The model is tied to the code by running the extracted model and the real Server (ASan/UBSan build of the working tree, '
                  'kernel simulated by symbol interposition, private state of Server and Socket::Poll - pools, timer queue, closing set, selected events - '
                  'read for the state lines) on the same histories, line by line; six extracted monitors (timers, life times/registrations/kinds, closed clause at text '
                  'level, interrupt/run, no wait without limit, sockets stay registered - all six accept the model\'s log: model_log_accepted_text_level) and an '
                  'independent bounded-liveness oracle on a LEVEL-TRIGGERED simulated epoll judge the implementation\'s own log. The simulated epoll_wait returns as many '
                  'events as the caller asks for (70..130 sockets ready at once: a caller that asks for more than its array holds is caught by ASan), can fail with EINTR, '
                  'and reports a negative time-out with nothing ready as a hang; clock bases and intervals beyond 2^31 / 2^32 are generated. '
                  'Round 6: 9..18 clients (more than the 8 buckets of Server\'s set of closing clients, so that two share a bucket whatever their addresses) '
                  'fail their read/write in the SAME round and are removed in varying orders (oldest first, newest first, interleaved, random; from the same callback, '
                  'from a timer of the same tick, from the first onClosed, at top level), a second wave re-uses the pool slots; judged by the life-time monitor: no '
                  'callback for a client whose remove() has returned. '
                  'Cross-thread interrupt(), signals, host-name lookups (failing and succeeding) and clear() run on the real kernel with real threads.')
    level_note = ('Round 4 closed the two liveness clauses inside the model, under hypotheses that are written out in the theorems: '
                  '(a) termination of one iteration: timer phase with explicit fuel bound tlag+1 (timer_phase_terminates; measure = over the entries due at '
                  'the sampled now: 1 + (now - due)/interval - a late timer fires once per missed interval, so the measure is not "number of due timers"), '
                  'closing phase with explicit fuel bound cmeas+1 = |closing set| + write/read actions left in the callback scripts + 1 '
                  '(closing_phase_terminates, no hypothesis); both bounds are attained in the Examples. Hypothesis Env: timer intervals > 0 and no callback '
                  'sets the clock back; it holds in every state reached by operations that respect it (environment_hypothesis_reachable). Fuel is only a '
                  'device: more fuel gives the same run (more_fuel_same_run), enough fuel exists for every state and finite epoll script '
                  '(enough_fuel_exists, run_always_returns) - that whole-run bound is EXISTENTIAL, not explicit. '
                  '(b) eventual_dispatch: FULL UNDER (i) the fairness of the simulated level-triggered epoll, an explicit hypothesis on the epoll script '
                  '(the next epoll item reports the socket with bits that mean readiness for every interest containing its current one - once reported the '
                  'socket stays buffered, so only that item is constrained), (ii) callback scripts that neither remove the socket nor suspend it '
                  '(writes/reads/resumes on it are allowed, they only widen the interest) and a client that is not suspended: the log then continues with an '
                  'event of its dispatch - or with the return of run() when an interrupt intervenes - within (events already buffered + 1 + length of the '
                  'reported list) iterations; from an empty buffer 1 + length of the reported list (the +1 is a wake-up consumed without serving anything '
                  'when the event-descriptor count is positive and no interrupt is pending). Whether the REAL kernel keeps (i) is not proved: it is the '
                  'assumption; the harness simulates it. '
                  '(c) interrupt liveness (interrupt_makes_run_return, interrupt_reaches_wait): with the interrupted flag set and the event-descriptor '
                  'count positive at the head of an iteration, run() returns after at most |buffer|+1 iterations - buffered events are served before the loop '
                  'looks at the event descriptor, so it is NOT always the current iteration; with an empty buffer it is (the log continues EvNow .. EvWait '
                  'EvItem EvRunRet). The theorems are stated for runs that are not cut off by fuel (stuck = false) and, in the *_total forms, for every '
                  'sufficiently large fuel under Env. The structural invariant SInv and CbEx None (every pooled client has a callback object) that appear as '
                  'hypotheses of the liveness theorems are invariants of every reachable state (structural_invariant_reachable, pooled_clients_have_callback_objects). '
                  'run_always_returns / enough_fuel_exists hold ONLY because the model\'s epoll script is a finite list and its exhaustion lets another thread call '
                  'interrupt() (ServerLoopModel.epoll_wait, items = []): they say that fuel never cuts a run off, not that Server::run returns without interrupt() - '
                  'that run() returns only after interrupt() is run_returns_only_after_interrupt. '
                  '(d) round 5: wait_timeout_nonnegative needs Env (a timer with a negative interval created in onClosed gives a negative time-out in the model AND in '
                  'the code); wmon rejects a negative time-out only while a timer is live. Eventual dispatch on the implementation is a BOUNDED oracle: a socket the '
                  'level-triggered simulated epoll reported inside its interest must be served before the loop has come back from 3 further epoll_wait calls that did '
                  'not end run() (the unchanged code serves it before the next call; a loop that drops buffered events when an interrupt arrives and picks them up '
                  'from the next epoll_wait passes). The closed clause is judged as "onClosed or removal before the loop has waited twice" (cmt); the stronger '
                  '"before the loop waits again" (cmon) holds in the model and is compared through the correspondence only - a closing pass moved in front of the '
                  'timer phase is not reported as a failing input any more. '
                  '(e) round 6: the closing set of the model is a list without a bound (every theorem speaks about any number of clients that failed in one round; '
                  'Example ex_many_closing_clients_in_one_round: twelve in the set, nine removed by the first onClosed, onClosed for the other three only); the hash set '
                  'behind Server\'s closing set is property C02\'s code - C14 sees its defects only through their consequence (a removed client still called, a '
                  'closing client never called), which stream closing provokes by pigeonhole on the 8 buckets. '
                  'Validated by correspondence only: insertion order among EQUAL due times. The 64-entry event array of Poll::poll is not in the model: an item is any '
                  'list of ready sockets, and a crowd of 70..130 ready sockets is written as a first item of 63 and continuation items, which is what consecutive '
                  'epoll_wait calls with a 64-entry array return; an EINTR failure of epoll_wait is for the loop the same as an item without ready sockets (the model '
                  'needs no new input class for either). Not modelled in Coq, exercised by the real-kernel rounds of the harness only (stream mt: a loop thread and '
                  'one or two interrupting threads on the real eventfd, stalls injected around the write to the event descriptor, getaddrinfo '
                  'interposed; oracle = every round ends with run() returning within 3 s after interrupt() returned and never before it was called, '
                  'exactly one onAbolished for a failed lookup, none after remove(), after a SUCCESSFUL lookup the establisher is registered for its connect event or '
                  'abolished, a handled signal (EINTR) does not end run(), clear() leaves nothing behind): cross-thread timing of interrupt(), '
                  'DNS-resolver establishers, Server::clear(). In the model interrupt() is the flag being set at an arbitrary point (before run, from '
                  'any callback, or while the loop waits). The Windows/poll() variants of Socket::Poll are not covered. Dropping the mutex around the '
                  'interrupted flag is not detectable here (no observable difference on this platform; mutants/C14/15). '
                  'Lateness caused by the duration of callbacks themselves (the time-out is relative to the clock sampled at the start of the '
                  'iteration) is outside the timer clause. Not judged: a suspended client without backlog (interest 0) whose peer hangs up is still '
                  'reported by epoll (HUP/ERR cannot be masked); Poll::poll buffers it with flags 0, the loop treats it as a wake-up and spins until the '
                  'client is resumed or removed - no clause of the property speaks about it. '
                  'Never executed by the check: the failure returns of listen/connect/pair (socket system calls failing), the onAbolished after a '
                  'failed socket option on a connected establisher, a false return of Poll::poll (the epoll variant never returns false; EINTR is answered by a wake-up), '
                  'and the else-branch deleteClient of the closing pass '
                  '(dead code: pooled_clients_have_callback_objects). The five option setters are called (stream pending/random: opts; mt: nodelay/keepalive) '
                  'but the options themselves are not observed. '
                  'Trusted: Coq kernel, ServerLoopSpec (the monitors), extraction + OCaml driver, the harness and its simulated kernel.')
    technique = 'Coq proof (invariants + monitor coupling by induction over fuel and histories) + extracted-model/monitor vs implementation correspondence on a simulated kernel + real-thread rounds on the real kernel'
    rule = ('cases = histories of top-level operations (create/remove timers, clients, listeners, establishers; write/read/suspend/resume/interrupt/clock), '
            'queued callback behaviours (remove others / self, create, write, read, suspend, interrupt) and run() calls with scripted epoll items; streams: '
            'timers (up to 9 timers, equal due times, removal/creation from onActivated), pending (3..12 sockets ready in one round, victims removed or '
            're-registered while their event is buffered), io (failed reads/writes incl. zero-length writes, backlog, hang-ups, removal before the closing '
            'pass), interrupt (before/during run, double), announce (clients removed by the onAccepted/onConnected that announces them, with and without a '
            'callback object handed back), late (timers created in onClosed and other callbacks), mt (real kernel + real threads: interrupt() before / during / '
            'racing with run(), two interrupters, signals, lookups completing together with an interrupt, removal with a pending lookup, clear()), wide (clock bases next to '
            '2^31 / 2^32 / 2^41, intervals and waits of 24.9 days and more), crowd (70..130 sockets ready at once), closing (9..18 clients failing their read/write in one round, removed '
            'oldest first / newest first / interleaved / at random before and inside the closing pass, second wave on the re-used slots), items that fail with EINTR in every stream, random (also '
            'the socket-option setters), scope '
            '(exhaustive in the thorough tier: every sequence of <= 2 actions of a 12-action alphabet inside an onRead callback x both epoll orders); '
            'non-trivial = the implementation made >= 2 callbacks inside a run() (mt: >= 3 rounds completed); distinct = distinct op text')
    assumptions = ['level-triggered epoll: a ready registered descriptor and a readable event descriptor are reported by every epoll_wait (fairness of the kernel; the simulated kernel keeps it: what it reported and the loop has not acted upon is reported again)',
                   'epoll_wait hands a caller with a 64-entry array at most 63 sockets and the event descriptor per call, the rest with the following calls (the array itself is not modelled; an overflow is left to ASan)',
                   'timer intervals > 0 and a clock that callbacks never set back (Env) for termination of the timer phase and of run() (proved under it; not needed for the safety theorems); callback scripts are finite by construction',
                   'eventual dispatch: the next epoll item reports the socket as ready (explicit hypothesis `reports`), no callback removes or suspends it, a client is not suspended; on the implementation: served within 3 further epoll_wait calls',
                   'a failed read/write is answered by onClosed before the loop has waited twice (the text says "followed by"; the bound is the check\'s)',
                   'the application does not touch an object after its remove() returned; identities of removed objects are never reused by the test (pool slots may be)',
                   'mt rounds: a run() that has not returned 3 s after interrupt() returned counts as hung (machine load can in principle produce a false alarm)']

    def __init__(self):
        Check.__init__(self)
        h = hashlib.sha256(open(os.path.join(VERIF, 'harness', 'serverloop_kernel.h'), 'rb').read()).hexdigest()[:12]
        self.harness_flags = ['-DSLK_HDR_HASH=0x' + h, '-I' + os.path.join(VERIF, 'harness')]

    def nontrivial(self, case, obs):
        if any(l.startswith('mt ') for l in case):
            return sum(1 for l in obs if l.startswith('mt ') and l.endswith(' ok')) >= 3
        cbs = sum(1 for l in obs if l.startswith(('cb ', 'act ', 'intro ')))
        return cbs >= 2 and any(l.startswith('run') for l in case)

    def streams(self, tier, rng):
        th = tier == 'thorough'
        m = 6 if th else 1
        out = [Stream('smoke', [list(c) for c in SMOKE])]
        out.append(Stream('timers', [case_timers(rng, th) for _ in range(150 * m)], note='equal due times, removal/creation from timer callbacks'))
        out.append(Stream('pending', [case_pending(rng, th) for _ in range(200 * m)], note='many sockets ready in one round, removal/re-registration while an event is buffered'))
        out.append(Stream('io', [case_io(rng, th) for _ in range(150 * m)], note='failed reads/writes, backlog, hang-ups'))
        out.append(Stream('interrupt', [case_interrupt(rng, th) for _ in range(100 * m)], note='interrupt before/during run'))
        out.append(Stream('announce', [case_announce(rng, th) for _ in range(120 * m)], note='clients removed by the onAccepted/onConnected that announces them'))
        out.append(Stream('late', [case_late(rng, th) for _ in range(100 * m)], note='timers created in onClosed / other callbacks; the loop must not sleep past a due time'))
        out.append(Stream('wide', [case_wide(rng, th) for _ in range(60 * m)], note='values beyond 32 bits: clock bases next to 2^31 / 2^32 / 2^41, timer intervals and waits of 24.9 days and more'))
        out.append(Stream('crowd', [case_crowd(rng, th) for _ in range(6 * (3 if th else 1))], note='70..130 sockets ready at the same moment (more than the 64-entry event array takes), handed out 63 per epoll_wait'))
        out.append(Stream('closing', [case_closing(rng, th) for _ in range(100 * m)], note='9..18 clients whose read/write fails in the same round (more than the 8 buckets of the closing set), removed in varying orders before / inside the closing pass'))
        out.append(Stream('mt', [case_mt(rng, th) for _ in range(40 * m)], note='real kernel, real threads: interrupt() racing with run(), lookups completing together with an interrupt, clear()'))
        out.append(Stream('random', [case_random(rng, th) for _ in range(200 * m)]))
        if th:
            out.append(Stream('scope', cases_exhaustive(), exhaustive=True,
                              note='exhaustive: every sequence of <= 2 actions (alphabet of 12) in an onRead callback, two clients ready in both orders'))
        else:
            ex = cases_exhaustive()
            out.append(Stream('scope', [ex[i] for i in sorted(rng.sample(range(len(ex)), 60))], note='sample of the exhaustive scope of the thorough tier'))
        return out

    # a tree on which (nearly) every case crashes or hangs: give up early instead of paying one process start / one watchdog period per case
    CRASH_BUDGET = 120       # crashes count 1, watchdog time-outs 3
    MIN_BLOCK = 8            # every stream still runs its first cases (so that every stream can report a failing input)

    def run_impl(self, cases, tag='impl'):
        wd = os.path.join(BUILD, self.id, 'run')
        spent = getattr(self, '_crash_spent', 0)
        res, crashes = [], {}
        k = 0
        while k < len(cases):
            if spent >= self.CRASH_BUDGET and k >= self.MIN_BLOCK:
                log('[C14] %d harness crashes/time-outs so far: the remaining %d cases of `%s` are not run' % (spent, len(cases) - k, tag))
                res += [['! notrun'] for _ in cases[k:]]
                break
            n = self.MIN_BLOCK if spent >= self.CRASH_BUDGET or k == 0 else 64
            r, c = run_exe_on_cases(self.exes['impl'], cases[k:k + n], wd, tag, is_impl=True, per_case_timeout=self.per_case_timeout)
            res += r
            for i, v in c.items():
                crashes[k + i] = v
                spent += 3 if 'timeout' in str(v[0]) else 1
            k += n
        self._crash_spent = spent
        return res, crashes

    def monitor(self, obs_per_case, tag='mon'):
        d = os.path.join(BUILD, self.id, 'run')
        os.makedirs(d, exist_ok=True)
        p = os.path.join(d, tag + '.obs')
        with open(p, 'w') as f:
            for i, o in enumerate(obs_per_case):
                f.write('%d mark\n' % i)
                for l in o:
                    f.write('%d %s\n' % (i, l))
        rc, out, err = sh([self.exes['model'], 'monitor', p], timeout=600)
        if rc != 0:
            raise RuntimeError('monitor failed: ' + err[-2000:])
        res = {}
        for l in out.split('\n'):
            t = l.split()
            if len(t) >= 5 and t[1] == 'verdict':
                res[int(t[0])] = (int(t[2]), int(t[3]), t[4])
        return res

    def judge(self, cases, impl_obs, spec_obs):
        fails = []
        ver = self.monitor(impl_obs)
        for i, (c, o) in enumerate(zip(cases, impl_obs)):
            mt = [l for l in o if l.startswith('mt ') and ' FAIL ' in l]
            if mt:
                t = mt[0].split()
                head = ('[real-thread round `%s…` fails: %s]' % (t[2][0], ' '.join(t[4:])[:44])).ljust(82, '.')
                fails.append((i, 0, head + ' ' + mt[0]))
                continue
            bad = [l for l in o if l.startswith('!')]
            if bad:
                fails.append((i, 0, 'implementation: ' + bad[0]))
                continue
            v = ver.get(i, (0, 0, '-'))
            if v[0] != 0:
                # the head of the reason (80 characters) tells the groups of failures apart: monitor and kind of the rejected event
                head = ('[monitor-%s rejects a `%s` event]' % ('TRCIWK'[v[0] - 1], v[2].split('_')[0])).ljust(82, '.')
                fails.append((i, v[1], head + ' monitor %d rejects the implementation\'s log at event %d `%s`: %s' % (v[0], v[1], v[2].replace('_', ' '), MON_NAMES[v[0]])))
                continue
            u = undelivered(c, o)
            if u:
                fails.append((i, 0, u))
        return fails


CHECK = C14
