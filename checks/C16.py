import os, sys, re, itertools
from vf import Check, Stream, hexs, run_exe_on_cases, BUILD
sys.path.insert(0, os.path.join(os.path.dirname(os.path.abspath(__file__)), '..', 'gen'))
import tables_xml

ALPHABET = [b'<', b'>', b'/', b'!', b'-', b'?', b'=', b'"', b"'", b'&', b';', b'#', b'a', b' ', b'\n']
NAME_START = b'abcxyzABZ_:' + bytes([0xc3, 0xe2])
NAME_CHARS = NAME_START + b'019-.'
HIGH = bytes(range(0x80, 0x100))
# UTF-8 letters whose bytes look like white space / separators in other encodings: a-grave (c3 a0), NEL (c2 85), LINE SEPARATOR, BOM, NBSP
UTF8_PIECES = [b'\xc3\xa0', b'\xc2\x85', b'\xe2\x80\xa8', b'\xef\xbb\xbf', b'\xc2\xa0', b'\xc3\xa9', b'\xe2\x82\xac', b'\xf0\x9f\x98\x80', b'\xc4\x80']
WS = [b' ', b' ', b'\n', b'\t', b'\r\n', b'\r', b'  ']


def H(b):
    return hexs(b)


# ---- python-side reference for "line and column lie inside the text" (search oracle) ---------
def positions(text):
    """set of (line, col) of every offset 0..len(text); CR LF, lone CR, lone LF end a line"""
    out = set()
    l, k, cr = 1, 1, False
    out.add((l, k))
    for c in text:
        if c == 13:
            l, k, cr = l + 1, 1, True
        elif c == 10:
            if cr:
                k, cr = 1, False
            else:
                l, k, cr = l + 1, 1, False
        else:
            k, cr = k + 1, False
        out.add((l, k))
    return out


def unhex(h):
    return b'' if h == '-' else bytes.fromhex(h)


def position_in_message(msg):
    """(line, column) as decimal strings read out of the text a static wrapper leaves in Error::getErrorString(), or None.
    The property constrains the two numbers, not the wording: the number behind the word `line` and the number behind the
    word `column` / `col` when both words occur, else the first two free-standing integers of the text (not glued to a
    letter, digit, '-' or '.': `e1`, `UTF-8`, `1.0` are no positions).  None = no position can be read from this text: then
    the oracle makes no claim about it."""
    num = r'(?<![\w.\-])(-?\d+)(?![\w.])'
    ml = re.search(r'(?i)\bline\b[^\w\-]{0,3}' + num, msg)
    mc = re.search(r'(?i)\bcol(?:umn)?\b[^\w\-]{0,3}' + num, msg)
    if ml and mc:
        return ml.group(1), mc.group(1)
    if ml or mc:
        return None
    ints = re.findall(num, msg)
    if len(ints) >= 2:
        return ints[0], ints[1]
    return None


OPEN_SELF = 'corpus/C16/open/self-containing.ops'
OUT_OPS = ('parse', 'parseok', 'parseg', 'str', 'rt', 'vdump', 'ent', 'parse2', 'pinto', 'rtinto', 'sparse', 'fload', 'fmiss', 'fsave', 'fsl')


# ---- document generator -----------------------------------------------------------------------
class Gen:
    def __init__(self, rng, comments=True, ctext=False, ws=True, maxdepth=4):
        self.r = rng
        self.comments = comments
        self.ctext = ctext
        self.ws = ws
        self.maxdepth = maxdepth

    def name(self):
        r = self.r
        n = bytes([r.choice(NAME_START)]) + bytes(r.choice(NAME_CHARS) for _ in range(r.choice([0, 0, 1, 2, 5])))
        k = r.random()
        if k < 0.12:          # any byte >= 0x80 is a name byte (XmlSpec.name_char)
            at = r.randrange(len(n) + 1)
            n = n[:at] + bytes(r.choice(HIGH) for _ in range(r.choice([1, 1, 2, 3]))) + n[at:]
        elif k < 0.22:        # real UTF-8 sequences
            at = r.randrange(len(n) + 1)
            n = n[:at] + r.choice(UTF8_PIECES) + n[at:]
        elif k < 0.25:        # names may start with a digit, '-' or '.' (wf_name asks for name characters only)
            n = bytes([r.choice(b'019-.')]) + n
        return n

    def comment(self):
        r = self.r
        body = b''.join(r.choice([b'c', b' ', b'-', b'--', b'\n', b'\r\n', b'<', b'>', b'->', b'x y', b'&', b'"', b'<!--', b'- -', b'\r'])
                        for _ in range(r.randrange(0, 5)))
        while b'-->' in body + b'--':
            body = body.replace(b'-->', b'->', 1)
            if b'-->' in body + b'--':
                body = body.rstrip(b'-') + b'.'
        return b'<!--' + body + b'-->'

    def gap(self, must=False):
        """white space (and comments) between tokens"""
        r = self.r
        out = b''
        if must:
            out += r.choice(WS)
        if not self.ws:
            return out
        for _ in range(r.choice([0, 0, 0, 1, 2])):
            if self.comments and r.random() < 0.35:
                out += self.comment()
            else:
                out += r.choice(WS)
        return out

    def numref(self):
        r = self.r
        v = r.choice([0x41, 0x7f, 0x80, 0x7ff, 0x800, 0xffff, 0x10000, 0x10ffff, 0x110000, 0xd800, 9, 10, 13, 34, 38, 60,
                      r.randrange(1, 0x110000), 2 ** 32 - 1, 2 ** 32, 2 ** 32 + 65, 2 ** 64 - 1, 2 ** 64, 2 ** 64 + 66, 10 ** 25])
        form = r.random()
        s = str(v)
        if form < 0.08:
            s = '+' + s
        elif form < 0.16:
            s = '-' + s
        elif form < 0.22:
            s = ' ' + s
        elif form < 0.28:
            s = s + 'x'
        elif form < 0.32:
            s = '000' + s
        elif form < 0.35:
            s = 'x' + s
        elif form < 0.38:
            s = ''
        elif form < 0.40:
            s = '-'
        return b'&#' + s.encode() + b';'

    def chardata(self, quote=None):
        """escaped character data; quote = the delimiter to avoid (attribute) or None (text)"""
        r = self.r
        parts = []
        for _ in range(r.choice([0, 1, 1, 2, 3, 6])):
            k = r.random()
            if k < 0.40:
                parts.append(bytes(r.choice(b'abc xyz09.,:;=/!?#-_') for _ in range(r.randrange(1, 6))))
            elif k < 0.55:
                parts.append(r.choice([b'&lt;', b'&gt;', b'&amp;', b'&quot;', b'&apos;']))
            elif k < 0.70:
                parts.append(self.numref())
            elif k < 0.78:
                parts.append(r.choice([b'&', b'&foo;', b'&lt', b'&;', b'& amp;', b'&#;', b'&#x41;', b'&amp', b'&&amp;', b';', b'&a&lt;;']))
            elif k < 0.84:
                parts.append(r.choice([b'"', b"'"]) if quote is None else (b"'" if quote == b'"' else b'"'))
            elif k < 0.90:
                parts.append(bytes([r.choice([9, 11, 12, 1, 31, 127, 128, 255, 0xc3, 0xa9])]))
            elif k < 0.95:
                parts.append(b'>')
            elif quote is None:
                parts.append(r.choice([b'\n', b'\r\n', b'\r', b'\n\n', b' \n ']))
            else:
                parts.append(b'\t')
        return b''.join(parts)

    def element(self, depth=0):
        r = self.r
        nm = self.name()
        out = b'<' + self.gap() + nm
        for _ in range(r.choice([0, 0, 1, 1, 2, 3])):
            q = r.choice([b'"', b"'"])
            out += self.gap(must=True) + self.name() + self.gap() + b'=' + self.gap() + q + self.chardata(q) + q
        out += self.gap()
        if r.random() < 0.3:
            return out + b'/>'
        out += b'>'
        prev_text = False
        for _ in range(r.choice([0, 1, 1, 2, 3, 4]) if depth < self.maxdepth else r.choice([0, 1])):
            k = r.random()
            if k < 0.45 and depth < self.maxdepth:
                out += self.gap() + self.element(depth + 1)
                prev_text = False
            elif k < 0.85 and not prev_text:
                t = self.chardata(None)
                if not t.strip(b' \t\r\n\x0b\x0c') or t.lstrip(b' \t\r\n\x0b\x0c')[:1] in (b'', ):
                    t = b'x' + t
                lead = r.choice([b'', b'', b' ', b'\n ', b'  '])
                if self.ctext and r.random() < 0.6:
                    lead = r.choice([self.comment(), b' ' + self.comment(), self.comment() + b' ', self.comment() + self.comment()])
                out += lead + t
                if self.ctext and r.random() < 0.5:
                    out += self.comment() + r.choice([b'', b'y', b' z'])
                prev_text = True
            else:
                out += self.gap()
        out += self.gap() + b'</' + self.gap() + nm + self.gap() + b'>'
        return out

    def pi(self):
        r = self.r
        body = b''.join(r.choice([b'xml', b' version="1.0"', b'?', b' ', b'\n', b'\r\n', b'\r', b'a?b', b'>', b'<', b'??'])
                        for _ in range(r.randrange(0, 5)))
        return b'<?' + body + b'?>'

    def document(self):
        r = self.r
        out = self.gap()
        for _ in range(r.choice([0, 1, 1, 2])):
            out += self.pi() + self.gap()
        out += self.element()
        out += r.choice([b'', b'', b'\n', b' <!--t-->', b'junk'])
        return out


# ---- documents that are well formed BY CONSTRUCTION, and the same document with comments / PIs inserted ------------------
# The class (a subset of XML 1.0 documents without DTD, plus what the property text adds: a comment wherever white space is
# allowed, i.e. also between the tokens of a tag):
#   document ::= gap (pi gap)* element gap            pi only in the decorated rendering
#   element  ::= '<' name (S attr)* S? ('/>' | '>' content '</' name S? '>')
#   attr     ::= name S? '=' S? quoted                value: no '<', no '&' except predefined / decimal references, no line break, not its own quote
#   content  ::= (chardata | element)*                chardata: no '<', no '&' except references
#   name     ::= name characters of XmlSpec.name_char (ASCII letters, digits, _ - . : and every byte >= 0x80), distinct attribute names
# A document is produced as a list of pieces; ('g', must) marks a place where white space is allowed (must: required).
# plain rendering: white space only; decorated rendering: the SAME white space plus comments (and PIs in front of the root).
# A comment is never put directly behind a name (the name scanner ends at / > = or white space only: disclosed in
# level_note) - behind a name the decorated gap starts with white space.
class WF:
    PI_COMMENT_OPENER = True
    TEXT = b'abc xyz09.,:;=/!?#-_>"\'\t' + bytes([0x80, 0xa0, 0xc3, 0xa9, 0xff, 1, 0x7f])
    REFS = [b'&lt;', b'&gt;', b'&amp;', b'&quot;', b'&apos;', b'&#65;', b'&#10;', b'&#233;', b'&#8364;', b'&#60;', b'&#38;']

    def __init__(self, rng, maxdepth=3):
        self.r = rng
        self.g = Gen(rng)
        self.maxdepth = maxdepth

    def names(self, n):
        out = []
        while len(out) < n:
            nm = self.g.name()
            if nm not in out:
                out.append(nm)
        return out

    def atoms(self, quote):
        r = self.r
        out = []
        for _ in range(r.choice([0, 1, 1, 2, 3, 5])):
            k = r.random()
            if k < 0.6:
                a = bytes(r.choice(self.TEXT) for _ in range(r.randrange(1, 6)))
                if quote:
                    a = a.replace(quote, b'q')
                out.append(a)
            elif k < 0.85:
                out.append(r.choice(self.REFS))
            elif quote is None:
                out.append(r.choice([b'\n', b'\r\n', b'\r', b' \n ', b'  ']))
            else:
                out.append(r.choice([b' ', b'\t', b'  ']))
        return out

    def element(self, depth, pieces):
        r = self.r
        nm = self.g.name()
        pieces.append(('l', b'<' + nm))
        for k in self.names(r.choice([0, 0, 1, 1, 2, 3])):
            q = r.choice([b'"', b"'"])
            pieces += [('g', True), ('l', k), ('g', False), ('l', b'='), ('g', False), ('l', q + b''.join(self.atoms(q)) + q)]
        pieces.append(('g', False))
        if r.random() < 0.3:
            pieces.append(('l', b'/>'))
            return
        pieces.append(('l', b'>'))
        for _ in range(r.choice([0, 1, 1, 2, 3, 4]) if depth < self.maxdepth else r.choice([0, 1])):
            if r.random() < 0.5 and depth < self.maxdepth:
                pieces.append(('c', None))
                self.element(depth + 1, pieces)
            else:
                at = self.atoms(None)
                if not b''.join(at).strip(b' \t\r\n\x0b\x0c'):
                    at.append(b'x')
                for a in at:
                    pieces += [('c', None), ('l', a)]
        pieces += [('c', None), ('l', b'</' + nm), ('g', False), ('l', b'>')]

    def pi(self):
        r = self.r
        if r.random() < 0.3:
            return r.choice([b'<?xml version="1.0"?>', b'<?xml version="1.0" encoding="UTF-8"?>', b'<?xml version=\'1.0\' standalone="yes"?>'])
        body = b''.join(r.choice([b'x', b' ', b'a="?"', b'?', b'>', b'<', b'\n', b'\r\n', b'\r', b'??', b'? >', b'-->'] + ([b'<!--'] if WF.PI_COMMENT_OPENER else []))
                        for _ in range(r.randrange(0, 5)))
        while b'?>' in body:
            body = body.replace(b'?>', b'? >')
        t = self.g.name()
        return b'<?' + t + ((b' ' + body) if body else b'') + b'?>'

    def pair(self):
        """(plain, decorated)"""
        r = self.r
        pieces = [('p', None)]
        self.element(0, pieces)
        pieces.append(('e', None))
        plain, deco = b'', b''
        after_name = False
        for kind, v in pieces:
            if kind == 'l':
                plain += v
                deco += v
                after_name = v[-1:] not in (b'>', b'=', b'"', b"'") and not v.startswith(b'&')
                continue
            if kind in ('g', 'c', 'e'):
                ws = r.choice(WS) if (kind == 'g' and v) else (r.choice(WS) if r.random() < 0.25 else b'')
                if kind == 'c' and r.random() < 0.7:
                    ws = b''                  # most content positions: nothing in the plain document
                plain += ws
                d = ws
                n = r.choice([0, 0, 1, 1, 2])
                for _ in range(n):
                    c = self.g.comment()
                    where = r.random()
                    if kind == 'g' and after_name and not d:
                        d = r.choice(WS)
                    if kind == 'g' and after_name:
                        d = d + c + (r.choice(WS) if where < 0.5 else b'')      # behind a name: white space first
                    elif where < 0.4:
                        d = c + d
                    elif where < 0.8:
                        d = d + c
                    else:
                        d = d + c + r.choice(WS)
                deco += d
                after_name = False
            else:                             # 'p': in front of the root
                ws = r.choice([b'', b'', b'\n', b' ', b'\r\n'])
                plain += ws
                d = ws
                for _ in range(r.choice([0, 1, 2, 2, 3])):
                    d += r.choice([self.pi(), self.pi(), self.g.comment()]) + r.choice([b'', b'', b'\n', b' ', b'\r\n\t'])
                deco += d
        return plain, deco


def mutate(rng, d):
    d = bytearray(d)
    for _ in range(rng.choice([1, 1, 2, 3])):
        if not d:
            break
        k = rng.random()
        i = rng.randrange(len(d))
        if k < 0.25:
            del d[i]
        elif k < 0.40:
            d[i:i] = d[i:i + 1]
        elif k < 0.65:
            d[i:i + 1] = rng.choice(ALPHABET)
        elif k < 0.85:
            d[i:i] = rng.choice(ALPHABET + [b'<!--', b'-->', b'</', b'/>', b'<?', b'?>', b'\r', b'\r\n', b'&#', b'&lt;'])
        else:
            del d[rng.randrange(len(d)):]
    return bytes(b for b in d if b != 0)


# ---- element trees (round trip) -----------------------------------------------------------------
def tree_ops(rng, inclass=True, maxdepth=4, depth=0, pool=None):
    """op lines building one element; in-class trees satisfy wf_tree of XmlSpec.v"""
    r = rng
    g = Gen(r)
    nm = g.name()
    if not inclass and r.random() < 0.15:
        nm = r.choice([b'', b'a b', b'a>', b'a/', b'a=b', b'!--x', b'?x', b'a<', b'"a"', b'/'])
    ops = ['open ' + H(nm)]
    for _ in range(r.choice([0, 0, 1, 2, 3])):
        k = g.name()
        if not inclass and r.random() < 0.1:
            k = r.choice([b'', b'a b', b'k=', b'k"'])
        ops.append('attr %s %s' % (H(k), H(value(r))))
    prev_text = False
    for _ in range(r.choice([0, 1, 1, 2, 3, 4]) if depth < maxdepth else r.choice([0, 1])):
        if r.random() < 0.5 and depth < maxdepth:
            ops += tree_ops(r, inclass, maxdepth, depth + 1) + ['close']
            prev_text = False
        elif not prev_text or not inclass:
            t = value(r)
            if inclass:
                if not t.strip(b' \t\r\n\x0b\x0c'):
                    t = t + b'x'
            elif r.random() < 0.2:
                t = r.choice([b'', b' ', b'\n', b' \t '])
            ops.append('text ' + H(t))
            prev_text = True
    return ops


def value(r):
    parts = []
    for _ in range(r.choice([0, 1, 1, 2, 3, 5])):
        k = r.random()
        if k < 0.35:
            parts.append(bytes(r.choice(b'abc xyz09.,:;=/!?#-_') for _ in range(r.randrange(1, 6))))
        elif k < 0.60:
            parts.append(r.choice([b'"', b"'", b'&', b'<', b'>', b'&amp;', b'&#65;', b'&lt', b'<!--', b'-->', b'</a>', b']]>', b'&#', b';']))
        elif k < 0.75:
            parts.append(r.choice([b'\n', b'\r', b'\r\n', b'\t', b' ', b'  ', b'\n\n']))
        elif k < 0.85:
            parts.append(bytes([r.randrange(1, 256)]))
        elif k < 0.92:
            parts.append(r.choice([b' /x', b'  /', b'\n/>', b' =', b' "q', b" 'q", b' >']))
        else:
            parts.append(bytes(r.randrange(1, 256) for _ in range(r.randrange(1, 8))))
    return b''.join(parts)


# ---- handle histories ---------------------------------------------------------------------------
def variant_history(r, n):
    ops = []
    ns = 6
    names = [b'a', b'b', b'c', b'dd', b'e1']
    for s in range(r.choice([2, 3])):
        ops.append(r.choice(['velem %d %s' % (s, H(r.choice(names))), 'vtext %d %s' % (s, H(r.choice(names))), 'velem %d %s' % (s, H(r.choice(names)))]))
    for _ in range(n):
        k = r.random()
        i, j = r.randrange(ns), r.randrange(ns)
        if k < 0.10:
            ops.append('velem %d %s' % (i, H(r.choice(names))))
        elif k < 0.16:
            ops.append('vtext %d %s' % (i, H(r.choice(names))))
        elif k < 0.19:
            ops.append('vnull %d' % i)
        elif k < 0.34:
            ops.append('vcopy %d %d' % (i, j))
        elif k < 0.46:
            ops.append('vassign %d %d' % (i, j))
        elif k < 0.51:
            ops.append('vsettext %d %s' % (i, H(r.choice(names))))
        elif k < 0.63:
            ops.append('vname %d %s' % (i, H(r.choice(names))))
        elif k < 0.70:
            ops.append('vattr %d %s %s' % (i, H(r.choice([b'k', b'l', b'm'])), H(r.choice(names))))
        elif k < 0.80:
            ops.append('vchild %d %d' % (i, j))
        elif k < 0.85:
            ops.append('vsub %d %d %d' % (i, j, r.randrange(3)))
        elif k < 0.89:
            ops.append('vsubmut %d %d %s' % (i, r.randrange(3), H(r.choice(names))))
        elif k < 0.91:
            ops.append('vsubsettext %d %d %s' % (i, r.randrange(3), H(r.choice(names))))
        elif k < 0.94:
            ops.append('velcopy %d %d' % (i, j))
        elif k < 0.955:
            ops.append('vassignsub %d %d %d' % (i, i if r.random() < 0.6 else j, r.randrange(3)))
        elif k < 0.97:
            ops.append('vassignsubm %d %d' % (i, r.randrange(3)))
        elif k < 0.985:
            ops.append('vsubassign %d %d %d' % (i, r.randrange(3), j if j != i else (i + 1) % ns))
        else:
            ops.append('vdel %d' % i)
        if r.random() < 0.35:
            ops.append('vdump')
    ops.append('vdump')
    return ops


def held_history(r, n):
    """handle histories with a reference obtained from toElement() and kept: `vhold i` ... `vwriteheld nm`.  Between the
    two, anything may happen to the other slots (also copies of slot i: then the write is seen by the copies - the spec is
    silent, the model must agree with the code); an op that targets slot i ends the use of the reference."""
    base = [l for l in variant_history(r, n) if l != 'vdump']
    names = [b'p', b'q', b'rr', b's9']
    out, holding = [], False
    for l in base:
        k = r.random()
        if k < 0.22:
            out.append('vhold %d' % r.randrange(4))
            holding = True
        elif k < 0.50 and holding:
            out.append('vwriteheld ' + H(r.choice(names)))
            out.append('vdump')
        out.append(l)
        if r.random() < 0.25:
            out.append('vdump')
    out.append('vwriteheld ' + H(r.choice(names)))
    out.append('vdump')
    return out


class C16(Check):
    id = 'C16'
    comp = 'Xml'
    extracted = ['coq/Xml/model.mli', 'coq/Xml/model.ml', 'ocaml/zconv.ml', 'ocaml/xml_driver.ml']
    harness_sources = ['harness/xml.cpp']
    per_case_timeout = 2
    technique = 'proof'
    level_text = ''   # filled below
    level_note = ''
    rule = ''
    assumptions = []

    def gen_tables(self):
        return [tables_xml.gen_xml()]

    def run_impl(self, cases, tag='impl'):
        # watchdog (2 s per case) AND a memory limit: the non-terminating parse of the unrepaired
        # code allocates without bound (RLIMIT_AS is unusable under ASan)
        # A tree on which (nearly) every case crashes or hangs costs one harness restart (and up to 2 s of watchdog) per case:
        # a stream is given up after STREAM_CAP crashes / timeouts, and once RUN_CAP have been seen in the whole run every further
        # stream after 6 more; the cases not run are marked `! notrun` (dropped by vf, ignored by judge).  After 20 watchdog
        # hits the watchdog is 1 s (a healthy tree never gets there; the slowest case of the streams takes 0.3 s).
        # symbolize=0: the report text is not needed (the kind comes from the summary line), symbolising costs 0.15-1 s per crash.
        env = {'ASAN_OPTIONS': 'detect_leaks=0:abort_on_error=0:allocator_may_return_null=1:max_allocation_size_mb=1024:hard_rss_limit_mb=3000:symbolize=0'}
        rundir = os.path.join(BUILD, self.id, 'run')
        shrinking = tag.startswith('shr_')
        res, crashes, i = [], {}, 0
        seen, size = 0, 40
        while i < len(cases):
            cap = self.STREAM_CAP if self.crashes_total < self.RUN_CAP else 6
            if seen >= cap and not shrinking:
                res += [['! notrun'] for _ in cases[i:]]
                break
            # pieces of 40 cases, doubling up to 320 while nothing crashes, back to 40 after a crash: the cap is looked at often
            # (vf itself stops one call only after 400 restarts)
            chunk = cases[i:i + size]
            wd = self.per_case_timeout if self.timeouts_total < 20 else 1
            r, c = run_exe_on_cases(self.exes['impl'], chunk, rundir, tag, is_impl=True, per_case_timeout=wd, env=env)
            # a watchdog hit may be the machine, not the library (the slowest healthy case needs 0.4 s; under a load of 16+ a 64 KiB
            # round trip was seen to pass 2 s once): the first 3 hits of a run are run again alone with a 10 s watchdog and
            # count only if they hit that too.  A tree that hangs pays 30 s for this, once.
            if not shrinking:
                for k in sorted(k for k, v in c.items() if v[0] == 'timeout'):
                    if self.retried >= 3:
                        break
                    self.retried += 1
                    r1, c1 = run_exe_on_cases(self.exes['impl'], [chunk[k]], rundir, tag + '_retry', is_impl=True, per_case_timeout=10, env=env)
                    if not c1:
                        r[k] = r1[0]
                        del c[k]
            res += r
            for k, v in c.items():
                crashes[i + k] = v
            seen += len(c)
            self.timeouts_total += sum(1 for v in c.values() if v[0] == 'timeout')
            if not shrinking:
                self.crashes_total += len(c)
            i += size
            size = 40 if c else min(320, size * 2)
        return res, crashes

    STREAM_CAP = 150
    RUN_CAP = 150
    crashes_total = 0
    timeouts_total = 0
    retried = 0

    def shrink(self, case, pred, budget=400):
        # every probe of a hanging case costs the watchdog: a small budget on a tree that crashes / hangs a lot
        return Check.shrink(self, case, pred, budget=(30 if self.crashes_total > 20 else budget))

    # -- oracle -------------------------------------------------------------------------------
    def judge(self, cases, impl_obs, spec_obs):
        fails = Check.judge(self, cases, impl_obs, spec_obs)
        # one report per kind of failure of the reuse ops: a constant prefix of >= 80 characters, the variable part behind it
        EXT = 'extension beyond the property text (the file API is not named there; judged as parse / toString through a file): '
        WHY = {'fload': EXT + 'fload: Xml::load / Xml::Parser::load of a file does not answer like parse on the bytes of the file '
                        '(first field 1 = same answer as parse; then the answer): ',
               'fmiss': EXT + 'fmiss: load of a file that does not exist must return false and leave the target Element as it was (failure as reported | target afterwards): ',
               'fsl': EXT + 'fsl: Xml::save then Xml::Parser::load of the same file does not give back the same names, attributes, text and nesting: ',
               'parse2': 'parse2: one Parser object used for two texts (flag 1: also one target Element) does not answer like a fresh Parser with a fresh Element '
                         '(first field 1 = same answers; then the two answers): ',
               'pinto': 'pinto: parse into an Element that already holds a name, attributes or content does not answer like parse into a fresh Element '
                        '(first field 1 = same answer; then the answer): ',
               'parseok': 'parseok: a document that is well formed by construction (element, attributes, character data, references; comments where white space is '
                          'allowed, processing instructions in front of the root) is not accepted: ',
               'parseg': 'parseg: a document and the same document with comments inserted where white space is allowed (and processing instructions in front of the root) '
                         'must both be accepted and give the same names, attributes, nesting and character data (first field 1; then the two answers): ',
               'rtinto': 'rtinto: toString then parse into an Element that already holds the tree does not give back the same names, attributes, text and nesting: '}
        for n, (i, k, reason) in enumerate(fails):
            outs = [l for l in cases[i] if l.split(' ')[0] in OUT_OPS]
            kind = outs[k].split(' ')[0] if k < len(outs) else ''
            if kind in WHY:
                fails[n] = (i, k, WHY[kind] + reason)
            elif kind == 'fsave':
                fails[n] = (i, k, (EXT + 'fsave: the answer of the implementation is not the one the specification expects for this operation: ').ljust(84) + reason)
            elif kind:
                fails[n] = (i, k, ('%s: the answer of the implementation is not the one the specification expects for this operation: ' % kind).ljust(84) + reason)
        fails.sort(key=lambda f: sum(len(l) for l in cases[f[0]]))
        bad = {i for (i, _, _) in fails}
        for i, (c, o) in enumerate(zip(cases, impl_obs)):
            if i in bad:
                continue
            # no crash, no sanitizer report, no watchdog: the spec never predicts one
            k = next((k for k, l in enumerate(o) if l.startswith('!')), None)
            if k is not None:
                fails.append((i, k, 'implementation ends with `%s` (a parse/serialise/handle operation must terminate without a sanitizer report)' % o[k]))
                continue
            # error positions lie inside the text (every entry point; for a reused Parser: inside the text of that call)
            outs = [l for l in c if l.split(' ')[0] in OUT_OPS]
            last_str = None
            for k, (opl, line) in enumerate(zip(outs, o)):
                t = line.split(' ')
                a = opl.split(' ')
                if a[0] == 'str' and t[0] == 'str':
                    last_str = unhex(t[1])
                found = []        # (text, line, column)
                if a[0] in ('parse', 'parseok') and t[0] == 'err':
                    found.append((unhex(a[1]), t[1], t[2]))
                elif a[0] == 'parseg':
                    secs = line.split(' | ')
                    for text, sec in zip(a[1:3], secs[1:3]):
                        u = sec.split(' ')
                        if u[0] == 'err':
                            found.append((unhex(text), u[1], u[2]))
                elif a[0] in ('rt', 'rtinto') and len(t) > 1 and t[1] == 'err' and last_str is not None:
                    found.append((last_str, t[2], t[3]))
                elif a[0] == 'parse2':
                    secs = line.split(' | ')
                    for text, sec in zip(a[2:4], secs[1:3]):
                        u = sec.split(' ')
                        if u[0] == 'err':
                            found.append((unhex(text), u[1], u[2]))
                elif a[0] == 'pinto':
                    secs = line.split(' | ')
                    u = secs[1].split(' ') if len(secs) > 1 else []
                    if u and u[0] == 'err':
                        found.append((unhex(a[1]), u[1], u[2]))
                elif a[0] == 'fload' and len(t) > 5 and t[3] == 'err':
                    found.append((unhex(a[2]), t[4], t[5]))
                elif a[0] == 'fsl' and len(t) > 1 and t[1] == 'err' and last_str is not None:
                    found.append((last_str, t[2], t[3]))
                elif (a[0] == 'fload' and len(t) > 4 and t[3] == 'serr') or (a[0] == 'sparse' and len(t) > 1 and t[0] == 'serr'):
                    # the static wrappers report through the text in Error::getErrorString() only: the position is read out of
                    # it whatever its wording; a text without a readable position is not judged (the text as a whole is
                    # compared with the model's: correspondence only)
                    msg = unhex(t[4] if a[0] == 'fload' else t[1]).decode('latin-1')
                    p = position_in_message(msg)
                    if p:
                        found.append((unhex(a[2]), p[0], p[1]))
                    elif msg == 'stale':                      # the harness's sentinel: nothing was reported at all
                        found.append((unhex(a[2]), None, None))
                hit = False
                for text, l_, c_ in found:
                    if l_ is None:
                        fails.append((i, k, '%s: the static wrapper returned false and left Error::getErrorString() as it was before the call: no line and column reported' % a[0]))
                        hit = True
                        break
                    cut = text.find(b'\0')
                    if cut >= 0:
                        text = text[:cut]
                    if (int(l_), int(c_)) not in positions(text):
                        fails.append((i, k, '%s: error position line %s column %s is not the position of any offset of the text' % (a[0], l_, c_)))
                        hit = True
                        break
                if hit:
                    break
        # vf makes ONE report per reason shape (first 80 characters, digits apart) from the shortest case of the group, and a case
        # that matches a listed open finding only prints KNOWN-FINDING.  The witness of the open finding fails in a `vdump` line (or
        # with a crash) like any other handle defect: with the common prefix it was the shortest case of the group `vdump: the
        # answer ...` and swallowed every other failing handle history (seeded s3 / t1 came out as no-failing-input-found once the
        # entry was registered).  A case that matches a listed open finding gets a reason prefix of its own, hence a group of its own.
        for n, (i, k, reason) in enumerate(fails):
            kf = self.match_known(cases[i], reason)
            if kf:
                fails[n] = (i, k, ('open finding listed in known_findings.json, witness %s: ' % kf.get('witness', '-')).ljust(84) + reason)
        return fails

    def nontrivial(self, case, obs):
        kinds = {l.split(' ')[0] for l in case}
        if 'ent' in kinds:
            return any(x.startswith('ent ') and not x.startswith('ent err') for x in obs)
        if kinds & {'parseg', 'parseok'}:
            return any(len(l) >= 24 for l in case)
        if kinds & {'parse2', 'pinto', 'sparse', 'fload'}:
            return any(len(l) >= 24 for l in case)
        if kinds & {'fmiss', 'fsave', 'fsl'}:
            return sum(1 for l in case if l.split(' ')[0] in ('open', 'attr', 'text')) >= 2
        if 'rtinto' in kinds:
            return sum(1 for l in case if l.split(' ')[0] in ('open', 'attr', 'text')) >= 2
        if 'parse' in kinds:
            big = any(l.startswith('parse ') and len(l) >= 6 + 2 * 8 for l in case)
            return any(x.startswith('ok') for x in obs) or (big and any(x.startswith('err') and not x.startswith('err 1 1 ') for x in obs))
        if 'rt' in kinds:
            return sum(1 for l in case if l.split(' ')[0] in ('open', 'attr', 'text')) >= 3
        if 'vdump' in kinds:
            return (any(l.startswith(('vcopy', 'vassign', 'velcopy', 'vchild', 'vsub ', 'vsubassign')) for l in case)    # vassign also matches vassignsub / vassignsubm
                    and any(l.startswith(('vname', 'vattr', 'vsubmut', 'vsettext', 'vsubsettext', 'vchild', 'vwriteheld', 'vsubassign')) for l in case))
        return False

    # -- generators ---------------------------------------------------------------------------
    def streams(self, tier, rng):
        th = tier == 'thorough'
        out = []

        # 1. generated valid documents
        cases = []
        for _ in range(6000 if th else 900):
            g = Gen(rng, comments=rng.random() < 0.7, ws=rng.random() < 0.85, maxdepth=rng.choice([1, 2, 3, 5]))
            cases.append(['parse ' + H(g.document())])
        out.append(Stream('valid', cases, note='generated documents: comments between tokens, processing instructions, entities, numeric references, all three line break forms'))

        # 2. mutations
        cases = []
        for _ in range(8000 if th else 1200):
            g = Gen(rng, comments=rng.random() < 0.5, maxdepth=2)
            cases.append(['parse ' + H(mutate(rng, g.document()))])
        out.append(Stream('mutations', cases, note='1-3 byte edits (delete, duplicate, replace/insert from the token alphabet, truncate) of generated documents'))

        # 3. comments next to text (the look-ahead/rewind paths)
        cases = []
        for _ in range(300 if th else 40):
            g = Gen(rng, ctext=True, maxdepth=rng.choice([0, 1, 2]))
            cases.append(['parse ' + H(g.document())])
        hand = [b'<a>x<!--c-->y</a>', b'<a><!--c-->x</a>', b'<a> <!--c--> x</a>', b'<a>x<!--c--></a>', b'<a><!--c--></a>', b'<a><!--c',
                b'<a>x<!--c', b'<a>  /x</a>', b'<a>\n "q</a>', b'<a> =</a>', b'<a> x', b'<a><!--a--><!--b-->t<b/><!--c-->u</a>',
                b'<a>\r\n<!--\r-->\rz</a>', b'<a> &lt;<!---->&gt;</a>']
        cases += [['parse ' + H(d)] for d in hand]
        out.append(Stream('comment_text', cases, note='comments directly in front of / behind text, failed look-ahead tokens'))

        # 4. small exhaustive scopes
        n = 4 if th else 3
        strings = [b''.join(w) for k in range(0, n + 1) for w in itertools.product(ALPHABET, repeat=k)]
        per = 60
        cases = [['parse ' + H(s) for s in strings[i:i + per]] for i in range(0, len(strings), per)]
        out.append(Stream('exhaustive', cases, exhaustive=True, note='every byte string of length <= %d over { < > / ! - ? = " \' & ; # a SP LF }' % n))
        m = 3 if th else 2
        inner = [b''.join(w) for k in range(0, m + 1) for w in itertools.product(ALPHABET, repeat=k)]
        wrapped = [b'<a>' + w + b'</a>' for w in inner] + [b'<a ' + w + b'>' for w in inner] + [b'<a a="' + w + b'"/>' for w in inner] + \
                  [b'<!--' + w + b'--><a/>' for w in inner] + [b'<?' + w + b'?><a/>' for w in inner]
        cases = [['parse ' + H(s) for s in wrapped[i:i + per]] for i in range(0, len(wrapped), per)]
        out.append(Stream('exhaustive_ctx', cases, exhaustive=True, note='every string of length <= %d over the same alphabet as content, inside a start tag, inside an attribute value, inside a comment and inside a processing instruction' % m))

        # 5. entity / numeric reference boundaries through attribute values and text
        cases = []
        nums = [0, 1, 9, 10, 13, 34, 38, 39, 60, 62, 127, 128, 2047, 2048, 0xd7ff, 0xd800, 0xdfff, 0xffff, 0x10000, 0x10ffff, 0x110000,
                2 ** 31, 2 ** 32 - 1, 2 ** 32, 2 ** 32 + 65, 2 ** 63, 2 ** 64 - 1, 2 ** 64, 2 ** 64 + 65, 10 ** 30]
        forms = ['%d', '+%d', '-%d', ' %d', '%dx', '00%d', '\t%d', '%d ', '- %d', '+-%d']
        for v in nums:
            for f in forms:
                ref = b'&#' + (f % v).encode() + b';'
                cases.append(['parse ' + H(b'<a v="p' + ref + b'q">' + ref + b'</a>')])
        for e in [b'&lt;', b'&gt;', b'&amp;', b'&quot;', b'&apos;', b'&LT;', b'&lt', b'&;', b'&', b'&&', b'&amp;amp;', b'&#;', b'&#', b'&#x;', b'&l;t;', b'&lt;&gt;&amp;&quot;&apos;',
                  b'&#10;', b'&#13;', b'&#10', b'a&b;c&lt;d', b'&amp', b'&gt;;', b';&', b'&#65;&#66']:
            cases.append(['parse ' + H(b'<a v="' + e + b'" w=\'' + e + b'\'>x' + e + b'</a>')])
        out.append(Stream('entities', cases, note='numeric references at the UTF-8 and 32/64-bit boundaries in 10 spellings, named/unknown/unterminated entities'))

        # 6. element trees: serialise, parse, compare
        cases = []
        for _ in range(5000 if th else 800):
            inclass = rng.random() < 0.8
            cases.append(tree_ops(rng, inclass, maxdepth=rng.choice([1, 2, 3, 4])) + ['str', 'rt'])
        for v in [b'\n', b'\r', b'\r\n', b'a\nb', b'"', b"'", b'&', b'<', b'>', b'&amp;', b'&#10;', b' /x', b'  /', b'\t', b' x ', b'x<!--c-->y']:
            cases.append(['open 61', 'attr 6b ' + H(v), 'str', 'rt'])
            cases.append(['open 61', 'text ' + H(v if v.strip() else v + b'x'), 'str', 'rt'])
            cases.append(['open 61', 'open 62', 'close', 'text ' + H(v if v.strip() else v + b'x'), 'open 63', 'close', 'str', 'rt'])
        out.append(Stream('trees', cases, note='random element trees (80% inside the class of the property), values with quotes, ampersands, line breaks, markup look-alikes'))

        # 7. nesting depth up to 1000
        cases = []
        for d in ([1, 10, 100, 500, 999, 1000] if th else [100, 1000]):
            cases.append(['parse ' + H(b''.join(b'<e%d a="%d">' % (i % 7, i) for i in range(d)) + b't' + b''.join(b'</e%d>' % (i % 7) for i in reversed(range(d))))])
            cases.append(['parse ' + H(b'<a>' * d + b'</a>' * (d - 1))])
            cases.append(['open 61', 'attr 6b 76'] * 1 + ['open 62'] * (d - 1) + ['text 78', 'str', 'rt'])
        out.append(Stream('deep', cases, note='nesting depth up to 1000'))

        # 8. handle histories (copies are independent)
        cases = []
        for _ in range(3000 if th else 500):
            cases.append(variant_history(rng, rng.choice([3, 6, 10, 16])))
        out.append(Stream('handles', cases, note='copy / assign / mutable access / nesting / destruction histories over 6 Variant slots'))

        # 9. directed handle histories: the case splits of the copy-on-write proof (toElement on another type / shared /
        #    exclusive block, for the slot itself and for a nested content item; self-append; assignment to itself)
        cases = []
        mk = [['velem 0 61'], ['vtext 0 61'], ['vnull 0'], ['velem 0 61', 'velem 1 62', 'vchild 0 1'], ['velem 0 61', 'vtext 1 62', 'vchild 0 1']]
        share = [[], ['vcopy 1 0'], ['vcopy 1 0', 'vcopy 2 1'], ['velem 3 78', 'vchild 3 0'], ['velcopy 4 0'], ['vsub 5 0 0']]
        act = [['vname 0 7a'], ['vattr 0 6b 76'], ['vchild 0 0'], ['vchild 0 1'], ['vsubmut 0 0 7a'], ['vsettext 0 7a'], ['vassign 0 0'], ['vassign 0 1'],
               ['vsub 0 0 0'], ['vdel 0'], ['vnull 0'], ['velcopy 0 0'], ['vcopy 0 0'], ['vsubmut 3 0 79'], ['vsub 1 3 0', 'vname 1 77'],
               ['vassignsub 0 0 0'], ['vassignsubm 0 0'], ['vdel 1', 'vassignsub 0 0 0'], ['vdel 1', 'vassignsubm 0 0'], ['vassignsub 1 0 0'], ['vassignsub 0 3 0'],
               ['vassignsub 3 3 0'], ['vsub 1 0 0', 'vassign 1 0'],
               ['vsubassign 0 0 1'], ['vsubassign 0 0 3'], ['vsubassign 3 0 0'], ['vsubassign 1 0 0'], ['vsub 5 0 0', 'vsubassign 5 0 0'], ['vsubassign 0 0 2', 'vsubassign 0 0 1'],
               # operator=(const String&) with a text DIFFERENT from the old one, on every handle that may share its block: the copy, the copy of the copy,
               # the slot the child was appended from, the content item itself through its element (source, enclosing element, element copy), the item copied out
               ['vsettext 1 7a'], ['vsettext 2 7a'], ['vsettext 5 7a'], ['vsubsettext 0 0 7a'], ['vsubsettext 1 0 7a'], ['vsubsettext 4 0 7a'], ['vsubsettext 3 0 7a'],
               ['vsub 2 4 0', 'vsettext 2 7a'], ['vsub 2 0 0', 'vsubsettext 2 0 7a'], ['vsettext 0 7a', 'vsettext 1 79']]
        for a in mk:
            for b in share:
                for c in act:
                    cases.append(a + b + ['vdump'] + c + ['vdump'] + ['vname 1 71', 'vdump', 'vdel 0', 'vdump'])
        # a node replaced by a copy of its own child / grandchild (the right-hand side of operator= lives inside the value that is released):
        # chains a(b(c(d))) whose inner blocks are held by the chain alone, or also by another slot
        for keep in ([], ['vcopy 4 1'], ['vcopy 4 0'], ['vsub 4 0 0']):
            chain = ['velem 0 61', 'velem 1 62', 'velem 2 63', 'vtext 3 74', 'vchild 2 3', 'vchild 1 2', 'vattr 1 6b 76', 'vchild 0 1'] + keep + ['vdel 1', 'vdel 2', 'vdel 3']
            for hoist in (['vassignsub 0 0 0'], ['vassignsubm 0 0'], ['vassignsub 0 0 0', 'vassignsub 0 0 0'], ['vassignsubm 0 0', 'vassignsubm 0 0', 'vassignsubm 0 0'],
                          ['vsub 5 0 0', 'vassignsub 5 5 0', 'vassignsub 0 5 0'], ['vcopy 5 0', 'vassignsubm 5 0', 'vassignsub 0 0 0'],
                          ['vsub 5 0 0', 'vassign 5 0'], ['vsub 5 0 0', 'vassign 0 5'], ['vsub 5 0 0', 'vsubassign 5 0 0'], ['vcopy 5 0', 'vsubassign 0 0 5'],
                          ['vsub 5 0 0', 'vsubassign 0 0 5', 'vdel 5'], ['vsub 5 0 0', 'vsub 5 5 0', 'vsubassign 0 0 5', 'vdel 5']):
                cases.append(chain + ['vdump'] + hoist + ['vdump', 'vname 0 7a', 'vdump', 'vdel 0', 'vdump'])
        out.append(Stream('handles_directed', cases, exhaustive=True,
                          note='every combination of {element, text, null, element with element child, element with text child} x '
                               '{unshared, copied once/twice, nested in another element, element copy, content item copied out} x 39 writes '
                               '(incl. assignment of a Variant from its own content item, of a content item copied out from its ancestor, of a content item '
                               'in place from another Variant - a copy, an ancestor, a descendant; a String with another text assigned to the copy, to the '
                               'slot a child was appended from, to a content item through the source / the enclosing element / the element copy, to an item copied out); '
                               'chains a(b(c(t))) hoisted once, twice, three times, inner blocks held by the chain alone or by another slot'))

        # 9b. a reference obtained from toElement() and kept by the caller (audit finding 3)
        cases = []
        for a in mk:
            for b in share:
                # reference obtained AFTER the sharing: toElement() detaches, the write is private (spec judges)
                cases.append(a + b + ['vhold 0', 'vdump', 'vwriteheld 7a', 'vdump', 'vname 1 71', 'vwriteheld 79', 'vdump', 'vdel 0', 'vdump'])
                # reference obtained BEFORE the sharing: the write is seen by the sharers (spec silent, model = code)
                cases.append(a + ['vhold 0'] + b + ['vdump', 'vwriteheld 7a', 'vdump', 'vname 1 71', 'vwriteheld 79', 'vdump', 'vdel 1', 'vwriteheld 78', 'vdump'])
                for c in act:
                    # the reference ends when the slot is targeted; writes to other slots in between
                    cases.append(a + ['vhold 0'] + b + c + ['vwriteheld 7a', 'vdump'])
        cases.append(['velem 0 61', 'vhold 0', 'vcopy 1 0', 'vwriteheld 62', 'vdump'])        # the witness of xml_copies_independent_refuted_with_held_reference
        cases.append(['velem 0 61', 'vhold 0', 'vwriteheld 62', 'vcopy 1 0', 'vhold 0', 'vwriteheld 63', 'vdump'])
        cases.append(['vhold 3', 'vwriteheld 62', 'vdump', 'vnull 2', 'vhold 2', 'vwriteheld 63', 'vdump', 'vtext 1 74', 'vhold 1', 'vcopy 4 1', 'vwriteheld 64', 'vdump'])
        for _ in range(2500 if th else 450):
            cases.append(held_history(rng, rng.choice([4, 8, 12, 18])))
        out.append(Stream('held_reference', cases, note='`Element& e = v.toElement();` kept across other operations, then `e.type = ...`: obtained after / before the value is shared '
                                                        '(5 block kinds x 6 sharing shapes x 39 intermediate operations), random histories; where the slot was copied after the reference '
                                                        'was taken the spec is silent and only model = implementation is compared'))

        # 10. predefined entities and decimal references (spec = XML 1.0 4.6 / ASCII code points), unknown names
        cases = []
        for nm in [b'lt', b'gt', b'amp', b'apos', b'quot', b'LT', b'l', b'ltt', b'', b'#', b'nbsp', b'#x41', b'#1', b'#9', b'#10', b'#13', b'#32',
                   b'#34', b'#38', b'#39', b'#60', b'#62', b'#65', b'#127', b'#128', b'#255', b'#256', b'#0065', b'#65x', b'# 65', b'#+65', b'#-1']:
            cases.append(['ent ' + H(nm)])
        out.append(Stream('references', cases, exhaustive=True, note='<a v="&NAME;"/> for the five predefined entities, decimal references, malformed and unknown names'))

        # 11. text whose first non-blank byte starts some other token (look-ahead fails, cursor rewinds), for parse and round trip
        cases = []
        firsts = [b'>', b'=', b'"', b"'", b'"x"', b"'x'", b'/', b'/>', b'/ >', b'&', b'&lt;', b'a', b'a=', b'a="', b'-', b'--', b'-->', b'!', b'?', b'?>', b';', b'#']
        leads = [b'', b' ', b'  ', b'\t', b'\n', b'\r\n', b'\r', b' \n ']
        for f in firsts:
            for ld in leads:
                cases.append(['parse ' + H(b'<a>' + ld + f + b'</a>')])
                cases.append(['parse ' + H(b'<a><b/>' + ld + f + b'<c/>' + ld + f + b'</a>')])
                cases.append(['parse ' + H(b'<a><!--c-->' + ld + f + b'<!--d-->' + ld + b'</a>')])
                cases.append(['open 61', 'text ' + H(ld + f), 'str', 'rt'])
        out.append(Stream('lookahead', cases, exhaustive=True,
                          note='text starting (after 8 kinds of white space) with each of 22 byte sequences that begin another token; alone, between elements, next to comments, and serialised'))

        # 12. a NUL inside the buffer: everything behind the first terminator must be ignored
        cases = []
        for _ in range(400 if th else 60):
            g = Gen(rng, maxdepth=2)
            d = g.document()
            k = rng.randrange(len(d) + 1)
            tail = rng.choice([b'', b'>', b'</a>', b'-->', b'"', g.document()])
            cases.append(['parse ' + H(d[:k]), 'parse ' + H(d[:k] + b'\0' + tail)])
        out.append(Stream('embedded_nul', cases, note='a document cut at a random offset, and the same bytes followed by NUL + more text: same result'))
        out += self.streams_reuse(th, rng)
        out += self.streams_wide(th, rng)
        out += self.streams_accept(th, rng)
        # the proposed open finding (a Variant assigned to a content item of its own element: reference cycle): its witness runs only
        # while known_findings.json lists it as open, and then prints KNOWN-FINDING
        if any(k.get('status') == 'open' and k.get('witness') == OPEN_SELF for k in self.known_findings()):
            wc = []
            cur = None
            for line in open(os.path.join(os.path.dirname(os.path.abspath(__file__)), '..', OPEN_SELF)).read().split('\n'):
                if line.startswith('case'):
                    cur = []
                elif line == 'end':
                    if cur is not None:
                        wc.append(cur)
                    cur = None
                elif cur is not None and line and not line.startswith('#'):
                    cur.append(line)
            out.append(Stream('self_containing_open', wc, note='open finding: <content item of v.toElement()> = v'))
        return out

    def streams_accept(self, th, rng):
        """the clauses without a round trip: documents that MUST be accepted, comments / PIs that must not change the tree; name bytes"""
        out = []
        cases = []
        hand = [(b'<a/>', b'<?xml version="1.0"?><?style x?><a/>'), (b'<a k="v"/>', b'<!--c---><a k="v"/>'), (b'<a>text</a>', b'<a><!-- note -->text</a>'),
                (b'<a><b/>tail</a>', b'<a><b/><!-- c -->tail</a>'), (b'<p>one<b>two</b>three</p>', b'<p>one<!--x--><b>two<!--y--></b><!--z-->three</p>'),
                (b'<p>onetwo</p>', b'<p>one<!-- c -->two</p>'), (b'<a k="v" l="w"/>', b'<a <!--1-->k <!--2-->= <!--3-->"v" <!--4-->l="w" <!--5-->/>'),
                (b'<a></a>', b'<?a?><?b ??><?c\n?>\n<!----><!-----><a><!--<a>--></a <!---->>'), (b'<a>x</a>', b'<a>x</a><!--t-->'),
                (b'<a> x </a>', b'<a> <!--c--> x <!--d--> </a>'), (b'<a>&lt;&amp;</a>', b'<a>&lt;<!--&-->&amp;</a>'),
                (b'<a>\r\nx\r\n</a>', b'<a>\r\n<!--\r\n-->x\r<!--\r-->\n</a>'), (b'<r><a/><b/></r>', b'<?p?><!--c--><?q?><r><!--1--><a/><!--2--><b/><!--3--></r>')]
        for a, b in hand:
            cases.append(['parseok ' + H(a), 'parseok ' + H(b), 'parseg %s %s' % (H(a), H(b))])
        for _ in range(5000 if th else 900):
            w = WF(rng, maxdepth=rng.choice([0, 1, 2, 3]))
            a, b = w.pair()
            cases.append(['parseg %s %s' % (H(a), H(b))])
        out.append(Stream('accept', cases, note='documents well formed by construction (class WF of checks/C16.py) must be accepted; the same document with comments inserted where '
                                                'white space is allowed - between the tokens of a tag, anywhere in content, also in the middle of character data and directly in '
                                                'front of it - and with processing instructions and comments in front of the root must be accepted too and give the same names, '
                                                'attributes, nesting and character data (white space apart)'))
        # every name byte: alone, first, last, in an element name and in an attribute name, serialised and parsed back, and inside a document
        cases = []
        name_bytes = [b for b in range(1, 256) if (65 <= b <= 90) or (97 <= b <= 122) or (48 <= b <= 57) or b in b'_-.:' or b >= 128]
        for b in name_bytes:
            for nm in (bytes([b]), b'a' + bytes([b]), bytes([b]) + b'a', b'a' + bytes([b]) + b'z'):
                cases.append(['open ' + H(nm), 'attr %s 76' % H(b'k' + bytes([b])), 'attr %s 77' % H(nm), 'open ' + H(nm), 'close', 'str', 'rt'])
            nm = b'n' + bytes([b]) + b'e'
            cases.append(['parseok ' + H(b'<' + nm + b' ' + nm + b'="v"><' + nm + b'/>t</' + nm + b'>')])
        for u in UTF8_PIECES:
            for nm in (u, b'caf' + u, u + b'x', u + u):
                cases.append(['open ' + H(nm), 'attr %s 76' % H(b'prix' + u), 'open ' + H(nm), 'text 74', 'close', 'str', 'rt'])
                cases.append(['parseok ' + H(b'<' + nm + b' ' + nm + b'="v"><' + nm + b'/>t</' + nm + b'>')])
        out.append(Stream('name_bytes', cases, exhaustive=True,
                          note='every name byte of XmlSpec.name_char (ASCII letters, digits, _ - . : and each of the 128 bytes >= 0x80) alone / first / last / inside an element '
                               'name and an attribute name: serialised and parsed back, and in a document that must be accepted; UTF-8 sequences holding a0, 85, a8'))
        return out

    def streams_wide(self, th, rng):
        """many attributes per element (HashMap grows past its first blocks), many content items, values and names of 1..64 KiB"""
        cases = []
        def big(n, kind):
            if kind == 0:
                return bytes(rng.choice(b'abcdefghijklmnopqrstuvwxyz 0123456789.,;:=/') for _ in range(n))
            if kind == 1:                                   # every byte must be escaped: the reserve arithmetic of escapeString
                return bytes(rng.choice(b'<>&"\'\n\r') for _ in range(n))
            if kind == 2:
                return bytes(rng.randrange(1, 256) for _ in range(n))
            return (value(rng) or b'x') * (n // 4 + 1)
        for na in ([5, 8, 9, 16, 17, 32, 33, 40, 64, 100] if th else [5, 9, 17, 40]):
            ops = ['open ' + H(b'wide')]
            for k in range(na):
                ops.append('attr %s %s' % (H(b'a%d' % k if k % 3 else b'n' + bytes([rng.choice(NAME_CHARS) for _ in range(3)]) + b'%d' % k), H(value(rng))))
            if rng.random() < 0.5:
                ops.append('attr %s %s' % (H(b'a1'), H(b'again')))      # an equal key: replaced in place
            cases.append(ops + ['str', 'rt'])
            cases.append(ops + ['str', 'rtinto'])
            doc = b'<w ' + b' '.join(b'k%d="%d&amp;"' % (k % (na - 1), k) for k in range(na)) + b'>' + b''.join(b'<c i="%d"/>t%d' % (k, k) for k in range(na)) + b'</w>'
            cases.append(['parse ' + H(doc)])
            cases.append(['parse ' + H(doc[:-3] + b'\n\n</x>')])
        for nc in ([100, 257, 1000] if th else [100, 257]):
            ops = ['open 72']
            for k in range(nc):
                ops += ['open ' + H(b'c%d' % (k % 10)), 'attr 69 ' + H(b'%d' % k), 'close'] if k % 2 else ['text ' + H(b't%d' % k)]
            cases.append(ops + ['str', 'rt'])
        for n in ([1024, 4095, 4096, 4097, 16384, 65536] if th else [1024, 4097, 65536]):
            for kind in range(4):
                # escape-heavy values grow 5x when serialised; the extracted model recurses once per byte (8 MB stack), and escapeString reallocates per escaped byte (2 s watchdog)
                v = big(n, kind)[:n if kind in (0, 2) else min(n, 4096)]
                cases.append(['open 61', 'attr 6b ' + H(v), 'str', 'rt'])
                t = v if v.strip(b' \t\r\n\x0b\x0c') else b'x' + v
                cases.append(['open 61', 'open 62', 'close', 'text ' + H(t), 'open 63', 'attr 6b ' + H(v[:n // 4]), 'close', 'str', 'rt'])
            nm = bytes(rng.choice(NAME_CHARS) for _ in range(n))
            nm = bytes([rng.choice(NAME_START)]) + nm[1:]
            cases.append(['open ' + H(nm), 'attr ' + H(nm) + ' 76', 'open ' + H(nm[:n // 2]), 'close', 'str', 'rt'])
            m = min(n, 16384)
            cases.append(['parse ' + H(b'<' + nm[:m] + b' ' + nm[:m] + b'="' + big(m, 0) + b'">' + big(m, 0) + b'&lt;</' + nm[:m] + b'x>')])   # wrong end tag: the message quotes the long name
            cases.append(['parse ' + H(b'<a k="' + big(n, 0))])                                                                          # unterminated long value
            cases.append(['parse ' + H(b'<a>' + b'&amp;' * (n // 5) + b'&#65;' * 10 + b'</a>')])
            cases.append(['parse ' + H(b'<!--' + big(n, 0).replace(b'--', b'- ') + b'-->' + b'\n' * 50 + b'<a/>x')])
        return [Stream('wide', cases, note='5..40 (100) attributes per element incl. an equal key, 100+ content items, attribute values / text / names of 1..64 KiB '
                                           '(plain, every byte escaped, arbitrary bytes), long comments and unterminated long values')]

    def streams_reuse(self, th, rng):
        """one Parser object for two texts, a target Element that already holds something, the static wrappers"""
        out = []
        bad = [b'x', b'\n\n\n<a', b'<a>\r\n\r\n</b>', b'<a k="v\n">', b'\n\n<a k=v/>', b'<a>\n\n\nt', b'<?x\n\n', b'<!--\n\n\n', b'', b'\n', b'<a>\n<b>\n</a>', b'<a\n\n\n',
               b'<a></a', b'\r\r\r<', b'<a>x<!--c\n\n', b'<a k="1" k2=\'2\'>\n<b/>\n</a >x</a>']
        good = [b'<a/>', b'<a></a>', b'<a k="v"/>', b'<a>t</a>', b'<a k="v" l="w">t<b/>u</a>', b'\n\n<a>\n<b/>\n</a>\n', b'<?xml version="1.0"?>\n<r><x/><x/></r>',
                b'<!--c--><a k="1"/>', b'<a><a><a/></a></a>', b'<b k="2" k="3">&lt;</b>']
        def text():
            r = rng.random()
            if r < 0.3:
                return rng.choice(bad)
            if r < 0.5:
                return rng.choice(good)
            g = Gen(rng, comments=rng.random() < 0.5, maxdepth=2)
            d = g.document()
            return d if r < 0.8 else mutate(rng, d)
        cases = []
        for a in bad + good[:6]:
            for b in bad[:9] + good[:6]:
                cases.append(['parse2 0 %s %s' % (H(a), H(b))])
                cases.append(['parse2 1 %s %s' % (H(a), H(b))])
        for _ in range(3000 if th else 500):
            cases.append(['parse2 %d %s %s' % (rng.randrange(2), H(text()), H(text()))])
        out.append(Stream('parser_reuse', cases, note='one Xml::Parser for two texts (all pairs of a table of failing / succeeding texts with line breaks, random pairs); flag 1: also one '
                                                      'target Element; both answers compared with a fresh Parser + Element, error positions judged against their own text'))
        cases = []
        targets = [[], ['open 7a'], ['open 7a', 'attr 6b 76'], ['open 7a', 'text 74'], ['open 7a', 'attr 6b 76', 'attr 6c 77', 'open 79', 'close', 'text 74'],
                   ['open 7a', 'open 79', 'attr 6b 76', 'text 75', 'close']]
        for tg in targets:
            for d in good + bad[:5]:
                cases.append(tg + ['pinto ' + H(d)])
            if tg:
                cases.append(tg + ['str', 'rtinto'])
        for _ in range(2500 if th else 400):
            cases.append(tree_ops(rng, True, maxdepth=2) + ['pinto ' + H(text())])
        for _ in range(2500 if th else 400):
            cases.append(tree_ops(rng, rng.random() < 0.85, maxdepth=rng.choice([1, 2, 3])) + ['str', 'rtinto'])
        out.append(Stream('target_reuse', cases, note='parse / toString-then-parse into an Element that already holds a name, attributes and content'))
        cases = []
        for d in bad + good:
            for m in 'cs':
                cases.append(['sparse %s %s' % (m, H(d))])
        for _ in range(2000 if th else 400):
            cases.append(['sparse %s %s' % (rng.choice('cs'), H(text()))])
        out.append(Stream('entry_points', cases, note='static Xml::parse(const char*) and Xml::parse(const String&), failure text from Error::getErrorString()'))
        # the file based entry points: the bytes go through a scratch file under build/C16
        cases = []
        for tg in targets:
            for d in good + bad[:8]:
                for m in 'ps':
                    cases.append(tg + ['fload %s %s' % (m, H(d))])
            for d in bad[:6] + good[:2]:
                cases.append(tg + ['fmiss p ' + H(d)])
            cases.append(tg + ['fmiss s -'])
            cases.append(tg + ['fmiss d ' + H(bad[1])])         # a directory: open succeeds, readAll fails
            cases.append(tg + ['fmiss D -'])
            if tg:
                cases.append(tg + ['fsave 1'])
                cases.append(tg + ['fsave 0'])
                cases.append(tg + ['str', 'fsl'])
        for _ in range(1500 if th else 300):
            d = text()
            if rng.random() < 0.15:
                at = rng.randrange(len(d) + 1)
                d = d[:at] + b'\0' + d[at:]                # a 0 byte in the file: the content is read as a C string
            cases.append(tree_ops(rng, True, maxdepth=2) + ['fload %s %s' % (rng.choice('ps'), H(d))])
        for _ in range(1200 if th else 250):
            cases.append(tree_ops(rng, rng.random() < 0.85, maxdepth=rng.choice([1, 2, 3])) + ['str', 'fsave 1', 'fsl'])
        for _ in range(300 if th else 60):
            cases.append(tree_ops(rng, True, maxdepth=2) + ['fmiss %s %s' % (rng.choice('psdD'), H(text())), 'fsave 0'])
        for n in ([4096, 16384, 65536, 70000] if th else [4096, 70000]):  # more than one read() / write() buffer (the extracted model overflows the OCaml stack near 300 KB)
            body = b''.join(b'<i n="%d">v%d</i>' % (k, k) for k in range(n // 20))
            cases.append(['fload p ' + H(b'<r>' + body + b'</r>')])
            cases.append(['fload s ' + H(b'<r>' + body + b'</r')])
            cases.append(['open 72', 'attr 6b ' + H(bytes(rng.choice(b'abc&<"\n') for _ in range(n // 8))), 'str', 'fsave 1', 'fsl'])
        out.append(Stream('files', cases, note='Xml::load / Xml::Parser::load / Xml::save through a scratch file under build/C16: contents from the tables of failing and '
                                               'succeeding texts, generated and mutated documents, an embedded 0 byte, 4 KiB..70 KiB files; a missing file and a directory (open succeeds, readAll fails) (after a parse that failed on '
                                               'the same Parser); an unwritable path; save then load of generated trees; targets that already hold something'))
        return out


C16.level_text = (
    'Theorems in Coq about an executable model of Xml.cpp / Xml.hpp (cursor = remaining text + offset, line, line start over the byte list '
    's ++ [0] with checked reads; skipSpace with the comment scanner, readToken, the prolog loop, parseElement / content / parseText with the '
    'cursor rewind, entity unescape/escape through the tables regenerated from the source on every run, toString; the Parser object and the target '
    'Element across calls; Variant/Element values as heap blocks with reference counts): (1) for EVERY byte list the parse terminates with fuel '
    '2|s|+4, never reads from the empty list (nothing beyond the terminator) and an error carries the line/column of an offset 0..|s| of the text; '
    'the answer is the same function of the text for every history of the Parser object and every previous content of the target Element '
    '(repair 07 clears the target), so the error position of a second parse lies inside the second text; (2) the white-space scanner steps over '
    'every comment, the tokenizer and the whole descent depend on the remaining text only (up to recorded positions), hence any mix of white space '
    'and comments in front of any token yields the same token, a gap that begins with a comment in front of text / a child / the end tag leaves the '
    'content loop\'s answer unchanged at any depth, parse (gap ++ d) and parse d agree; a processing instruction <?a?> in front of the document '
    'is skipped for EVERY body a (any byte but NUL - also ?, CR, LF, a comment opener; it ends at its first ?>; repair 08), and so is any '
    'mix of white space, comments and processing instructions in front of the root: parse (prolog ++ d) and parse d agree (same tree up '
    'to positions / same message), in particular they have the same names, attributes, nesting and character data (XmlSpec.squash, the '
    'relation the check judges on the implementation); '
    '(3) unescape (escape v) = v for all NUL-free v, predefined entities and decimal references '
    'decode as XML says, attribute values and text nodes are read back exactly, and parse (toString e) = e up to recorded positions for EVERY '
    'tree with well-formed names, NUL-free attribute values, distinct attribute names (HashMap keys) and non-blank non-adjacent text; (4) for EVERY '
    'history of handle operations each reference count equals the number of Variant objects pointing to the block and the copy-on-write heap refines a '
    'value store, so an operation changes its target slot only - also an assignment whose right-hand side is a content item of the assigned '
    'Variant itself (node = node.toElement().content[k]): the slot then holds the item\'s value and the counts stay exact; a String assigned to a content item through its element changes that slot only - no copy of the element or of the old text item; with a reference obtained from toElement() and kept by the caller (ops vhold / '
    'vwriteheld) the same holds for every history in which no such reference is used after a later copy of the Variant (at the write no other '
    'Variant shares the block), the counts stay exact in every history, and the statement is refuted with a witness for a reference kept across a copy; '
    '(5) the file based entry points Xml::load / Xml::Parser::load / Xml::save are parse after reading and writing after toString with the file '
    'system as an input: for every content (1) holds of load, a missing file gives false and leaves the target untouched, save then load gives the '
    'tree back.  The model is tied to the code by running the extracted model, the extracted '
    'spec and the ASan/UBSan build of the working tree on the same cases (parse results with positions, error line/column/message, serialised '
    'bytes, re-parsed trees, for documents that are well formed by construction the two answers on the document and on the document with comments / '
    'processing instructions inserted and whether they agree up to gaps, answers of a reused Parser / non-empty target / the static wrappers, every value and every reference count after handle operations - '
    'also after writes through a kept reference to a shared block -, the bytes Xml::save leaves in a scratch file under build/C16, the answers of load on files written there, on a '
    'missing file and of save on an unwritable path).')
C16.level_note = (
    'Full for the model. Trusted/modelled: Coq kernel, extraction + OCaml driver, harness (it compares the answers of a reused Parser / non-empty '
    'target with those of fresh ones itself), table translator; sscanf("#%u") is modelled as a '
    'reference decimal scanner (glibc semantics: white space, sign, 64-bit saturation, truncation to 32 bits) and Unicode::toString as the '
    'UTF-8 encoder - both validated by correspondence only; HashMap<String,String> keeps insertion order and replaces on an equal key '
    '(modelled, validated by correspondence). Nesting depth: the model needs no bound (fuel is linear in the length); the C++ recursion depth '
    '(up to 1000) is validated by the depth-1000 cases only. Comments: the clause is proved at the tokenizer (any gap in front of any token), at '
    'parseText / the content loop (a gap that begins with a comment, followed by something that does not begin with white space) and in front of '
    'the document; the composition of the content-loop theorem into one statement about a comment at an arbitrary place of a whole document is '
    'not stated: for comments INSIDE the root element the whole-document reading is judged on the implementation only (stream accept, op parseg: '
    'a document that is well formed by construction - class WF of checks/C16.py: a subset of XML 1.0 without DTD, attribute values without '
    'literal line breaks - and the same document with comments inserted wherever white space is allowed, between the tokens of a tag, anywhere '
    'in content, in the middle of character data and directly in front of it, plus processing instructions and comments in front of the root; '
    'the spec line demands that both are accepted and agree in names, attributes, nesting and, between two child elements, the concatenated '
    'character data without white-space bytes - the text does not say which white space next to a comment is kept, the code keeps what stands in '
    'front and drops what stands behind). A comment is never inserted directly behind a name (see below). The code\'s behaviour next to text is asymmetric and the model mirrors it: white space behind a comment in front of text is '
    'swallowed with the comment, white space in front of such a comment becomes a text node of its own (Example ex_space_around_comment); a comment '
    'glued to the end of a name belongs to the name (names end at / > = or white space only). The processing-instruction theorem covers every '
    'body (xml_any_processing_instruction_before_document; the old restriction to bodies without ?, CR, LF is gone with repair 08, which the '
    'acceptance judge found: the loop called skipSpace inside the instruction and a comment opener behind a ? or a line break ran to the next -->). '
    'Character references: only decimal ones are decoded (theorem xml_numeric_reference); a hexadecimal reference such as &#x41; stays literal '
    'text, &#55296; yields the three bytes ed a0 80 (a surrogate code point is not rejected), &#0; puts a 0 byte into the String, a value '
    '>= 1114112 decodes to nothing - all mirrored by the model, none judged by a theorem (the property text does not say). '
    'Handles: xml_copies_independent is about histories of complete operations (`toElement()` followed at once by the assignment). A reference '
    'obtained from toElement() and KEPT (`Element& e = v.toElement(); Variant w(v); e.type = ...;`) is now in the model and in the harness (ops vhold / '
    'vwriteheld; protocol: the reference is dropped when an operation targets the slot it came from, so it never dangles): the write is a plain in-place '
    'write whatever the count says, so it changes w as well - xml_copies_independent_refuted_with_held_reference proves this of the faithful model with '
    'the witness [velem 0 a; vhold 0; vcopy 1 0; vwriteheld b] (corpus/C16/held-reference-across-copy.ops: the implementation does the same), and '
    'xml_copies_independent_without_reference_kept_across_copy keeps the statement under the visible hypothesis ok_hist: no reference obtained from '
    'toElement() is used after a later copy (at every write through it no other Variant shares the block). This is the known limitation of lazy copies '
    'with handed-out references, the same design as ::Variant (C07); it does not contradict "copies of element values are independent of their source" '
    'for any history that does not keep a reference across a copy, so it is a note, not a finding. For such histories the spec oracle is silent and only '
    'model = implementation is compared. '
    'File API: the file system is an input of the model (content read / path cannot be opened); File::open, readAll and write themselves are C19\'s subject; partial '
    'writes and read errors after a successful open are not driven. After a failed open Xml::Parser::load assigns errorString only: getErrorLine() / '
    'getErrorColumn() still show the previous failure (mirrored: xml_load_missing_file_fails_and_keeps_target; not part of the property). The content of a file is '
    'read as a C string: bytes behind a 0 byte are ignored (as for every text). Xml::Variant::isNull / isText / isElement are cross-checked against getType() in every dump. '
    'distinct attribute names are forced by HashMap. '
    'In-place writes of a nested content item redirect slots only (a content list of another block pointing to it is excluded by the proved '
    'count invariant). Element.line/column of elements created by toElement() are uninitialised in the code and not compared. '
    'Xml::Parser::parse(const char*, Element&) is declared but defined nowhere (not callable, not driven). '
    'The flags "same answer as a fresh Parser / fresh Element / parse on the bytes of the file" (parse2, pinto, fload) compare result kind, line, column and the '
    'tree - not the message. The file API (fload / fmiss / fsave / fsl) is an EXTENSION beyond the property text, which names parse, toString and '
    'copies only: its failing inputs say so in their first words. pinto also prints the Element the target was copied from (it must still hold the tree). '
    'Handles: vsubassign i k j is <k-th content item of slot[i]->toElement()> = *slot[j] for j != i (op VSubAssign of spec, model and theorems: a content item assigned in '
    'place from a copy, an ancestor or a descendant of its element); vassignsub i j k is *slot[i] = <k-th content item of slot j> through operator= with a reference into slot j\'s element (the value step of VSub; '
    'j = i: the right-hand side is released by the assignment), vassignsubm i k the same behind a mutable toElement() of slot i (driver: touch, then VSub i i k); '
    'vsubsettext i k t is <k-th content item of slot[i]->toElement()> = String (operator=(const String&) on a content item reached through its element: '
    '`Xml::Element c = e; c.content.front() = "new";`), run by the driver as VText tmp t; VSubAssign i k tmp; VDel tmp with a hidden seventh slot (the code writes in place '
    'when the item is a text block with count 1 and allocates otherwise: same values, same counts; theorem xml_text_assigned_to_content_item). '
    'Copy, then assign a DIFFERENT text: corpus/C16/copy-then-assign-text.ops holds one deterministic case per way a text block gets shared (Variant copy, copy assignment, '
    'three sharers, child appended from a slot, item copied out, Element copy, Variant copy of an element, item assigned in place from a text Variant, nested a(b(t)) both ways). '
    'A case that matches an open entry of known_findings.json gets a reason prefix of its own in judge(): vf makes one report per reason shape from the shortest case of the group, '
    'and the 6-op witness of the open finding fails in a vdump line like every other handle defect - it was the representative of that group and, being known, '
    'swallowed the failing inputs of every other handle defect (round 6). '
    'NOT driven: assigning to a content item of an element the Variant that owns that element (Element& e = v.toElement(); e.content.front() = v;). The lazy copy '
    'stores a reference to the block inside the block itself: a reference cycle, Xml::toString(v.toElement()) then overflows the stack (observed on the unchanged '
    'tree) - the same design limitation as the open finding of C07 (a Variant stored into its own payload); value semantics would put a copy of the OLD value of v '
    'there. The model\'s heap (children are older than their block) has no such state; proposed as an open known finding in reports/C16.md (witness corpus/C16/open/self-containing.ops, op vsubassign!; the '
    'stream self_containing_open runs it only while known_findings.json lists it as open), no oracle claims it otherwise. '
    'Scope of the spec oracle (what a failing input is claimed for): termination without a sanitizer report, success / failure where the spec names it '
    '(documents well formed by construction must be accepted), '
    'names / attributes / text / nesting after a round trip, the values of the slots after handle operations, and that a reported line and column are the '
    'coordinates of an offset of the text. Model-only details (compared for correspondence, never the ground of a failing input): the WORDING of error '
    'messages, reference counts and which blocks are shared (a library that copies eagerly satisfies "copies are independent" by construction and differs '
    'from the model in the count dump only). For the static wrappers, whose only report is the text in Error::getErrorString(), line and column are read '
    'out of that text independently of its wording (position_in_message: the numbers behind the words line and column, else the first two free-standing '
    'integers); a text from which no position can be read is not judged, except the harness\'s own sentinel (the wrapper returned false and reported nothing). '
    'A tree on which most cases crash or hang: a stream is given up after 150 crashes / watchdog hits, later streams after 6 once 150 were seen in the run, the '
    'watchdog drops to 1 s after 20 hits, shrinking gets 30 probes (the report is made from what ran). '
    'The per-case watchdog (2 s) times the library: the harness builds trees in place (linear in the tree size whatever a Variant copy costs) and makes one '
    'copy of the whole tree per serialise / parse-into operation; depth-1000 chains cost 0.04 s under ASan with shared and with eagerly copied blocks alike.')
C16.rule = (
    'cases = one parse of a generated / mutated / exhaustively enumerated document, or a tree built by open/attr/text/close then serialised and '
    're-parsed, or a history of Variant handle operations with dumps, or one entity reference; generators aim at the case splits of the proofs: '
    'comments between all tokens and next to text, all three line-break forms, processing instructions, numeric references at the UTF-8 and '
    '32/64-bit boundaries, quotes/ampersands/line breaks in values, texts whose first byte starts another token (look-ahead fails), nesting '
    'depth 1000, NUL inside the buffer, documents well formed by construction with and without inserted comments / processing instructions, every name byte '
    '(each of the 128 bytes >= 0x80, UTF-8 sequences) in element and attribute names, every byte string of length <= 3 (4 thorough) over a 15-letter alphabet bare and in 5 contexts, and for '
    'handles every combination of block kind x sharing shape x write (incl. assignment from the own content item, chains hoisted one to three levels, a String with another text assigned to every handle that may share the block - copy, slot a child came from, content item through source / enclosing element / element copy, item copied out), the same with a reference taken before / after the sharing and kept across 39 kinds of '
    'intermediate operations; file cases = load of a table of failing / succeeding texts, generated and mutated documents (also with a 0 byte, also 64 KiB) written to '
    'a scratch file, a missing file, save to a writable / unwritable path, save then load of generated trees. Non-trivial: a parse that succeeds, or fails beyond line 1 column 1 on a '
    'document of >= 8 bytes; a round trip of a tree with >= 3 nodes/attributes; a well-formed-document case whose op line has >= 24 characters; a handle history that both shares (copy/assign/child/sub) and '
    'writes (name/attr/submut/settext/subsettext/child/write through a kept reference); an entity case that parses; a file case whose text op line has >= 24 characters or whose tree '
    'has >= 2 nodes/attributes. distinct = distinct op text.')
C16.assumptions = [
    'scanf("#%u") behaves as the reference decimal scanner scan_u of XmlModel.v (validated by correspondence on 300 spellings x boundary values)',
    'Unicode::toString is the UTF-8 encoder utf8 of XmlModel.v (validated by correspondence; proved correct in C18)',
    'HashMap<String,String> iterates in insertion order and append replaces the value of an equal key (validated by correspondence)',
    'the text contains its terminator: Xml::parse is given a NUL-terminated buffer',
    'File::open / readAll / write deliver and store exactly the bytes of the file (C19); Error::getErrorString() after a failed open is the strerror text (compared: "No such file or directory")',
    'a reference kept from toElement() is not used after an operation that targets the slot it came from (harness protocol; otherwise it may dangle - ordinary C++ lifetime, outside the property)',
    'for the acceptance judge (parseok / parseg) "a document that must be accepted" is what class WF of checks/C16.py generates: one XML 1.0 element without DTD, distinct attribute names, attribute values without literal line breaks, references limited to the predefined and decimal ones; comments wherever white space is allowed except directly behind a name; processing instructions (any body without ?>) and comments in front of the root',
    'a Variant is not assigned to a content item of the element it owns itself (e.content[k] = v with e = v.toElement(): reference cycle in the code, proposed open finding; outside the operation alphabet of spec, model and harness)',
]
CHECK = C16
