import os, sys, re, itertools
from vf import Check, Stream, hexs
sys.path.insert(0, os.path.join(os.path.dirname(os.path.abspath(__file__)), '..', 'gen'))
import tables

# ---------------------------------------------------------------------------------------------
# A light shadow (values + representation kind) used ONLY to steer the generators towards the
# case splits of the proofs (empty / literal / unterminated view / exclusively owned / shared,
# in-place vs reallocating detach, capacity | 3 boundaries, self arguments) and to keep the
# arguments inside the domain of the reference.  It is not an oracle: expected observations come
# from the extracted Coq spec/model.
# ---------------------------------------------------------------------------------------------


def or3(n):
    return n | 3


class Var:
    def __init__(self, val=b'', kind='E', cap=0, grp=None, term=True):
        self.val, self.kind, self.cap, self.grp, self.term = val, kind, cap, grp, term


class Shadow:
    def __init__(self):
        self.vars = []
        self.regs = []
        self.ngrp = 0

    def refs(self, v):
        g = self.vars[v].grp
        return 0 if g is None else sum(1 for x in self.vars if x.grp == g)

    def own(self, v, val, cap):
        x = self.vars[v]
        self.ngrp += 1
        x.val, x.kind, x.cap, x.grp, x.term = val, 'O', cap, self.ngrp, True

    def detach(self, v, c, m):
        """returns the branch label"""
        x = self.vars[v]
        if x.kind == 'O' and self.refs(v) == 1 and m <= x.cap:
            return 'inplace'
        lab = 'realloc/' + ('shared' if x.kind == 'O' and self.refs(v) > 1 else x.kind + ('' if x.term else 'u'))
        self.own(v, x.val, or3(m))
        return lab

    def cstr(self, v):
        x = self.vars[v]
        if x.kind == 'V' and not x.term:
            self.detach(v, len(x.val), len(x.val))
            return 'cstr/detach'
        return 'cstr/keep/' + x.kind

    def copy_of(self, u):
        s = self.vars[u]
        if s.kind == 'O':
            return Var(s.val, 'O', s.cap, s.grp)
        if s.kind == 'E':
            return Var()
        self.ngrp += 1
        return Var(s.val, 'O', or3(len(s.val)), self.ngrp)

    def assign(self, v, u):
        s = self.vars[u]
        if s.kind == 'O':
            x = self.vars[v]
            x.val, x.kind, x.cap, x.grp, x.term = s.val, 'O', s.cap, s.grp, True
        else:
            self.own(v, s.val, or3(len(s.val)))


ALPHA_TEXT = [0x61, 0x62, 0x41, 0x42, 0x20, 0x2c, 0x7a, 0x80, 0xff, 0x5a]
ALPHA_BIN = ALPHA_TEXT + [0x00, 0x00, 0x01]


class Gen:
    def __init__(self, rng, binary=False, maxv=4, self_bias=0.25, big=False, ops=None):
        self.rng, self.binary, self.maxv, self.self_bias, self.big = rng, binary, maxv, self_bias, big
        self.alpha = ALPHA_BIN if binary else ALPHA_TEXT
        self.sh = Shadow()
        self.ops, self.labels = [], []
        self.allowed = ops

    # ---- argument pickers ----
    def n(self, hi=10):
        r = self.rng
        x = r.random()
        if x < 0.12: return 0
        if x < 0.22: return 1
        if x < 0.45: return r.choice([2, 3, 4, 5, 7, 8])
        if self.big and x > 0.92: return r.randrange(30, 260)
        return r.randrange(0, hi + 1)

    def data(self, n=None):
        r = self.rng
        if n is None: n = self.n()
        return bytes(r.choice(self.alpha) for _ in range(n))

    def cdata(self, n=None):
        """a C-string argument: NUL-free"""
        r = self.rng
        if n is None: n = self.n(4)
        return bytes(r.choice(ALPHA_TEXT) for _ in range(n))

    def piece_of(self, v, maxlen=3):
        """a needle that probably occurs in variable v"""
        r = self.rng
        val = self.sh.vars[v].val
        if val and r.random() < 0.7:
            i = r.randrange(len(val))
            return val[i:i + r.randrange(1, maxlen + 1)]
        return self.cdata(r.randrange(0 if r.random() < 0.25 else 1, maxlen + 1))

    def emit(self, line, label):
        self.ops.append(line)
        self.labels.append(label)

    def nulfree(self, v):
        return 0 not in self.sh.vars[v].val

    def pick(self, pred=None):
        r = self.rng
        c = [i for i in range(len(self.sh.vars)) if pred is None or pred(i)]
        return r.choice(c) if c else None

    def other(self, v):
        """second String argument: the variable itself, a sharer of its block, or any variable"""
        r = self.rng
        x = r.random()
        if x < self.self_bias:
            return v
        g = self.sh.vars[v].grp
        sharers = [i for i, y in enumerate(self.sh.vars) if g is not None and y.grp == g and i != v]
        if sharers and x < self.self_bias + 0.2:
            return r.choice(sharers)
        return r.randrange(len(self.sh.vars))

    # ---- constructors ----
    def new_var(self):
        r, sh = self.rng, self.sh
        k = r.random()
        if k < 0.12 or (not sh.vars and k < 0.2):
            sh.vars.append(Var()); self.emit('new', 'ctor/default')
        elif k < 0.32:
            d = self.data(min(self.n(), 39)) if self.binary else self.cdata(min(self.n(), 39))
            sh.regs.append(d + b'\0')
            sh.vars.append(Var(d, 'V', 0, None, True)); self.emit('lit ' + hexs(d), 'ctor/literal')
        elif k < 0.5:
            d = self.data()
            sh.ngrp += 1
            sh.vars.append(Var(d, 'O', or3(len(d)), sh.ngrp)); self.emit('buf ' + hexs(d), 'ctor/buffer')
        elif k < 0.56:
            n = self.n(); c = r.choice(self.alpha)
            sh.ngrp += 1
            sh.vars.append(Var(bytes([c]) * n, 'O', or3(n), sh.ngrp)); self.emit('fill %d %d' % (n, c), 'ctor/fill')
        elif k < 0.62:
            n = self.n(20)
            sh.ngrp += 1
            sh.vars.append(Var(b'', 'O', n, sh.ngrp)); self.emit('cap %d' % n, 'ctor/capacity')
        elif sh.vars:
            u = r.randrange(len(sh.vars))
            lab = 'ctor/copy/' + sh.vars[u].kind + ('' if sh.vars[u].term else 'u')
            sh.vars.append(sh.copy_of(u)); self.emit('copy %d' % u, lab)
        else:
            sh.vars.append(Var()); self.emit('new', 'ctor/default')

    def attach(self, v):
        r, sh = self.rng, self.sh
        # a fresh foreign buffer, or a window of an existing one (several Strings on one buffer)
        usable = [i for i, g in enumerate(sh.regs) if len(g) >= 1]
        if not usable or r.random() < 0.45:
            d = self.data(self.n() + 1)
            if r.random() < 0.5:
                d = d[:-1] + bytes([r.choice([0x21, 0x61, 0x5a])])     # a non-zero byte after most windows
            self.emit('reg ' + hexs(d), 'region')
            sh.regs.append(d)
            ri = len(sh.regs) - 1
        else:
            ri = r.choice(usable)
        g = sh.regs[ri]
        x = r.random()
        if x < 0.35:
            off, ln = 0, len(g) - 1                                     # everything but the last byte
        else:
            off = r.randrange(len(g))
            ln = r.randrange(len(g) - off)
        x = sh.vars[v]
        k = x.kind
        x.val, x.kind, x.cap, x.grp, x.term = g[off:off + ln], 'V', 0, None, g[off + ln] == 0
        self.emit('attach %d %d %d %d' % (v, ri, off, ln), 'attach/' + k + '/' + ('term' if x.term else 'unterm'))

    # ---- one mutating or querying operation ----
    def size_for(self, v, what):
        """sizes around the capacity decisions of detach"""
        r = self.rng
        x = self.sh.vars[v]
        n = len(x.val)
        goal = r.choice(['fit', 'exact', 'over', 'any', 'shrink', 'zero', 'same', 'b3'])
        if goal == 'zero': return 0
        if goal == 'same': return n
        if goal == 'shrink' and n > 0: return r.randrange(n)
        if goal == 'b3': return r.choice([3, 4, 7, 8, 11, 12])
        if x.kind == 'O':
            if goal == 'exact': return x.cap
            if goal == 'over': return x.cap + 1 + r.randrange(3)
            if goal == 'fit' and x.cap > n: return r.randrange(n, x.cap + 1)
        return self.n(14)

    def step(self):
        r, sh = self.rng, self.sh
        v = r.randrange(len(sh.vars))
        x = sh.vars[v]
        n = len(x.val)
        kinds = ['apps', 'appb', 'appc', 'pres', 'preb', 'asg', 'asg', 'copy-mutate', 'resize', 'resize', 'reserve', 'clear', 'detach',
                 'poke', 'cstr', 'cstr', 'attach', 'attach', 'repc', 'reps', 'reps', 'lower', 'upper', 'trim', 'printf', 'join',
                 'substr', 'tokc', 'toks', 'split', 'eq', 'cmp', 'cmpn', 'cmpi', 'cmpin', 'eqi', 'findc', 'findlc', 'findcf',
                 'finds', 'findsf', 'findo', 'findof', 'findls', 'findlo', 'starts', 'ends', 'len', 'drop', 'appo', 'appo', 'printfs',
                 'eqlit', 'splitset', 'fromprintf', 'stat', 'stat',
                 'pluseq', 'pluseqc', 'plus', 'pluslit', 'plusasg', 'plusasg', 'frombool', 'fromcstr', 'fromcstrn', 'tobool', 'tobool', 'char',
                 'preo', 'preo', 'trimd', 'trimd', 'substrd', 'splitd', 'splitsetd']
        if self.allowed:
            kinds = [k for k in kinds if k in self.allowed]
        what = r.choice(kinds)
        # the random histories stay below ~2.5 KB per value (long values are the business of the stream `huge`): no doubling of a long value
        if n > 1200 and what in ('apps', 'pres', 'pluseq', 'plus', 'plusasg', 'appo', 'preo', 'join', 'reps', 'printfs'):
            return self.step()
        full = len(sh.vars) >= self.maxv
        kd = x.kind + ('' if x.term else 'u')
        shared = '/shared' if sh.refs(v) > 1 else ''

        def mutate_known(newval, copylen, mincap):
            lab = sh.detach(v, copylen, mincap)
            sh.vars[v].val = newval
            return lab

        if what == 'apps':
            u = self.other(v)
            nv_ = x.val + sh.vars[u].val
            lab = mutate_known(nv_, n, len(nv_))
            self.emit('apps %d %d' % (v, u), 'append-string/%s/%s%s' % (lab, 'self' if u == v else 'other', shared))
        elif what == 'appb':
            k = self.size_for(v, 'append'); d = self.data(max(0, min(k, 300) - n) if r.random() < 0.6 else None)
            lab = mutate_known(x.val + d, n, n + len(d))
            self.emit('appb %d %s' % (v, hexs(d)), 'append-buffer/' + lab + shared)
        elif what == 'appc':
            c = r.choice(self.alpha)
            lab = mutate_known(x.val + bytes([c]), n, n + 1)
            self.emit('appc %d %d' % (v, c), 'append-char/' + lab + shared)
        elif what == 'pres':
            u = self.other(v)
            nv_ = sh.vars[u].val + x.val
            sh.own(v, nv_, or3(len(nv_)))
            self.emit('pres %d %d' % (v, u), 'prepend-string/%s/%s%s' % (kd, 'self' if u == v else 'other', shared))
        elif what == 'preb':
            d = self.data()
            sh.own(v, d + x.val, or3(len(d) + n))
            self.emit('preb %d %s' % (v, hexs(d)), 'prepend-buffer/' + kd + shared)
        elif what == 'asg':
            u = self.other(v)
            lab = 'assign/%s<-%s%s' % (kd, sh.vars[u].kind + ('' if sh.vars[u].term else 'u'), '/self' if u == v else '')
            sh.assign(v, u)
            self.emit('asg %d %d' % (v, u), lab)
        elif what == 'copy-mutate':
            if full: return self.step()
            sh.vars.append(sh.copy_of(v))
            self.emit('copy %d' % v, 'ctor/copy/' + kd)
        elif what == 'resize':
            k = min(self.size_for(v, 'resize'), 300)
            c = r.choice(self.alpha)
            lab = sh.detach(v, k, k)
            sh.vars[v].val = x.val[:k] + bytes([c]) * max(0, k - n)
            self.emit('resize %d %d %d' % (v, k, c), 'resize/%s/%s%s' % (lab, 'grow' if k > n else 'shrink' if k < n else 'same', '/from-empty' if n == 0 and k > 0 else ''))
        elif what == 'reserve':
            k = min(self.size_for(v, 'reserve'), 300)
            lab = sh.detach(v, n, max(k, n))
            self.emit('reserve %d %d' % (v, k), 'reserve/' + lab + shared)
        elif what == 'clear':
            lab = 'clear/' + ('inplace' if x.kind == 'O' and sh.refs(v) == 1 else 'release/' + kd + shared)
            if x.kind == 'O' and sh.refs(v) == 1:
                x.val = b''
            else:
                x.val, x.kind, x.cap, x.grp, x.term = b'', 'E', 0, None, True
            self.emit('clear %d' % v, lab)
        elif what == 'detach':
            lab = sh.detach(v, n, n)
            self.emit('detach %d' % v, 'detach/' + lab)
        elif what == 'poke':
            if n == 0: return self.step()
            i = r.randrange(n); c = r.choice(self.alpha)
            lab = sh.detach(v, n, n)
            sh.vars[v].val = x.val[:i] + bytes([c]) + x.val[i + 1:]
            self.emit('poke %d %d %d' % (v, i, c), 'write-through-char*/' + lab)
        elif what == 'cstr':
            self.emit('cstr %d' % v, sh.cstr(v))
        elif what == 'attach':
            self.attach(v)
        elif what == 'repc':
            a = r.choice(list(x.val) or self.alpha) if r.random() < 0.7 else r.choice(self.alpha)
            b = r.choice(self.alpha)
            lab = sh.detach(v, n, n)
            sh.vars[v].val = bytes(b if y == a else y for y in x.val)
            self.emit('repc %d %d %d' % (v, a, b), 'replace-char/' + lab)
        elif what in ('lower', 'upper'):
            lab = sh.detach(v, n, n)
            f = (lambda y: y + 32 if 65 <= y <= 90 else y) if what == 'lower' else (lambda y: y - 32 if 97 <= y <= 122 else y)
            sh.vars[v].val = bytes(f(y) for y in x.val)
            self.emit('%s %d' % (what, v), what + '/' + lab)
        elif what == 'reps':
            nd = self.pick(lambda i: 0 not in sh.vars[i].val and (0 < len(sh.vars[i].val) <= 3 or r.random() < 0.12))
            if nd is None or not self.nulfree(v):
                if full or not self.nulfree(v): return self.step()
                d = self.piece_of(v)
                sh.ngrp += 1
                sh.vars.append(Var(d, 'O', or3(len(d)), sh.ngrp)); self.emit('buf ' + hexs(d), 'ctor/buffer')
                nd = len(sh.vars) - 1
            if r.random() < 0.15: nd = v
            rp = r.randrange(len(sh.vars)) if r.random() < 0.8 else v
            needle, repl = sh.vars[nd].val, sh.vars[rp].val
            if len(x.val.split(needle) if needle else [0]) * max(1, len(repl)) > 400:
                return self.step()
            lab = 'replace-string/' + kd + ('/needle-empty' if not needle else '/hit' if needle in x.val else '/miss') + \
                  ('/needle=self' if nd == v else '') + ('/repl=self' if rp == v else '')
            if needle:
                sh.cstr(v); sh.cstr(nd)
                if needle in x.val:
                    nv_ = x.val.replace(needle, repl)
                    sh.own(v, nv_, 0)       # capacity of the result: not tracked by the shadow
                    sh.vars[v].cap = max(len(x.val) + 10 * len(repl), or3(len(nv_)))
            self.emit('reps %d %d %d' % (v, nd, rp), lab)
        elif what == 'trim':
            ends = bytes(set((x.val[:2] + x.val[-2:])))
            chars = bytes(c for c in ends if r.random() < 0.6) + (self.cdata(r.randrange(0, 3)) if r.random() < 0.5 else b'')
            if r.random() < 0.1: chars += bytes(r.choice([9, 10, 11, 12, 13, 32]) for _ in range(r.randrange(1, 4)))
            chars = bytes(c for c in chars if c != 0)
            nv_ = x.val.strip(chars) if chars else x.val
            lab = 'trim/' + kd + ('/empty' if n == 0 else '/all' if not nv_ else '/some' if len(nv_) != n else '/none')
            if len(nv_) != n:
                sh.own(v, nv_, or3(len(nv_)))
            self.emit('trim %d %s' % (v, hexs(chars)), lab)
        elif what == 'printf':
            k = r.choice([0, 1, 5, 150, 199, 200, 201, 202, 203, 204, 250]) if r.random() < 0.35 else self.n()
            d = self.cdata(min(k, 400))
            lab = self.printf_shadow(v, d)
            self.emit('printf %d %s' % (v, hexs(d)), lab)
        elif what == 'printfs':
            # an argument of printf is the String's own C-string view; output length around the 200/203 boundary
            if not self.nulfree(v): return self.step()
            room = 203 - n
            tot = r.choice([room - 1, room, room + 1, 199 - n, 200 - n, 201 - n]) if (0 < room < 60 and r.random() < 0.5) else self.n(6)
            tot = max(0, min(tot, 80))
            ka = r.randrange(tot + 1)
            a, b = self.cdata(ka), self.cdata(tot - ka)
            lab0 = sh.cstr(v)
            lab = self.printf_shadow(v, a + sh.vars[v].val + b).replace('printf/', 'printf-self/') + '/' + lab0
            self.emit('printfs %d %s %s' % (v, hexs(a), hexs(b)), lab)
        elif what == 'appo':
            # append(p + off, len) with p the String's own C-string view
            lab0 = sh.cstr(v)
            x = sh.vars[v]; n = len(x.val)
            goal = r.choice(['whole', 'whole', 'suffix', 'prefix', 'inner', 'empty', 'fit', 'over'])
            if goal == 'whole' or n == 0: off, ln = 0, n
            elif goal == 'suffix': off = r.randrange(n + 1); ln = n - off
            elif goal == 'prefix': off, ln = 0, r.randrange(n + 1)
            elif goal == 'empty': off, ln = r.randrange(n + 1), 0
            elif goal in ('fit', 'over') and x.kind == 'O':
                ln = max(0, min(n, x.cap - n + (1 if goal == 'over' else 0))); off = r.randrange(n - ln + 1)
            else: off = r.randrange(n + 1); ln = r.randrange(n - off + 1)
            nv_ = x.val + x.val[off:off + ln]
            lab = mutate_known(nv_, n, len(nv_))
            self.emit('appo %d %d %d' % (v, off, ln), 'append-own-text/%s/%s%s' % (lab, lab0, shared))
        elif what == 'preo':
            # prepend(p + off, len) with p the String's own C-string view
            lab0 = sh.cstr(v)
            x = sh.vars[v]; n = len(x.val)
            goal = r.choice(['whole', 'whole', 'suffix', 'suffix', 'prefix', 'inner', 'empty'])
            if goal == 'whole' or n == 0: off, ln = 0, n
            elif goal == 'suffix': off = r.randrange(n + 1); ln = n - off
            elif goal == 'prefix': off, ln = 0, r.randrange(n + 1)
            elif goal == 'empty': off, ln = r.randrange(n + 1), 0
            else: off = r.randrange(n + 1); ln = r.randrange(n - off + 1)
            kd1 = x.kind + ('/shared' if sh.refs(v) > 1 else '')
            nv_ = x.val[off:off + ln] + x.val
            sh.own(v, nv_, or3(len(nv_)))
            self.emit('preo %d %d %d' % (v, off, ln), 'prepend-own-text/%s/%s/%s' % (kd1, goal, lab0))
        elif what == 'trimd':
            # trim() with the default character set " \t\r\n\v": mostly on a value that was given white space at its ends
            # (0x0c, the form feed, 0x85 and 0xa0 are NOT in the set)
            if r.random() < 0.8:
                ws = [0x20, 0x09, 0x0d, 0x0a, 0x0b, 0x0d, 0x0b, 0x0c, 0x85, 0xa0, 0x1f, 0x08, 0x0e]
                for side in ('preb', 'appb'):
                    if r.random() < 0.75:
                        d = bytes(r.choice(ws) for _ in range(r.randrange(1, 4)))
                        if side == 'preb':
                            sh.own(v, d + sh.vars[v].val, or3(len(d) + len(sh.vars[v].val)))
                            self.emit('preb %d %s' % (v, hexs(d)), 'prepend-buffer/' + kd + shared)
                        else:
                            n0 = len(sh.vars[v].val)
                            sh.detach(v, n0, n0 + len(d)); sh.vars[v].val = sh.vars[v].val + d
                            self.emit('appb %d %s' % (v, hexs(d)), 'append-buffer/ws')
            x = sh.vars[v]; n = len(x.val)
            nv_ = x.val.strip(b' \t\r\n\v')
            kd1 = x.kind + ('' if x.term else 'u')
            lab = 'trim-default/' + kd1 + ('/empty' if n == 0 else '/all' if not nv_ else '/some' if len(nv_) != n else '/none')
            if len(nv_) != n:
                sh.own(v, nv_, or3(len(nv_)))
            self.emit('trimd %d' % v, lab)
        elif what == 'substrd':
            if full: return self.step()
            st = r.choice([0, 1, n, n + 1, -1, -n, -n - 1, r.randrange(-n - 2, n + 3)])
            s0 = max(0, n + st) if st < 0 else min(st, n)
            d = x.val[s0:]
            sh.ngrp += 1
            sh.vars.append(Var(d, 'O', or3(len(d)), sh.ngrp))
            self.emit('substrd %d %d' % (v, st), 'substr(start)/' + ('neg-start' if st < 0 else 'past-end' if st > n else 'in'))
        elif what in ('splitd', 'splitsetd'):
            if not self.nulfree(v): return self.step()
            seps = self.piece_of(v, 2) if r.random() < 0.8 else self.cdata(r.randrange(0, 3))
            seps = bytes(c for c in seps if c != 0)
            sh.cstr(v)
            self.emit('%s %d %s' % (what, v, hexs(seps)), ('split(list, seps)/' if what == 'splitd' else 'split(set, seps)/') + kd)
        elif what == 'join':
            k = r.choice([0, 1, 2, 2, 3])
            us = [self.other(v) if r.random() < 0.4 else r.randrange(len(sh.vars)) for _ in range(k)]
            sep = r.choice(self.alpha)
            parts = [sh.vars[u].val for u in us]
            nv_ = bytes([sep]).join(parts)
            lab = 'join/%d%s%s' % (k, '/self-in-list' if v in us else '', shared)
            if len(nv_) > 600: return self.step()
            # representation after clear + appends
            if k == 0:
                if x.kind == 'O' and sh.refs(v) == 1: x.val = b''
                else: x.val, x.kind, x.cap, x.grp, x.term = b'', 'E', 0, None, True
            else:
                sh.own(v, nv_, or3(len(nv_)))     # approximate capacity
            self.emit('join %d %d %s' % (v, sep, ' '.join(str(u) for u in us)), lab)
        elif what == 'substr':
            if full: return self.step()
            st = r.choice([0, 1, n, n + 1, -1, -n, -n - 1, r.randrange(-n - 2, n + 3)])
            ln = r.choice([-1, 0, 1, n, n + 1, r.randrange(-2, n + 3)])
            L = n
            s0 = max(0, L + st) if st < 0 else min(st, L)
            e0 = min(s0 + ln, L) if ln >= 0 else L
            d = x.val[s0:e0]
            sh.ngrp += 1
            sh.vars.append(Var(d, 'O', or3(len(d)), sh.ngrp))
            self.emit('substr %d %d %d' % (v, st, ln), 'substr/' + ('neg-start' if st < 0 else 'past-end' if st > L else 'in') + ('/to-end' if ln < 0 else ''))
        elif what in ('tokc', 'toks'):
            if full or not self.nulfree(v): return self.step()
            st = r.choice([0, 0, n, r.randrange(0, n + 1)] + ([n + 1 + r.randrange(3)] if what == 'tokc' else []))
            if what == 'tokc':
                seps = bytes([r.choice([y for y in (list(x.val) or ALPHA_TEXT) if y != 0])]) if r.random() < 0.7 else bytes([r.choice(ALPHA_TEXT)])
            else:
                seps = self.piece_of(v, 2) if r.random() < 0.7 else self.cdata(r.randrange(0, 3))
                seps = bytes(c for c in seps if c != 0)
            if st < n: sh.cstr(v)
            elif what == 'toks': sh.cstr(v)
            rest = x.val[st:] if st < n else b''
            idx = next((i for i, y in enumerate(rest) if y in seps), None)
            d = rest[:idx] if idx is not None else rest
            sh.ngrp += 1
            sh.vars.append(Var(d, 'O', or3(len(d)), sh.ngrp))
            lab = 'token-%s/%s/%s' % ('char' if what == 'tokc' else 'set', 'found' if idx is not None else 'rest', 'start>=len' if st >= n else 'in')
            if what == 'tokc': self.emit('tokc %d %d %d' % (v, seps[0], st), lab)
            else: self.emit('toks %d %s %d' % (v, hexs(seps), st), lab)
        elif what == 'split':
            if not self.nulfree(v): return self.step()
            seps = self.piece_of(v, 2) if r.random() < 0.8 else self.cdata(r.randrange(0, 3))
            seps = bytes(c for c in seps if c != 0)
            sh.cstr(v)
            self.emit('split %d %s %d' % (v, hexs(seps), r.randrange(2)), 'split/' + kd)
        elif what in ('eq', 'starts', 'ends'):
            u = self.other(v)
            self.emit('%s %d %d' % (what, v, u), what + ('/self' if u == v else ''))
        elif what in ('cmp', 'cmpi', 'eqi', 'cmpn', 'cmpin'):
            u = self.other(v)
            if r.random() < 0.35:
                # an operand that agrees with v on a prefix and then differs (bytes >= 0x80 against bytes < 0x80,
                # embedded NUL before the difference, different case, one a proper prefix of the other)
                cands = [i for i, y in enumerate(sh.vars) if i != v and y.val[:1] == x.val[:1]]
                if cands: u = r.choice(cands)
            if what in ('cmpn', 'cmpin'):
                k = r.choice([0, 1, n, n + 1, n + 5, r.randrange(0, n + 2)])
                self.emit('%s %d %d %d' % (what, v, u, k), what + '/' + kd)
            else:
                self.emit('%s %d %d' % (what, v, u), what + '/' + kd + ('/self' if u == v else ''))
        elif what in ('findc', 'findlc'):
            c = r.choice(list(x.val) or self.alpha) if r.random() < 0.7 else r.choice(self.alpha)
            self.emit('%s %d %d' % (what, v, c), what)
        elif what == 'findcf':
            if not self.nulfree(v): return self.step()
            c = r.choice([y for y in (list(x.val) or ALPHA_TEXT)]) if r.random() < 0.7 else r.choice(ALPHA_TEXT)
            st = r.choice([0, n, n + 1, r.randrange(0, n + 2)])
            if st < n: sh.cstr(v)
            self.emit('findcf %d %d %d' % (v, c, st), 'findcf/' + kd)
        elif what in ('finds', 'findo', 'findls', 'findlo', 'findsf', 'findof'):
            if not self.nulfree(v): return self.step()
            d = self.piece_of(v)
            d = bytes(c for c in d if c != 0)
            if what in ('findsf', 'findof'):
                st = r.choice([0, n, n, n + 1, r.randrange(0, n + 2)])
                if what == 'findsf' and r.random() < 0.15: d = b''          # the empty needle, found at every start <= length()
                if st < n or (what == 'findsf' and st == n): sh.cstr(v)     # find(str, start) takes the view for start <= len (fix 10)
                self.emit('%s %d %s %d' % (what, v, hexs(d), st), what + '/' + kd + ('/empty-arg' if not d else ''))
            else:
                sh.cstr(v)
                self.emit('%s %d %s' % (what, v, hexs(d)), what + '/' + kd + ('/empty-arg' if not d else ''))
        elif what == 'eqlit':
            # operator==/!= against a string literal (array overloads): equal, one byte off, one byte longer / shorter
            base = x.val if (self.nulfree(v) and n <= 39) else self.cdata()
            goal = r.choice(['same', 'same', 'last', 'longer', 'shorter', 'other'])
            if goal == 'last' and base: d = base[:-1] + bytes([base[-1] ^ 1 or 1])
            elif goal == 'longer' and len(base) < 39: d = base + bytes([r.choice(ALPHA_TEXT)])
            elif goal == 'shorter' and base: d = base[:-1]
            elif goal == 'other': d = self.cdata()
            else: d = base
            d = d[:39]
            self.emit('eqlit %d %s' % (v, hexs(d)), 'eq-literal/' + ('equal' if d == x.val else 'len-equal' if len(d) == n else 'len-differs'))
        elif what == 'splitset':
            if not self.nulfree(v): return self.step()
            seps = self.piece_of(v, 2) if r.random() < 0.8 else self.cdata(r.randrange(0, 3))
            seps = bytes(c for c in seps if c != 0)
            sh.cstr(v)
            toks = re.split(b'[' + b''.join(b'\\x%02x' % c for c in seps) + b']', x.val) if seps else [x.val]
            self.emit('splitset %d %s %d' % (v, hexs(seps), r.randrange(2)), 'split-set/' + kd + ('/duplicates' if len(set(toks)) < len(toks) else ''))
        elif what == 'fromprintf':
            if full: return self.step()
            k = r.choice([0, 1, 5, 198, 199, 200, 201, 203, 204, 250]) if r.random() < 0.4 else self.n()
            d = self.cdata(k)
            sh.ngrp += 1
            sh.vars.append(Var(d, 'O', 200 if len(d) < 200 else or3(len(d)), sh.ngrp))
            self.emit('fromprintf %s' % hexs(d), 'fromPrintf/' + ('fits' if len(d) < 200 else 'second-pass' + ('-exact' if len(d) == 200 else '')))
        elif what == 'stat':
            u = self.other(v)
            if r.random() < 0.4:
                cands = [i for i, y in enumerate(sh.vars) if i != v and y.val[:1] == x.val[:1]]
                if cands: u = r.choice(cands)
            q = r.choice(['scmp', 'scmpn', 'scmpi', 'scmpin', 'eqin', 'eqin', 'sstarts', 'sstarts', 'slen', 'sfindc', 'sfindlc',
                          'sfinds', 'sfinds', 'sfindo', 'sfindo'])
            if q in ('sfinds', 'sfindo') and self.nulfree(v):
                # the needle / the character set is a variable too: a short one, else a new one cut out of v
                short = [i for i, y in enumerate(sh.vars) if len(y.val) <= 3 and 0 not in y.val]
                if short and r.random() < 0.6:
                    u = r.choice(short)
                elif not full:
                    d = bytes(c for c in self.piece_of(v) if c != 0)
                    sh.ngrp += 1
                    sh.vars.append(Var(d, 'O', or3(len(d)), sh.ngrp)); self.emit('buf ' + hexs(d), 'ctor/buffer')
                    u = len(sh.vars) - 1
            if q != 'eqin' and not (self.nulfree(v) and self.nulfree(u)): q = 'eqin'
            m = len(sh.vars[u].val)
            if q in ('scmpn', 'scmpin', 'eqin'): k = r.choice([0, 1, n, m, n + 1, m + 1, min(n, m), r.randrange(0, n + 2)])
            elif q in ('sfindc', 'sfindlc'): k = r.choice(list(x.val) or ALPHA_TEXT) if r.random() < 0.7 else r.choice(ALPHA_TEXT)
            else: k = 0
            self.emit('stat %s %d %d %d' % (q, v, u, k), 'static/' + q + ('/self' if u == v else ''))
        elif what == 'pluseq':
            u = self.other(v)
            nv_ = x.val + sh.vars[u].val
            lab = mutate_known(nv_, n, len(nv_))
            self.emit('pluseq %d %d' % (v, u), 'operator+=(String)/%s/%s%s' % (lab, 'self' if u == v else 'other', shared))
        elif what == 'pluseqc':
            c = r.choice(self.alpha)
            lab = mutate_known(x.val + bytes([c]), n, n + 1)
            self.emit('pluseqc %d %d' % (v, c), 'operator+=(char)/' + lab + shared)
        elif what in ('plus', 'pluslit', 'plusasg'):
            if what != 'plusasg' and full: return self.step()
            if what == 'plusasg':
                # d = a + b with every pattern of coincidence between d, a and b
                pat = r.choice(['ddd', 'dda', 'dad', 'daa', 'dab', 'dab'])
                d_ = v
                a_ = d_ if pat[1] == 'd' else self.other(d_)
                b_ = d_ if pat[2] == 'd' else (a_ if pat[2] == pat[1] else self.other(d_))
            else:
                a_ = v
                b_ = self.other(v)
            xa = sh.vars[a_]
            if what == 'pluslit':
                lit = self.cdata(min(self.n(6), 39)) if not self.binary or r.random() < 0.5 else self.data(min(self.n(6), 39))
                sh.regs.append(lit + b'\0')
                rhs = lit
            else:
                rhs = sh.vars[b_].val
            val = xa.val + rhs
            # the temporary String( *this): shares an owned block (then append reallocates), deep-copies a view
            if xa.kind == 'V' and len(val) <= or3(len(xa.val)): cap, how = or3(len(xa.val)), 'temp-inplace'
            else: cap, how = or3(len(val)), 'temp-realloc'
            lab = '%s/%s/%s' % (xa.kind + ('' if xa.term else 'u'), how, 'rhs-empty' if not rhs else 'rhs')
            if what == 'plus':
                sh.ngrp += 1
                sh.vars.append(Var(val, 'O', cap, sh.ngrp))
                self.emit('plus %d %d' % (a_, b_), 'operator+(String)/' + lab + ('/self' if a_ == b_ else ''))
            elif what == 'pluslit':
                sh.ngrp += 1
                sh.vars.append(Var(val, 'O', cap, sh.ngrp))
                self.emit('pluslit %d %s' % (a_, hexs(lit)), 'operator+(literal)/' + lab)
            else:
                kd_ = sh.vars[d_].kind + ('' if sh.vars[d_].term else 'u') + ('/shared' if sh.refs(d_) > 1 else '')
                sh.own(d_, val, cap)
                self.emit('plusasg %d %d %d' % (d_, a_, b_), 'd=a+b/%s/pattern-%s/into-%s' % (lab, pat, kd_))
        elif what == 'frombool':
            if full: return self.step()
            b = r.randrange(2)
            t_ = b'true' if b else b'false'
            sh.regs.append(t_ + b'\0')
            sh.vars.append(Var(t_, 'V', 0, None, True))
            self.emit('frombool %d' % b, 'fromBool/%d' % b)
        elif what == 'fromcstr':
            if full: return self.step()
            d = self.cdata(self.n())
            sh.ngrp += 1
            sh.vars.append(Var(d, 'O', or3(len(d)), sh.ngrp))
            self.emit('fromcstr ' + hexs(d), 'fromCString(str)/' + ('empty' if not d else 'text'))
        elif what == 'fromcstrn':
            if full: return self.step()
            d = self.data()
            k = r.choice([0, len(d), len(d), r.randrange(len(d) + 1)])
            sh.ngrp += 1
            sh.vars.append(Var(d[:k], 'O', or3(k), sh.ngrp))
            self.emit('fromcstrn %s %d' % (hexs(d), k), 'fromCString(str,len)/' + ('all' if k == len(d) else 'prefix') + ('/nul-inside' if 0 in d[:k] else ''))
        elif what == 'tobool':
            # mostly on texts near the false / true border: put one into the variable first
            if r.random() < 0.75:
                t_ = self.boolish()
                how = r.choice(['attach-unterminated', 'attach-terminated', 'assign-buffer', 'assign-buffer'])
                if how.startswith('attach') or full:
                    tail = b'\0' if how == 'attach-terminated' else bytes([r.choice([0x21, 0x30, 0x2e])])
                    self.emit('reg ' + hexs(t_ + tail), 'region'); sh.regs.append(t_ + tail)
                    x.val, x.kind, x.cap, x.grp, x.term = t_, 'V', 0, None, tail == b'\0'
                    self.emit('attach %d %d 0 %d' % (v, len(sh.regs) - 1, len(t_)), 'attach/' + kd + '/' + ('term' if x.term else 'unterm'))
                else:
                    sh.ngrp += 1
                    sh.vars.append(Var(t_, 'O', or3(len(t_)), sh.ngrp)); self.emit('buf ' + hexs(t_), 'ctor/buffer')
                    sh.assign(v, len(sh.vars) - 1)
                    self.emit('asg %d %d' % (v, len(sh.vars) - 1), 'assign/%s<-O' % kd)
            if not self.nulfree(v): return self.step()
            x = sh.vars[v]; val = x.val
            early = (not val) or val.lower() == b'false' or val == b'0'
            lab0 = 'early' if early else sh.cstr(v)
            import re as _re
            res = not (early or (_re.fullmatch(rb'0*\.0*', val) is not None and val != b'.'))
            self.emit('tobool %d' % v, 'toBool/%s/%s' % ('true' if res else 'false', lab0))
        elif what == 'char':
            q = r.choice(['lower', 'upper', 'isspace', 'isalnum', 'isalpha', 'isdigit', 'islower', 'isprint', 'ispunct', 'isupper', 'isxdigit'])
            c = r.choice([0, 8, 9, 13, 14, 31, 32, 33, 47, 48, 57, 58, 64, 65, 70, 71, 90, 91, 96, 97, 102, 103, 122, 123, 126, 127, 128, 137, 141, 160, 255]) \
                if r.random() < 0.6 else r.randrange(256)
            self.emit('char %s %d' % (q, c), 'char/' + q)
        elif what == 'len':
            self.emit('len %d' % v, 'len')
        elif what == 'drop':
            if len(sh.vars) <= 1 or r.random() < 0.5: return self.step()
            sh.vars.pop()
            self.emit('drop', 'dtor' + ('/shared' if False else ''))
        else:
            return self.step()

    BOOLISH = [b'', b'0', b'00', b'000', b'0.0', b'0.', b'.0', b'.', b'00.000', b'.00', b'0.00x', b'0.01', b'0.0.', b'0..0', b'..0', b'x0.0',
               b'false', b'FALSE', b'FaLsE', b'falsE', b'false ', b' false', b'fals', b'falsee', b'true', b'1', b'0 ', b' 0', b'-0', b'+0.0',
               b'0x', b'0.0\x80', b'\xff', b'0,0', b'O.O']

    def boolish(self):
        r = self.rng
        if r.random() < 0.6:
            return r.choice(self.BOOLISH)
        return bytes(r.choice(b'000..x') for _ in range(r.randrange(0, 7)))

    def printf_shadow(self, v, d):
        """String::printf keeps the old data in a temporary, so its detach(0, 200) always reallocates"""
        sh = self.sh
        x = sh.vars[v]
        kd = x.kind + ('' if x.term else 'u') + ('/shared' if sh.refs(v) > 1 else '')
        sh.own(v, x.val, 203)
        lab = 'printf/' + kd + ('/fits' if len(d) < 203 else '/second-pass' + ('-exact' if len(d) == 203 else ''))
        if len(d) >= 203:
            sh.own(v, d, or3(len(d)))
        sh.vars[v].val = d
        return lab

    def history(self, nops):
        r = self.rng
        self.new_var()
        for _ in range(nops):
            if len(self.sh.vars) < self.maxv and r.random() < (0.45 if len(self.sh.vars) < 2 else 0.1):
                self.new_var()
            else:
                self.step()
        return self.ops


CORE_OPS = ['apps', 'appb', 'appc', 'appo', 'pres', 'preb', 'preo', 'asg', 'copy-mutate', 'resize', 'reserve', 'clear', 'detach', 'poke', 'cstr',
            'attach', 'eq', 'len', 'drop']

# round 3: the concatenation operators between variables in every representation (empty, literal, unterminated view,
# owned, shared), with the variable itself on any side, plus what changes representations in between
CONCAT_OPS = ['pluseq', 'pluseq', 'pluseqc', 'plus', 'plus', 'pluslit', 'plusasg', 'plusasg', 'plusasg', 'copy-mutate', 'asg', 'attach',
              'attach', 'cstr', 'clear', 'drop', 'reserve', 'resize', 'eq', 'len', 'appc', 'frombool', 'fromcstr', 'fromcstrn']

CHAR_QUERIES = ['lower', 'upper', 'isspace', 'isalnum', 'isalpha', 'isdigit', 'islower', 'isprint', 'ispunct', 'isupper', 'isxdigit']


def char_cases():
    """every static char function on every byte: 11 cases of 256 operations"""
    return [['char %s %d' % (q, c) for c in range(256)] for q in CHAR_QUERIES]


def tobool_cases(maxlen):
    """toBool on every text over {'0', '.', 'x'} up to maxlen and on the listed border texts, held as an owned buffer, as
    an UNTERMINATED attached window (the C-string view has to detach first) and as a literal"""
    texts = [bytes(t) for k in range(maxlen + 1) for t in itertools.product(b'0.x', repeat=k)]
    texts += [t for t in Gen.BOOLISH if t not in texts]
    out = []
    for t in texts:
        ops = ['buf ' + hexs(t), 'tobool 0', 'reg ' + hexs(t + b'0'), 'new', 'attach 1 0 0 %d' % len(t), 'tobool 1']
        if len(t) <= 39 and 0 not in t:
            ops += ['lit ' + hexs(t), 'tobool 2']
        ops += ['fromcstr ' + hexs(t), 'tobool %d' % (3 if len(ops) == 8 else 2), 'pluseq 0 0', 'tobool 0', 'pluslit 0 2e30', 'tobool %d' % (4 if len(ops) == 8 else 3)]
        out.append(ops)
    return out


def default_cases():
    """round 5: the defaulted arguments.  trim() on every byte c put at both ends of a text (owned buffer and attached
    window): exactly blank, \\t, \\r, \\n, \\v go away; substr(start) and split(tokens, separators) without the last argument"""
    out = []
    for c in range(256):
        h = '%02x' % c
        out.append(['buf ' + h + '61' + h, 'trimd 0', 'reg ' + h + h + '6220' + h + '21', 'new', 'attach 1 0 0 5', 'trimd 1',
                    'buf 20' + h + '0d630b' + h + '09', 'trimd 2'])
    for st in (-9, -3, -1, 0, 1, 2, 5, 6, 7):
        out.append(['buf 616263646566', 'substrd 0 %d' % st, 'substr 0 %d -1' % st, 'eq 1 2', 'lit 6162', 'substrd 3 %d' % st])
    for seps in ('2c', '2c3b', '-'):
        out.append(['buf 2c612c2c623b632c', 'splitd 0 ' + seps, 'split 0 %s 1' % seps, 'splitsetd 0 ' + seps, 'splitset 0 %s 1' % seps,
                    'lit 2c2c', 'splitd 1 ' + seps, 'splitsetd 1 ' + seps])
    return out


# round 5: values around the widths of narrower integer types.  A value of n bytes is built by fill / resize / append,
# then handed to the operations that carry a length through their own arithmetic (substr and everything built on it:
# token, split, trim; append / prepend / assignment / copy; join; comparison and search answers are positions).
EDGE_SIZES = [255, 256, 257, 32767, 32768, 32769, 65534, 65535, 65536, 65537, 65540, 70000]


SLOW_HUGE = ['split', 'trim', 'trimd']       # linear since the reference reverses with frev (round 5)


HUGE_KINDS = ['substrd', 'substr', 'tokc', 'toks', 'copy', 'asg', 'apps', 'pres', 'preb', 'appo', 'preo', 'findc', 'findlc', 'finds', 'findls',
              'cmp', 'join', 'plus', 'len', 'cstr', 'lower', 'reps', 'printfs'] + SLOW_HUGE


def huge_cases(rng, count):
    # systematic part: every operation kind meets a value longer than 2^16 once and a value at another boundary once;
    # the rest of the budget is random
    plan = []
    groups = [HUGE_KINDS[i:i + 4] for i in range(0, len(HUGE_KINDS), 4)]
    small = [32768, 32769, 256, 257, 65535, 32767, 255, 65534]
    for gi, g in enumerate(groups):
        plan.append((rng.choice([65536, 65537, 65540, 70000]), list(g)))
        plan.append((small[gi % len(small)], list(g)))
    while len(plan) < count:
        plan.append((rng.choice(EDGE_SIZES[3:]), rng.sample(HUGE_KINDS, 4)))
    out = []
    for n, tail in plan:
        c = rng.choice([0x61, 0x7a, 0x80])
        ops = []
        how = rng.randrange(3)
        if how == 0:
            ops.append('fill %d %d' % (n, c))
        elif how == 1:
            ops += ['fill %d %d' % (n - 3, c), 'appb 0 %s' % hexs(bytes([c, 0x62, c]))]
        else:
            ops += ['buf 6162', 'resize 0 %d %d' % (n, c)]
        # a marker near the end: positions above the boundary are answers too
        pos = rng.choice([n - 1, n - 2, n // 2 + 1])
        ops.append('poke 0 %d %d' % (pos, 0x51))
        nv = 1
        for t_ in tail:
            if t_ == 'substrd': ops.append('substrd 0 %d' % rng.choice([0, 1, -n, -(n - 1)])); nv += 1
            elif t_ == 'substr': ops.append('substr 0 %d %d' % (rng.choice([0, 1, 2]), rng.choice([n, n - 1, n - 2, 65536, 65535, 32768, 256]))); nv += 1
            elif t_ == 'tokc': ops.append('tokc 0 %d %d' % (0x51, rng.choice([0, 1]))); nv += 1
            elif t_ == 'toks': ops.append('toks 0 5121 %d' % rng.choice([0, 1])); nv += 1
            elif t_ == 'split': ops.append('split 0 51 %d' % rng.randrange(2))
            elif t_ == 'trim': ops += ['preb 0 2020', 'appb 0 20', 'trim 0 20']
            elif t_ == 'trimd': ops += ['preb 0 0d', 'appb 0 0b0a', 'trimd 0']
            elif t_ == 'copy': ops += ['copy 0', 'appc %d 33' % nv, 'eq 0 %d' % nv]; nv += 1
            elif t_ == 'asg': ops += ['new', 'asg %d 0' % nv, 'len %d' % nv]; nv += 1
            elif t_ == 'apps': ops += ['buf 78', 'apps %d 0' % nv, 'len %d' % nv]; nv += 1
            elif t_ == 'pres': ops += ['buf 78', 'pres %d 0' % nv, 'len %d' % nv]; nv += 1
            elif t_ == 'preb': ops.append('preb 0 7879')
            elif t_ == 'appo': ops.append('appo 0 %d %d' % (rng.choice([0, 1]), rng.choice([2, 256, 257])))
            elif t_ == 'preo': ops.append('preo 0 %d %d' % (rng.choice([0, 1]), rng.choice([2, 256, 257])))
            elif t_ == 'findc': ops.append('findc 0 81')
            elif t_ == 'findlc': ops.append('findlc 0 81')
            elif t_ == 'finds': ops.append('finds 0 51')
            elif t_ == 'findls': ops.append('findls 0 51')
            elif t_ == 'cmp': ops += ['copy 0', 'poke %d %d 33' % (nv, n - 1), 'cmp 0 %d' % nv, 'cmpn 0 %d %d' % (nv, n - 1), 'starts 0 %d' % nv]; nv += 1
            elif t_ == 'join': ops += ['new', 'join %d 44 0 0' % nv, 'len %d' % nv]; nv += 1
            elif t_ == 'plus': ops += ['plus 0 0', 'len %d' % nv]; nv += 1
            elif t_ == 'len': ops.append('len 0')
            elif t_ == 'cstr': ops.append('cstr 0')
            elif t_ == 'lower': ops.append('upper 0')
            elif t_ == 'reps': ops += ['buf 51', 'buf 5252', 'reps 0 %d %d' % (nv, nv + 1)]; nv += 2
            elif t_ == 'printfs': ops.append('printfs 0 3c 3e')
        out.append(ops)
    return out


# comparisons of near-copies: copy, change one byte / case / length, compare (binary alphabet: 0x00, 0x80, 0xff)
CMP_OPS = ['copy-mutate', 'copy-mutate', 'poke', 'poke', 'appc', 'appb', 'resize', 'lower', 'upper', 'attach', 'asg', 'eq', 'cmp', 'cmp',
           'cmpn', 'cmpi', 'cmpin', 'eqi', 'starts', 'ends', 'drop', 'trim', 'stat', 'stat', 'eqlit']


def scope_cases(depth, alphabet):
    """every history of `depth` operations over a fixed alphabet after a fixed prologue:
    v0 literal "ab", v1 owned "cd" shared with v2, v3 unterminated view of "xyz!" """
    base = ['lit 6162', 'buf 6364', 'copy 1', 'reg 78797a21', 'new', 'attach 3 0 0 3']
    return [base + list(seq) for seq in itertools.product(alphabet, repeat=depth)]


SCOPE_ALPHABET = [
    'apps 1 1', 'apps 1 0', 'apps 0 3', 'apps 3 1', 'pres 1 1', 'pres 0 0', 'pres 3 3', 'pres 2 3', 'preb 1 7a', 'appb 0 -', 'appb 1 6162636465',
    'appc 3 33', 'asg 0 0', 'asg 1 0', 'asg 3 1', 'asg 1 1', 'asg 3 3', 'copy 3', 'copy 1', 'drop', 'clear 1', 'clear 3', 'clear 0',
    'resize 1 0 120', 'resize 1 5 120', 'resize 3 2 120', 'resize 0 3 120', 'reserve 1 2', 'reserve 1 9', 'reserve 3 0', 'detach 3', 'detach 1',
    'poke 1 0 90', 'poke 3 2 90', 'cstr 3', 'cstr 0', 'cstr 1', 'attach 1 0 1 2', 'attach 0 0 0 3', 'eq 1 2', 'eq 3 3',
    'reps 3 0 1', 'reps 1 1 0', 'reps 3 3 3', 'trim 3 78', 'lower 0', 'upper 3', 'repc 1 99 67', 'join 1 44 1 3', 'join 3 44', 'printf 3 7071',
    'substr 3 1 -1', 'tokc 3 121 0', 'toks 3 79 3', 'split 3 79 0', 'cmp 3 0', 'cmpn 3 3 9', 'eqi 3 0', 'finds 3 797a', 'findls 3 -', 'findcf 3 122 1',
    'starts 3 0', 'ends 3 3', 'findlo 3 78', 'findc 3 33',
    'appo 1 0 2', 'appo 3 1 2', 'appo 0 0 2', 'appo 2 1 0', 'printfs 1 3c 3e', 'printfs 3 - 21', 'printfs 0 - -',
    'eqlit 3 78797a', 'eqlit 0 6162', 'eqlit 1 63', 'eqlit 0 616263', 'splitset 3 79 0', 'splitset 0 62 1', 'fromprintf 7071',
    'stat scmp 3 0 0', 'stat scmpn 1 2 1', 'stat scmpi 0 1 0', 'stat scmpin 3 3 2', 'stat eqin 1 2 1', 'stat sstarts 3 0 0', 'stat sstarts 1 1 0',
    'stat slen 3 3 0', 'stat sfindc 3 3 122', 'stat sfindlc 0 0 98',
    # round 3
    'pluseq 1 1', 'pluseq 0 3', 'pluseq 3 3', 'pluseq 2 0', 'pluseqc 3 33', 'pluseqc 0 33', 'pluseqc 1 33', 'plus 1 1', 'plus 3 0', 'plus 0 0', 'plus 3 3',
    'pluslit 3 7a', 'pluslit 1 -', 'pluslit 0 6364', 'plusasg 1 1 1', 'plusasg 3 3 0', 'plusasg 0 1 0', 'plusasg 2 3 3', 'plusasg 3 0 3', 'plusasg 1 2 1',
    'frombool 1', 'frombool 0', 'fromcstr 7071', 'fromcstr -', 'fromcstrn 70007172 3', 'fromcstrn 7071 0', 'tobool 3', 'tobool 0', 'char lower 90',
    'char isspace 160', 'stat sfinds 3 0 0', 'stat sfinds 3 3 0', 'stat sfindo 3 3 0', 'stat sfindo 0 1 0',
    # round 5: a pointer into the own text handed to prepend; calls without the defaulted arguments
    'preo 1 0 2', 'preo 1 1 1', 'preo 3 1 2', 'preo 0 0 2', 'preo 2 1 0', 'trimd 3', 'trimd 1', 'substrd 3 1', 'substrd 0 -1', 'splitd 3 79',
    'splitsetd 0 62', 'appb 1 200d', 'preb 3 0b09',
    'findsf 3 - 3', 'findsf 3 - 4', 'findsf 0 - 2', 'findsf 3 7a 3', 'findsf 1 - 0', 'findof 3 - 3', 'findcf 3 122 3',
]


SCOPE3_ALPHABET = [
    'apps 1 1', 'apps 0 3', 'apps 3 1', 'pres 1 1', 'pres 3 3', 'pres 0 2', 'appb 1 6162636465', 'appc 3 33', 'asg 1 0', 'asg 3 1', 'asg 3 3',
    'copy 3', 'drop', 'clear 1', 'resize 1 5 120', 'resize 3 2 120', 'reserve 1 9', 'poke 1 0 90', 'cstr 3', 'attach 1 0 1 2', 'reps 3 3 1',
    'join 1 44 1 3', 'lower 2', 'printf 3 7071', 'trim 3 78', 'appo 1 0 2', 'appo 3 1 2', 'printfs 1 3c 3e',
    'pluseq 3 3', 'pluseq 1 0', 'plus 3 1', 'plusasg 1 1 1', 'plusasg 3 3 0', 'plusasg 0 3 0', 'pluslit 3 7a',
    'preo 1 0 2', 'preo 3 1 2',
]


class C06(Check):
    id = 'C06'
    comp = 'Str'
    extracted = ['coq/Str/model.mli', 'coq/Str/model.ml', 'ocaml/zconv.ml', 'ocaml/str_driver.ml']
    harness_sources = ['harness/str.cpp']
    technique = ('machine-checked proof in Coq about a hand-written Gallina model; model tied to the code by an '
                 'extracted-model vs implementation correspondence check')
    level_text = ('Theorems in Coq (closed under the global context) about an executable model of the lazy-copy String that mirrors '
                  'String.hpp/String.cpp method by method (variables = data pointers to emptyData / the inline non-owning descriptor / '
                  'a heap block with cells, len, capacity, ref; immutable foreign regions for literals and attached memory; every read '
                  'and write bounds-checked): for ALL histories of 67 operations over any number of String variables, '
                  'string_refines_values (the model never fails with a memory error and the values and query results equal those of k '
                  'independent byte lists under pure reference functions - construction, attach, copy/assign, append/prepend incl. the '
                  'String itself and a pointer INTO its own text as argument (round 5: also prepend(p + off, len), OPrependOwn; the calls '
                  'that leave out a defaulted argument - trim(), substr(start), split(tokens, separators) - are instances OTrimD / '
                  'OSubstrD / OSplitD / OSplitSetD of the general operations with the declared default value), resize/reserve/clear, write through char*, '
                  'replace(char,char), replace(String,String), case mapping via the tables regenerated from String.cpp, trim, substr, '
                  'token, split into List and HashSet, join, printf/fromPrintf bookkeeping incl. printf with the own text as argument, '
                  '==, == literal, compare*, equalsIgnoreCase, find*, startsWith/endsWith, length, the static const char* helpers incl. '
                  'find(in, str)/findOneOf(in, chars); since round 3 also operator+=(String), operator+=(char), operator+(String), '
                  'operator+(literal) and d = a + b with d, a, b coinciding in any pattern (the temporaries String(*this) / '
                  'String(literal) and the by-value result are variables of the model that are created, copied and destroyed in the '
                  'code\'s order), fromBool (a view of a literal), fromCString(str) / (str, len), toBool, and the static char '
                  'functions toLowerCase(c)/toUpperCase(c)/isSpace/isAlphanumeric/isAlpha/isDigit/isLowerCase/isPrint/isPunct/'
                  'isUpperCase/isHexDigit), string_refines_as_seen (round 5: the same statement with the results the property text does not '
                  'speak about - toBool, the character classifiers - blanked out by StrSpec.seen; this is what the property oracle '
                  'enforces on the code, the exact statement is what model and code are compared on), '
                  'empty_needle_found_up_to_length / nothing_else_at_length (find(x, start) of the reference: the empty needle at every '
                  'start <= length(), nothing else at length(), nothing behind it), char_functions_match_tables (for all 256 bytes the model\'s table lookups and range tests '
                  'equal the reference character sets, and the classifiers agree with the regenerated lowerCaseMap/upperCaseMap: upper '
                  'case letters = what lowerCaseMap moves, ...), plus_temporaries_die, '
                  'cstr_nul_terminated, copies_independent, foreign_memory_unchanged/foreign_memory_kept (structural: the model has no '
                  'writer for foreign regions; the clause is carried by run_memory_safe - a write through a non-owning descriptor '
                  'would be an error - and by the harness), self_args_as_if_copied, heap_invariant (ref = number of handles, no handle '
                  'to a freed block, nothing live after the last destructor). trim, ==, compare*, equalsIgnoreCase are total on byte '
                  'strings (embedded NUL included); operations built on strstr/strpbrk/strchr are specified for NUL-free values. The '
                  'model is tied to the code by running the extracted model, the extracted reference and an ASan/UBSan build of the '
                  'working tree on the same histories and comparing, after every operation and for every variable, length, bytes, '
                  'results, and (read-only via private access) the sharing partition of the data pointers, ref, capacity, capacity(), '
                  'terminator; literal/attached memory sits between poisoned guard areas and is re-read after every operation; '
                  'allocations are tracked through the sanitizer allocator hooks (no block live at the end of a case).')
    level_note = ('Partial in this sense: (1) printf/fromPrintf - the bytes vsnprintf produces are an INPUT of the operation (harness: '
                  'printf("%s", bytes); printfs: printf("%s%s%s", a, (const char*)s, b) where the model reads the middle part from the '
                  'data the String had before the call); only the keep-old-data/detach/capacity/length bookkeeping is modelled and '
                  'proved. (2) libc strstr/strpbrk/strchr are reference functions on NUL-free text (find_first of a suffix predicate), '
                  'trusted, not verified; the loops of libnstd around them (replace, split, token, trim, findLast) and its own loops '
                  '(compare family, static compare/length/find/findLast) are mirrored and proved equal to the reference functions. '
                  '(3) Domain: trim, ==, compare, compare(n), compareIgnoreCase(n), equalsIgnoreCase(n), startsWith/endsWith, find(char) '
                  'are specified and proved for ALL byte strings (after fixes 08/09; also compareIgnoreCase and equalsIgnoreCase without n). replace(String,String), token(char/set), split '
                  '(List/HashSet), find(char,start), find/findOneOf/findLast/findLastOf(const char*), printf with the own text and the '
                  'static const char* helpers are specified for NUL-FREE VALUES only - they are built on the C-string searches the '
                  'quantifier exempts; with an embedded NUL the code stops searching there (replace "b"->"x" in 61 62 00 61 62 gives '
                  '61 78 00 61 62; split of 61 2c 62 00 63 2c 64 at 2c gives 61 | 62 00 63 2c 64) and the reference is silent: the case '
                  'is cut at that operation ("! not-accepted"). (4) resize(n) beyond length() is driven as "resize, then fill the '
                  'exposed bytes through operator char*()" so that no indeterminate byte is ever observable; the state "grown from '
                  'empty without terminator" is only crossed, not observed. attach needs one readable byte behind the window '
                  '(off + len < |buffer|) and - PRECONDITION, second audit finding A - memory the caller keeps alive: the attached range must '
                  'not lie inside the block the String itself owns (attach releases that block; s.attach((const char*)s + 1, 3) on an owned '
                  's views freed memory - heap-use-after-free at String.hpp:93; "including when an argument is the String itself" is about '
                  'value arguments, attach takes over a memory range and no repair short of copying gives this a meaning; not driven, not a '
                  'finding). find(x, start) follows the reference byte string since round 5: start > length() finds nothing, at start = '
                  'length() only the empty needle is found (fix 10 repaired find(const char*, start), which refused start = length()); '
                  'token(char, start) with start >= length() answers the empty token (choice listed in the header of StrSpec.v). (5) split is observed through its List / sorted HashSet '
                  'result; the temporaries it creates, and the copies the static-helper ops run on, are not part of the model state. '
                  '(6) Not driven and not modelled: scanf (vsscanf of libc on the C-string view: formatting/parsing is outside the property '
                  'text), toInt/toUInt/toInt64/toUInt64/toDouble and fromInt/.../fromDouble (atoi/strtoul/printf wrappers), '
                  'fromHex/fromBase64 (C18), hash() (C02). The classifiers isAlphanumeric ... isHexDigit call libc <ctype.h> on (uchar)c: '
                  'the model holds them as the "C"-locale reference functions (the harness never calls setlocale), trusted like strstr; '
                  'isSpace, toLowerCase(c), toUpperCase(c) are the code\'s own range test on the SIGNED char / table lookups. toBool and the '
                  'classifiers isSpace ... isHexDigit are NOT operations of the property text (round 5, second audit finding E): their '
                  'results are wildcards of the property oracle (StrSpec.seen -> "?" in spec mode); the model still mirrors the code and a '
                  'different answer is reported as a correspondence break (no-failing-input-found), a crash or a changed value as a '
                  'violation. toBool reads '
                  'the C-string view and is specified for NUL-free values; its reference (StrSpec.s_tobool) is the reading of the code\'s '
                  'evident intent: false = empty, "false" in any case, "0", zeros around one decimal point with at least one zero; '
                  'everything else - also "00" and "0.0." - is true. fromBool returns a String describing a literal of the library: the '
                  'harness adopts that literal as a (guard-less) foreign buffer and re-reads it after every operation. (7) Sizes are assumed < 2^63 '
                  '(no usize wrap); values are driven up to 70000 bytes (stream huge: 2^8, 2^15, 2^16 boundaries; the model counts in unary, '
                  'so 2^31 / 2^32 sizes - reachable in the code through String(capacity) / reserve - are not driven). (8) foreign_memory_unchanged/foreign_memory_kept hold by construction of the model (no operation '
                  'writes a region); what excludes writes to literal/attached memory is run_memory_safe (Err WriteForeign never occurs) '
                  'plus the guarded foreign memory of the harness. Trusted: Coq kernel, StrSpec.v as the reading of the property, '
                  'extraction + OCaml driver, harness, generators, table translator. The theorems are about the model; the tie to the '
                  'code is differential. Validated by correspondence only: nothing modelled is left unproved.')
    rule = ('cases = histories over 1..5 String variables built by a steering shadow: constructors (default, literal via the array '
            'constructor, buffer, fill, capacity, copy, fromPrintf), attach to fresh or SHARED foreign buffers (terminated and '
            'unterminated windows), and every mutator/query; sizes aim at the capacity decisions of detach (fit / exact / +1 / |3 '
            'boundaries / 0 / same), String arguments are the variable itself or a sharer of its block with raised probability (stream '
            'selfargs: 70%), append(p + off, len) and printf("%s", p) with p the own C-string view (whole / prefix / suffix / inner / '
            'empty ranges, output lengths around 200/203), needles and separator sets are cut out of the current value, literals for '
            '== are the value, one byte off, one longer, one shorter; streams: core (operations of the heap proof), text (all '
            'operations, NUL-free), binary (embedded NUL, 0x80, 0xff), selfargs, compare (copy, change one byte / case / length, then '
            '==, compare*, equalsIgnoreCase, static helpers, trim; binary alphabet), long (60-140 operations, lengths to 300, '
            'printf around the 200/203 boundary), concat / concat-binary (round 3: += and + with String / char / literal, d = a + b '
            'with the six coincidence patterns ddd dda dad daa dab, 50% self or sharer arguments, fromBool, fromCString, between '
            'attach / copy / assign / clear / resize / reserve), chars (EXHAUSTIVE: the 11 static char functions on all 256 bytes), '
            'tobool (EXHAUSTIVE: toBool on every text over {0 . x} up to length 5 (thorough: 6) and 35 border texts, held as '
            'owned buffer / unterminated attached window / literal / fromCString result / after += / after + literal), '
            'defaults (round 5, EXHAUSTIVE: trim() with every byte 0..255 at both ends of an owned and an attached text, substr(start), '
            'split(tokens, separators) for List and HashSet), huge (round 5: values of 255..257, 32767..32769, 65534..65540, 70000 bytes built '
            'by fill / resize / append, then substr, token, split, trim, copy / assign, append / prepend also from the own text, join, +, '
            'replace, printf with the own text, comparison, search; values above 1024 bytes are compared by length and FNV-1a checksum), '
            'scope1/scope2 (EXHAUSTIVE: every history of 1 resp. 2 operations of a '
            '143-operation alphabet after a fixed prologue with a literal, two variables sharing a block and an unterminated view). A '
            'case is non-trivial when the implementation\'s own dump shows at least two of {block shared by two variables, view, '
            'unterminated view, capacity change, self argument} and it has >= 3 mutating operations; distinct = distinct op text.')
    assumptions = ['sizes < 2^63 (no usize wrap-around in capacity arithmetic)',
                   'printf/fromPrintf: formatting is an input (the operation carries the bytes vsnprintf produced; for printf with the own text as argument: the bytes around it)',
                   'strstr/strpbrk/strchr of libc behave as first-occurrence search on NUL-free text (reference functions in StrModel.v)',
                   'isalnum/isalpha/isdigit/islower/isprint/ispunct/isupper/isxdigit of libc classify (uchar)c as in the "C" locale (reference functions m_is* in StrModel.v)',
                   'an indeterminate byte at str[len] is taken as non-zero by the C-string view (either answer yields a terminated view)',
                   'attach(p, n): [p, p + n] is memory the caller keeps alive, not part of the block the String itself owns (precondition; the String releases its own block in attach)',
                   'toBool and the character classifiers are outside the property text: their answers are compared with the model (correspondence) but are wildcards of the property oracle',
                   'StrSpec.v is the reading of the property text (values = byte lists, pure reference functions, domain predicate pre; its header lists what pre restricts and the choices made where the text is silent)']
    per_case_timeout = 1

    def __init__(self):
        super().__init__()
        self.branch_counts = {}

    def gen_tables(self):
        return [tables.gen_str()]

    # The reference is silent outside its domain (an index that does not exist, a NUL byte in an
    # operand of a C-string based search).  The implementation is only driven up to the first such
    # operation of a case; the line "! not-accepted" is put where the reference stops.
    def run_impl(self, cases, tag='impl'):
        spec = self.run_spec(cases, tag=tag + '_dom')
        cut, trimmed = [], []
        for c, s in zip(cases, spec):
            k = next((i for i, l in enumerate(s) if l.startswith('! not-accepted')), None)
            cut.append(k)
            trimmed.append(list(c) if k is None else list(c[:k]))
        obs, crashes = self.run_impl_bounded(trimmed, tag)
        # sanitizer reports the shared classifier does not name: reads of the poisoned guard areas
        # next to foreign memory, and a negative length handed to memcpy
        for i, (kind, err) in crashes.items():
            better = ('oob' if 'use-after-poison' in err else 'negative-size' if 'negative-size-param' in err else None)
            if better and obs[i] and obs[i][-1].startswith('! exit'):
                obs[i][-1] = '! ' + better
        for i, k in enumerate(cut):
            if k is not None and obs[i] and obs[i][-1].startswith('end'):
                obs[i] = obs[i][:-1] + ['! not-accepted', obs[i][-1]]
        return obs, crashes

    # A tree on which (nearly) every case crashes or hangs costs a harness restart / a watchdog second per case: give up a
    # stream after ~150 crashes (a time-out counts 4), and once ~450 have been seen in the whole run look at only the first
    # cases of each later stream.  What was not run is marked '! notrun' (vf drops those cases from the stream).
    STREAM_BUDGET, RUN_BUDGET, AFTER_BUDGET = 150, 450, 12

    def run_impl_bounded(self, cases, tag):
        if tag.startswith('shr_') or len(cases) <= self.AFTER_BUDGET:
            return super().run_impl(cases, tag)
        cost = lambda cr: sum(4 if k == 'timeout' else 1 for (k, _) in cr.values())
        obs, crashes = [], {}
        spent = getattr(self, 'crash_cost', 0)
        a, chunk, used = 0, (self.AFTER_BUDGET if spent >= self.RUN_BUDGET else self.STREAM_BUDGET), 0
        while a < len(cases):
            o, c = super().run_impl(cases[a:a + chunk], tag)
            obs += o
            crashes.update({a + k: v for k, v in c.items()})
            a += chunk
            used = cost(crashes)
            if used >= self.STREAM_BUDGET or spent >= self.RUN_BUDGET:
                break
            # a clean first chunk: the rest in one go (vf itself stops a stream after 400 restarts); else go on in small steps
            chunk = len(cases) if used == 0 else 4 * self.STREAM_BUDGET
        self.crash_cost = spent + used
        if a < len(cases):
            from vf import log
            log('C06: stream %s given up after %d crashes / time-outs: %d cases not run' % (tag, len(crashes), len(cases) - a))
            obs += [['! notrun'] for _ in range(len(cases) - a)]
        return obs, crashes

    def shrink(self, case, pred, budget=400):
        return super().shrink(case, pred, budget=min(budget, 90))

    def judge(self, cases, impl_obs, spec_obs):
        """compare with the reference; the reason starts with a canonical 80-column key (operation, self
        argument, kind of difference) so that one defect gives one report"""
        from vf import first_diff
        fails = []
        for i, (s, o) in enumerate(zip(spec_obs, impl_obs)):
            k = first_diff(s, o)
            if k is None:
                continue
            exp = s[k] if k < len(s) else '<nothing>'
            got = o[k] if k < len(o) else '<nothing>'
            c = [l for l in cases[i] if not l.startswith('@')]
            opl = c[k] if k < len(c) else ('end' if k == len(c) else '?')
            t = opl.split()
            selfarg = (len(t) > 2 and t[0] in ('apps', 'pres', 'asg', 'reps', 'join', 'eq', 'cmp', 'starts', 'ends', 'pluseq', 'plus', 'plusasg') and t[1] in t[2:]) \
                or (t and t[0] in ('appo', 'printfs', 'preo'))
            if got.startswith('!'):
                kind = got.split(' | ')[0].strip()
            elif exp.split(' | ')[0] != got.split(' | ')[0]:
                kind = 'result'
            elif 'M=bad' in got:
                kind = 'foreign-memory-changed'
            else:
                e2 = exp.split(' | ')[1] if ' | ' in exp else ''
                g2 = got.split(' | ')[1] if ' | ' in got else ''
                ev, gv = re.findall(r'\[ (\d+) (\S+) \]', e2), re.findall(r'\[ (\d+) (\S+) \]', g2)
                tv = int(t[1]) if len(t) > 1 and t[1].isdigit() else -1
                others = [j for j in range(min(len(ev), len(gv))) if ev[j] != gv[j] and j != tv]
                kind = 'other-variable-changed' if others else 'value'
            key = ('op=%s%s kind=%s' % (t[0] if t else '?', ' self-argument' if selfarg else '', kind)).replace('0', 'o').replace('1', 'i')
            key = re.sub(r'\d', '#', key)
            fails.append((i, k, '%-80s| spec expects `%s`, implementation gives `%s`' % (key[:80], exp, got)))
        return fails

    # ---- generators ---------------------------------------------------------------------------
    def gen_stream(self, rng, count, nops, **kw):
        cases = []
        for _ in range(count):
            g = Gen(rng, maxv=rng.choice([1, 2, 3, 4, 5]), **kw)
            cases.append(g.history(rng.randrange(nops[0], nops[1])))
            for l in g.labels:
                self.branch_counts[l] = self.branch_counts.get(l, 0) + 1
        return cases

    def streams(self, tier, rng):
        th = tier == 'thorough'
        out = []
        out.append(Stream('core', self.gen_stream(rng, 40000 if th else 1500, (6, 30), ops=CORE_OPS),
                          note='construct / copy / assign / attach / append / prepend / resize / reserve / clear / C-string view only (the operations of the heap proof), NUL-free text'))
        out.append(Stream('text', self.gen_stream(rng, 60000 if th else 2500, (6, 30)),
                          note='all operations, NUL-free text (the domain of the C-string based searches)'))
        out.append(Stream('binary', self.gen_stream(rng, 25000 if th else 800, (6, 26), binary=True),
                          note='all operations, byte strings with embedded NUL bytes (C-string based operations only where the shadow knows the operand is NUL-free)'))
        out.append(Stream('selfargs', self.gen_stream(rng, 25000 if th else 800, (5, 20), self_bias=0.7),
                          note='String arguments are the variable itself or a sharer of its block 70% of the time'))
        out.append(Stream('compare', self.gen_stream(rng, 15000 if th else 700, (6, 24), binary=True, ops=CMP_OPS),
                          note='copy, change one byte / the case / the length, then ==, compare*, equalsIgnoreCase, startsWith/endsWith, trim: byte strings with embedded NUL, 0x80, 0xff'))
        out.append(Stream('long', self.gen_stream(rng, 2000 if th else 60, (60, 140), big=True),
                          note='long histories, lengths up to 300 (printf first/second pass, capacity growth)'))
        out.append(Stream('concat', self.gen_stream(rng, 25000 if th else 1200, (5, 22), self_bias=0.5, ops=CONCAT_OPS),
                          note='operator+= / operator+ with a String, a char, a literal, d = a + b with every coincidence pattern of d, a, b (50% self / sharer arguments), fromBool, fromCString, between representation changes'))
        out.append(Stream('concat-binary', self.gen_stream(rng, 8000 if th else 400, (5, 18), binary=True, self_bias=0.5, ops=CONCAT_OPS),
                          note='the same on byte strings with embedded NUL bytes'))
        out.append(Stream('chars', char_cases(), exhaustive=True,
                          note='toLowerCase(c), toUpperCase(c), isSpace ... isHexDigit on every byte 0..255 (11 x 256 calls)'))
        out.append(Stream('tobool', tobool_cases(6 if th else 5), exhaustive=True,
                          note='toBool on every text over {0 . x} up to length %d and on listed border texts ("false" in mixed case, "0", "00", "0.", ".0", ".", ...), as owned buffer, unterminated attached window, literal, fromCString, after += and +' % (6 if th else 5)))
        out.append(Stream('scope1', scope_cases(1, SCOPE_ALPHABET), exhaustive=True,
                          note='every single operation of a %d-operation alphabet after a fixed prologue (literal, shared owned, unterminated view)' % len(SCOPE_ALPHABET)))
        out.append(Stream('scope2', scope_cases(2, SCOPE_ALPHABET), exhaustive=True,
                          note='every history of 2 operations over the same alphabet'))
        out.append(Stream('defaults', default_cases(), exhaustive=True,
                          note='round 5: the defaulted arguments - trim() on every byte 0..255 at both ends of a text (owned and attached), substr(start), split(tokens, separators) for List and HashSet'))
        out.append(Stream('huge', huge_cases(rng, 160 if th else 24),
                          note='round 5: values of 255 .. 257, 32767 .. 32769, 65534 .. 65540 and 70000 bytes (built by fill / resize / append) handed to substr, token, split, trim, copy / assign, append / prepend (also from the own text), join, +, replace, printf with the own text, comparison and search; values above 1024 bytes are compared by length and a 32-bit checksum'))
        if th:
            out.append(Stream('scope3', scope_cases(3, SCOPE3_ALPHABET), exhaustive=True,
                              note='every history of 3 operations over a %d-operation alphabet (copy / assign / append / prepend / resize / clear / view / attach incl. self arguments)' % len(SCOPE3_ALPHABET)))
        return out

    def nontrivial(self, case, obs):
        """measured on the implementation's own internal dump: the history must show at least two of
        {a block shared by two variables, an unterminated view, a view, a realloc (capacity change of an
        owned variable), a String argument that is the variable itself} and contain >= 3 mutating operations"""
        feats = set()
        prevcaps = None
        for l in obs:
            parts = l.split(' | ')
            if len(parts) < 3:
                continue
            if re.search(r'r=([2-9]|\d\d)', parts[2]): feats.add('shared')
            if re.search(r'\{ v\d+:\d+ k=0 z=0', parts[2]): feats.add('unterminated-view')
            if re.search(r'\{ v\d+:', parts[2]): feats.add('view')
            caps = re.findall(r'c=(\d+)', parts[2])
            if prevcaps is not None and len(caps) == len(prevcaps) and caps != prevcaps: feats.add('realloc')
            prevcaps = caps
        for l in case:
            t = l.split()
            if t[0] in ('apps', 'pres', 'asg', 'eq', 'cmp', 'starts', 'ends', 'pluseq', 'plus') and len(t) > 2 and t[1] == t[2]: feats.add('self')
            if t[0] == 'plusasg' and (t[1] == t[2] or t[1] == t[3]): feats.add('self')
            if t[0] == 'reps' and (t[1] == t[2] or t[1] == t[3]): feats.add('self')
            if t[0] in ('appo', 'printfs', 'preo'): feats.add('self')
            if t[0] == 'stat' and t[2] == t[3]: feats.add('self')
        muts = sum(1 for l in case if l.split()[0] not in ('new', 'lit', 'buf', 'fill', 'cap', 'reg', 'eq', 'len', 'cmp', 'findc', 'findlc', 'starts', 'ends',
                                                            'eqlit', 'stat', 'splitset', 'fromprintf', 'frombool', 'fromcstr', 'fromcstrn',
                                                            'tobool', 'char', 'splitd', 'splitsetd'))
        return len(feats) >= 2 and muts >= 3

    def extra_checks(self, tier, rng, ctx):
        self.rule_extra = dict(sorted(self.branch_counts.items()))


CHECK = C06
