import os, sys, re, itertools
from vf import Check, Stream, hexs

# ---------------------------------------------------------------------------------------------
# A light shadow of the (repaired) Buffer used ONLY to steer the generators towards a chosen
# branch (head-room / slack / ownership) and to count which branches the generated histories
# aim at.  It is not an oracle: expected observations come from the extracted Coq spec/model.
# ---------------------------------------------------------------------------------------------

class Sh:
    """kind: 'D' default/empty non-owning, 'O' owning, 'A' attached (non-empty or empty foreign window)"""
    def __init__(self, kind='D', start=0, size=0, cap=0):
        self.kind, self.start, self.size, self.cap = kind, start, size, cap

    def copy(self):
        return Sh(self.kind, self.start, self.size, self.cap)

    def own(self, size, cap, start=0):
        self.kind, self.start, self.size, self.cap = 'O', start, size, cap

    # every method returns the label of the branch the repaired code takes
    def prepend(self, n):
        if self.kind == 'O' and self.start >= n:
            self.start -= n; self.size += n; return 'prepend/headroom/' + self.kind
        k = self.kind
        req = n + self.size
        if self.kind == 'O' and self.cap >= req:
            self.start = 0; self.size = req; return 'prepend/shift/O'
        self.own(req, req); return 'prepend/realloc/' + k

    def resize(self, n):
        k = self.kind
        if n > self.cap:
            lab = 'resize/realloc' + ('-shrink' if n < self.size else '') + '/' + k
            self.own(n, n); return lab
        if self.kind == 'O':
            if self.start + n <= self.cap:
                self.size = n; return 'resize/inplace/O'
            self.start = 0; self.size = n; return 'resize/compact/O'
        self.size = 0
        return 'resize/nonowning-zero/' + k

    def append(self, n):
        return 'append:' + self.resize(self.size + n) + ('/empty' if n == 0 else '')

    def assign(self, n):
        k = self.kind
        if n > self.cap:
            self.own(n, n); return 'assign/realloc/' + k
        if self.kind != 'O':
            self.size = 0; return 'assign/nonowning-empty/' + k
        self.start = 0; self.size = n; return 'assign/inplace/O'

    def reserve(self, c):
        k = self.kind
        if c <= self.cap:
            return 'reserve/noop/' + k
        lab = 'reserve/realloc' + ('-below-size' if c < self.size else '') + '/' + k
        self.own(self.size, max(c, self.size)); return lab

    def rmfront(self, n):
        k = self.kind
        if n >= self.size:
            lab = 'rmfront/' + ('all' if n == self.size else 'over') + '/' + k
            self.start = 0; self.size = 0
            if self.kind == 'A': self.kind = 'D'
            return lab
        self.start += n; self.size -= n; return 'rmfront/part' + ('0' if n == 0 else '') + '/' + k

    def rmback(self, n):
        k = self.kind
        if n >= self.size:
            lab = 'rmback/' + ('all' if n == self.size else 'over') + '/' + k
            self.start = 0; self.size = 0
            if self.kind == 'A': self.kind = 'D'
            return lab
        self.size -= n; return 'rmback/part' + ('0' if n == 0 else '') + '/' + k

    def clear(self):
        k = self.kind
        if self.kind == 'O': self.start = 0
        self.size = 0
        return 'clear/' + k

    def free(self):
        k = self.kind
        self.kind, self.start, self.size, self.cap = 'D', 0, 0, 0
        return 'free/' + k

    def attach(self, n):
        k = self.kind
        self.kind, self.start, self.size, self.cap = 'A', 0, n, 0
        return 'attach/' + k


ALPHA = [0x61, 0x62, 0x63, 0x64, 0x65, 0x66, 0x67, 0x68, 0x7a, 0xff, 0x01, 0x80]


def data(rng, n):
    # mostly non-zero bytes, so that a missing terminator write is visible
    return bytes((0 if rng.random() < 0.04 else rng.choice(ALPHA)) for _ in range(n))


class Gen:
    """builds one history, steering by the shadow; allow_attach / allow_alias select the stream"""

    def __init__(self, rng, allow_attach, allow_alias, maxv=4, big=False):
        self.rng, self.allow_attach, self.allow_alias, self.maxv, self.big = rng, allow_attach, allow_alias, maxv, big
        self.ops, self.sh, self.labels = [], [], []

    def n(self, hi=12):
        r = self.rng
        x = r.random()
        if x < 0.15: return 0
        if x < 0.30: return 1
        if self.big and x > 0.93: return r.randrange(40, 200)
        return r.randrange(0, hi + 1)

    def emit(self, line, label):
        self.ops.append(line); self.labels.append(label)

    def new_var(self):
        r = self.rng
        k = r.random()
        if k < 0.35 or not self.sh:
            self.sh.append(Sh()); self.emit('new', 'ctor/default')
        elif k < 0.55:
            c = self.n(16); s = Sh(); s.own(0, c); self.sh.append(s); self.emit('newcap %d' % c, 'ctor/cap')
        elif k < 0.8:
            n = self.n(); s = Sh(); s.own(n, n); self.sh.append(s); self.emit('newdata ' + hexs(data(r, n)), 'ctor/data')
        else:
            w = r.randrange(len(self.sh)); s = Sh(); s.own(self.sh[w].size, self.sh[w].size); self.sh.append(s)
            self.emit('newcopy %d' % w, 'ctor/copy/' + self.sh[w].kind)

    def other(self, v):
        r = self.rng
        if self.allow_alias and r.random() < 0.5:
            return v
        if len(self.sh) == 1:
            return v if self.allow_alias else None
        w = r.randrange(len(self.sh) - 1)
        return w if w < v else w + 1

    def directed_size(self, s, what):
        """pick an argument that hits a chosen branch of `what` from shadow state s (None = no steering possible)"""
        r = self.rng
        if what == 'prepend':
            goal = r.choice(['headroom', 'shift', 'realloc'])
            if s.kind == 'O':
                if goal == 'headroom' and s.start > 0: return r.randrange(1, s.start + 1)
                if goal == 'shift' and s.cap - s.size > s.start: return r.randrange(s.start + 1, s.cap - s.size + 1)
                if goal == 'realloc': return max(s.start, s.cap - s.size) + 1 + r.randrange(3)
        if what == 'resize':
            goal = r.choice(['realloc', 'inplace', 'compact', 'same', 'zero', 'exact'])
            if goal == 'realloc': return s.cap + 1 + r.randrange(4)
            if goal == 'exact': return s.cap
            if goal == 'zero': return 0
            if goal == 'same': return s.size
            if s.kind == 'O':
                if goal == 'inplace' and s.cap - s.start >= 0: return r.randrange(0, s.cap - s.start + 1)
                if goal == 'compact' and s.start > 0: return r.randrange(s.cap - s.start + 1, s.cap + 1)
            if s.kind == 'A' and s.size > 1: return r.randrange(1, s.size)
        if what == 'append':
            goal = r.choice(['realloc', 'inplace', 'compact', 'exact', 'empty'])
            if goal == 'empty': return 0
            if goal == 'realloc' and s.cap + 1 - s.size >= 0: return s.cap + 1 - s.size + r.randrange(3)
            if s.kind == 'O':
                room = s.cap - s.start - s.size
                if goal == 'exact' and s.cap - s.size >= 0: return s.cap - s.size
                if goal == 'inplace' and room > 0: return r.randrange(1, room + 1)
                if goal == 'compact' and s.start > 0 and s.cap - s.size > room: return r.randrange(room + 1, s.cap - s.size + 1)
        if what == 'assign':
            goal = r.choice(['realloc', 'inplace', 'empty', 'exact'])
            if goal == 'realloc': return s.cap + 1 + r.randrange(3)
            if goal == 'exact': return s.cap
            if goal == 'empty': return 0
            if s.cap > 0: return r.randrange(0, s.cap + 1)
        if what == 'reserve':
            goal = r.choice(['noop', 'grow', 'exact', 'below'])
            if goal == 'noop' and s.cap > 0: return r.randrange(0, s.cap + 1)
            if goal == 'exact': return s.cap + 1
            if goal == 'below' and s.size > 1: return r.randrange(1, s.size)
            return s.cap + 1 + r.randrange(8)
        if what in ('rmfront', 'rmback'):
            goal = r.choice(['part', 'part', 'all', 'over', 'zero', 'allbut1'])
            if goal == 'zero': return 0
            if goal == 'all': return s.size
            if goal == 'over': return s.size + 1 + r.randrange(3)
            if goal == 'allbut1' and s.size >= 1: return s.size - 1
            if s.size > 1: return r.randrange(1, s.size)
        return None

    def mutate(self):
        r = self.rng
        v = r.randrange(len(self.sh))
        s = self.sh[v]
        kinds = ['prepend', 'append', 'resize', 'assign', 'reserve', 'rmfront', 'rmback', 'rmfront',
                 'clear', 'free', 'swap', 'asg', 'appendb', 'prependb', 'eq', 'prepend', 'append', 'resize']
        if self.allow_attach:
            kinds += ['attach', 'attach', 'attach']
        what = r.choice(kinds)
        if what in ('prepend', 'append', 'resize', 'assign', 'reserve', 'rmfront', 'rmback'):
            n = self.directed_size(s, what) if r.random() < 0.8 else None
            if n is None:
                n = self.n()
            n = min(n, 400)
            if what == 'prepend': self.emit('prepend %d %s' % (v, hexs(data(r, n))), s.prepend(n))
            elif what == 'append': self.emit('append %d %s' % (v, hexs(data(r, n))), s.append(n))
            elif what == 'assign': self.emit('assign %d %s' % (v, hexs(data(r, n))), s.assign(n))
            elif what == 'resize': self.emit('resize %d %d' % (v, n), s.resize(n))
            elif what == 'reserve': self.emit('reserve %d %d' % (v, n), s.reserve(n))
            elif what == 'rmfront': self.emit('rmfront %d %d' % (v, n), s.rmfront(n))
            else: self.emit('rmback %d %d' % (v, n), s.rmback(n))
        elif what == 'clear': self.emit('clear %d' % v, s.clear())
        elif what == 'free': self.emit('free %d' % v, s.free())
        elif what == 'attach':
            n = self.n()
            self.emit('attach %d %s' % (v, hexs(data(r, n))), s.attach(n))
        else:
            w = self.other(v)
            if w is None:
                return self.mutate()
            t = self.sh[w]
            al = '/self' if w == v else ''
            if what == 'swap':
                self.sh[v], self.sh[w] = t, s
                self.emit('swap %d %d' % (v, w), 'swap/%s%s%s' % (s.kind, t.kind, al))
            elif what == 'eq':
                self.emit('eq %d %d' % (v, w), 'eq/%s%s%s' % (s.kind, t.kind, al))
            elif what == 'asg':
                lab = ('asg/self/' + s.kind) if w == v else 'asg:' + s.assign(t.size) + '/from' + t.kind
                self.emit('asg %d %d' % (v, w), lab)
            elif what == 'appendb':
                self.emit('appendb %d %d' % (v, w), 'appendb' + al + ':' + s.append(t.size) + '/from' + t.kind)
            else:
                self.emit('prependb %d %d' % (v, w), 'prependb' + al + ':' + s.prepend(t.size) + '/from' + t.kind)

    def history(self, nops):
        r = self.rng
        self.new_var()
        for _ in range(nops):
            if len(self.sh) < self.maxv and r.random() < (0.5 if len(self.sh) < 2 else 0.08):
                self.new_var()
            else:
                self.mutate()
        return self.ops


SMALL_DATA = {0: b'', 1: b'a', 2: b'bc', 3: b'def'}


def small_scope_cases(depth, attach, alphabet=None):
    """every history of `depth` operations over one small alphabet, after a fixed two-variable prologue"""
    base = ['new', 'newdata 717273']            # v0 default, v1 owning "qrs"
    a = alphabet or (
        ['prepend 1 61', 'prepend 1 6162636465', 'append 1 -', 'append 1 78', 'append 1 78797a31', 'resize 1 0', 'resize 1 2', 'resize 1 5',
         'reserve 1 8', 'rmfront 1 1', 'rmfront 1 9', 'rmback 1 0', 'rmback 1 1', 'rmback 1 9', 'assign 1 -', 'assign 1 4142', 'clear 1', 'free 1',
         'swap 0 1', 'asg 0 1', 'asg 1 0', 'appendb 0 1', 'prependb 1 0', 'prepend 0 61', 'append 0 -', 'rmback 0 0', 'resize 0 0', 'eq 0 1',
         'asg 1 1', 'appendb 1 1', 'prependb 1 1'] +
        (['attach 1 3132333435', 'attach 0 -', 'attach 1 39'] if attach else []))
    out = []
    for seq in itertools.product(a, repeat=depth):
        out.append(base + list(seq))
    return out


class C08(Check):
    id = 'C08'
    comp = 'Buffer'
    extracted = ['coq/Buffer/model.mli', 'coq/Buffer/model.ml', 'ocaml/zconv.ml', 'ocaml/buffer_driver.ml']
    harness_sources = ['harness/buffer.cpp']
    technique = ('machine-checked proof in Coq about a hand-written Gallina model; model tied to the code by an '
                 'extracted-model vs implementation correspondence check')
    level_text = ''
    level_note = ''
    rule = ''
    assumptions = []

    def __init__(self):
        super().__init__()
        self.branch_counts = {}

    # ---- generators ---------------------------------------------------------------------------
    def gen_stream(self, rng, count, nops, attach, alias, big=False):
        cases = []
        for _ in range(count):
            g = Gen(rng, attach, alias, maxv=rng.choice([1, 2, 3, 4]), big=big)
            cases.append(g.history(rng.randrange(nops[0], nops[1])))
            for l in g.labels:
                self.branch_counts[l] = self.branch_counts.get(l, 0) + 1
        return cases

    def streams(self, tier, rng):
        th = tier == 'thorough'
        out = []
        out.append(Stream('owning', self.gen_stream(rng, 2500 if th else 500, (6, 28), False, False),
                          note='no attach, no self-aliasing: default-constructed and owning states, every branch steered by head-room/slack'))
        out.append(Stream('attach', self.gen_stream(rng, 2500 if th else 500, (6, 28), True, False),
                          note='histories mixing attach with owning operations (separate stream)'))
        out.append(Stream('alias', self.gen_stream(rng, 1500 if th else 300, (5, 22), True, True),
                          note='b = b, b.append(b), b.prepend(b), b.swap(b), b == b in every ownership state'))
        out.append(Stream('long', self.gen_stream(rng, 200 if th else 40, (60, 120), True, True, big=True),
                          note='long histories, sizes up to 200'))
        out.append(Stream('scope2', small_scope_cases(2, True), exhaustive=True,
                          note='every history of 2 operations over a 34-operation alphabet after a fixed prologue'))
        if th:
            core = ['prepend 1 61', 'prepend 1 6162636465', 'append 1 -', 'append 1 78797a31', 'resize 1 0', 'resize 1 2', 'resize 1 5',
                    'reserve 1 8', 'rmfront 1 1', 'rmfront 1 9', 'rmback 1 0', 'rmback 1 1', 'assign 1 -', 'assign 1 4142', 'clear 1', 'free 1',
                    'swap 0 1', 'asg 1 0', 'appendb 0 1', 'prependb 1 1', 'attach 1 3132333435', 'attach 0 -', 'append 0 -', 'rmback 0 0']
            out.append(Stream('scope3', small_scope_cases(3, True, core), exhaustive=True,
                              note='every history of 3 operations over a 24-operation alphabet'))
        return out

    def nontrivial(self, case, obs):
        """measured on the implementation's own internal dump: the history must reach at least two of
        {head-room > 0, capacity slack, attached window, pointer into a _capacity field after a mutation}
        and contain at least 3 mutating operations"""
        feats = set()
        for l in obs:
            parts = l.split(' | ')
            if len(parts) < 3:
                continue
            for m in re.finditer(r'own=(\d) cap=(\d+) at=(\w+):(\d+)', parts[2]):
                own, cap, kind, off = m.group(1), int(m.group(2)), m.group(3), int(m.group(4))
                if kind == 'own' and off > 0: feats.add('headroom')
                if kind == 'reg': feats.add('attached')
                if kind == 'cap' and len(feats) > 0: feats.add('emptied')
            for m in re.finditer(r'\[ (\d+) :', parts[1]):
                pass
            for (sz, cap) in zip(re.findall(r'\[ (\d+) :', parts[1]), re.findall(r'own=1 cap=(\d+)', parts[2])):
                pass
            sizes = [int(x) for x in re.findall(r'\[ (\d+) :', parts[1])]
            caps = [(int(a), int(b)) for a, b in re.findall(r'own=(\d) cap=(\d+)', parts[2])]
            for sz, (own, cap) in zip(sizes, caps):
                if own and cap > sz: feats.add('slack')
        muts = sum(1 for l in case if not l.startswith(('new', 'eq')))
        return len(feats) >= 2 and muts >= 3

    def extra_checks(self, tier, rng, ctx):
        # record which branches the steered generators aimed at (goes into the evidence rule text)
        self.rule_extra = dict(sorted(self.branch_counts.items()))


CHECK = C08
