import os, sys, re, itertools
import vf
from vf import Check, Stream, hexs

# ---------------------------------------------------------------------------------------------
# A light shadow of the (repaired) Buffer used ONLY to steer the generators towards a chosen
# branch (head-room / slack / ownership) and to count which branches the generated histories
# aim at.  It is not an oracle: expected observations come from the extracted Coq spec/model.
# ---------------------------------------------------------------------------------------------

UMAX = 2**64 - 1
UNSAT = 2**63 - 1          # the first capacity that does not fit: capacity + 1 > PTRDIFF_MAX


# capacities and sizes around the powers of two at which a narrower integer type, a size class of the
# allocator or a page boundary could make a difference (round 5: nothing between 401 and 2^63-2 was run)
PAGES = [255, 256, 257, 4095, 4096, 4097, 5000, 8191, 8192, 8193, 32767, 32768, 32769, 65535, 65536, 65537]


def page_cases(th):
    """Deterministic histories that take one variable to a capacity c in PAGES in every way the code can
    (capacity constructor, reserve from an owning / an attached / a default state, growing resize, append of
    c bytes) and then work on and one past that capacity: resize(c), resize(c+1), fill to exactly c bytes and
    append one more, compaction with a head-room of c-3, prepend through the head-room, reserve(c+1)."""
    out = []
    for c in (PAGES if th else [255, 256, 257, 4095, 4096, 4097, 5000, 8193, 32768, 65535, 65536, 65537]):
        pros = [['newcap %d' % c],
                ['newdata 616263', 'reserve 0 %d' % c],
                ['new', 'reserve 0 %d' % c, 'append 0 616263'],
                ['new', 'attach 0 31323334', 'rmfront 0 1', 'reserve 0 %d' % c],
                ['new', 'resize 0 %d' % c, 'resize 0 3'],
                ['newdata 6162', 'append 0 ' + hexs(_bytes(c - 2, 0x31)), 'rmback 0 %d' % (c - 3)]]
        tails = [['resize 0 %d' % (c + 1), 'append 0 7e'],
                 ['resize 0 %d' % c, 'append 0 7e'],
                 ['reserve 0 %d' % (c + 1), 'resize 0 %d' % (c + 1), 'rmfront 0 %d' % c, 'prepend 0 7c'],
                 ['resize 0 %d' % (c - 1), 'append 0 61', 'append 0 62'],
                 ['resize 0 %d' % c, 'reserve 0 %d' % (c + 7), 'rmfront 0 %d' % (c - 2), 'append 0 7e'],     # reserve copies a window of c bytes
                 ['resize 0 %d' % (c - 1), 'rmfront 0 %d' % (c - 3), 'prepend 0 7c', 'resize 0 %d' % c, 'prepend 0 7b'],
                 ['rmfront 0 1', 'resize 0 %d' % c, 'rmback 0 %d' % (c - 2), 'appendb 0 0', 'prependat 0 1 2'],
                 ['assign 0 ' + hexs(_bytes(c, 0x41)), 'rmfront 0 %d' % (c - 1), 'assign 0 ' + hexs(_bytes(c + 1, 0x51)), 'rmfront 0 %d' % c]]
        for i, pro in enumerate(pros):
            for j, tail in enumerate(tails):
                if th or c in (4097, 5000, 65537) or (i + j) % 3 == 0:
                    out.append(pro + tail)
    return out


def mem_available_gb():
    try:
        for l in open('/proc/meminfo'):
            if l.startswith('MemAvailable:'):
                return int(l.split()[1]) / 1048576.0
    except OSError:
        pass
    return 0.0


def huge_cases(th, copies_ok):
    """Real allocations above 2^31 and 2^32 bytes (case configuration `big`: compact dump).  Untouched pages are
    not committed, so everything that only moves the window pointers, writes the terminator or copies a few bytes
    is cheap; the histories marked COPY make the unchanged code copy 4 GiB once (about 3 s, 4.5 GB resident) and
    are left out when the machine has less than 12 GB available."""
    B, H = 2**32, 2**31
    big = lambda ops: ['@big'] + ops
    out = [
        # window offsets and sizes above 2^32 inside one allocation: in-place resize, append at the end, removeFront of
        # more than 2^32 bytes, prepend through a head-room above 2^32, compaction from a start offset above 2^32
        big(['newcap %d' % (B + 100), 'resize 0 %d' % (B + 5), 'append 0 616263', 'rmfront 0 %d' % (B + 4), 'prepend 0 7c7c',
             'rmback 0 2', 'resize 0 %d' % (B + 50), 'rmfront 0 %d' % (B + 40), 'append 0 7e', 'clear 0', 'append 0 6162',
             'free 0', 'append 0 63']),
        # growing resize from 3 bytes (reallocation, 3 bytes copied), removeBack of exactly 2^32, of more than the size
        big(['newdata 616263', 'resize 0 %d' % (B + 7), 'rmback 0 %d' % B, 'append 0 7e', 'resize 0 %d' % B, 'rmback 0 %d' % (B + 1),
             'append 0 7e']),
        # the same around 2^31 (a signed 32-bit size), and a second variable: swap, assignment from the large one's 2 bytes
        big(['new', 'reserve 0 %d' % (H + 2), 'resize 0 %d' % H, 'rmfront 0 %d' % (H - 1), 'prepend 0 7c', 'resize 0 %d' % (H + 1),
             'resize 0 %d' % (H + 2), 'rmfront 0 %d' % H, 'newdata 7172', 'swap 0 1', 'asg 0 1', 'prependb 1 0', 'rmback 1 %d' % H]),
        # reserve of an attached and of a default Buffer to more than 2^32, reserve below the capacity, assign in place
        big(['new', 'attach 0 31323334', 'rmfront 0 1', 'reserve 0 %d' % (B + 1), 'reserve 0 %d' % B, 'resize 0 %d' % (B + 1),
             'assign 0 4142', 'resize 0 %d' % (B + 1), 'rmfront 0 %d' % B, 'append 0 7e']),
    ]
    if copies_ok:
        # COPY: reserve on a window of 2^32+5 bytes (Memory::copy of the whole window into the new block)
        out.append(big(['newdata 616263', 'reserve 0 %d' % (B + 100), 'resize 0 %d' % (B + 5), 'reserve 0 %d' % (B + 200),
                        'rmfront 0 %d' % (B + 3), 'append 0 7e']))
        if th:
            # COPY: growing resize / append that reallocate a window above 2^32; prepend by the in-place shift
            out.append(big(['newcap %d' % (B + 5), 'resize 0 %d' % (B + 5), 'append 0 6162', 'rmfront 0 %d' % (B + 5), 'append 0 7e']))
            out.append(big(['newcap %d' % (B + 100), 'append 0 616263', 'resize 0 %d' % (B + 5), 'rmfront 0 1', 'prepend 0 7c7c',
                            'rmfront 0 %d' % (B + 4), 'append 0 7e']))
            out.append(big(['newdata 616263', 'resize 0 %d' % (B + 5), 'prepend 0 7c7c', 'rmfront 0 %d' % (B + 5), 'append 0 7e']))
            # COPY (2 GiB): reserve on a window of 2^31+5 bytes (a signed 32-bit size)
            out.append(big(['newdata 616263', 'resize 0 %d' % (H + 5), 'reserve 0 %d' % (H + 200), 'rmfront 0 %d' % (H + 3), 'append 0 7e']))
    return out


def huge(rng, s):
    """sizes whose allocation cannot be satisfied; 2^64-1 is the one where capacity + 1 wraps to 0"""
    return rng.choice([UMAX, UMAX, UMAX, UMAX - 1, UMAX - max(s.size, 1), UMAX - s.cap, 2**63, 2**63 - 1, 2**63 + s.size])


class Sh:
    dead = False           # the history ended in a request that cannot be satisfied

    """kind: 'D' default/empty non-owning, 'O' owning, 'A' attached (non-empty or empty foreign window)"""
    def __init__(self, kind='D', start=0, size=0, cap=0):
        self.kind, self.start, self.size, self.cap = kind, start, size, cap

    rlen = 0               # length of the attached range (kind 'A')
    capof = 0              # kind 'D': the variable whose _capacity field the window points at

    def copy(self):
        t = Sh(self.kind, self.start, self.size, self.cap)
        t.dead = self.dead
        t.rlen = self.rlen
        t.capof = self.capof
        return t

    def own(self, size, cap, start=0):
        self.kind, self.start, self.size, self.cap = 'O', start, size, cap

    # every method returns the label of the branch the repaired code takes
    def prepend(self, n):
        if self.kind == 'O' and self.start >= n:
            self.start -= n; self.size += n; return 'prepend/headroom/' + self.kind
        k = self.kind
        req = n + self.size
        if self.kind == 'O' and self.cap >= req:
            self.start = 0; self.size = req; return 'prepend/shift/O'
        self.own(req, req); return 'prepend/realloc/' + k

    def resize(self, n):
        k = self.kind
        if n >= UNSAT:
            self.dead = True
            return 'resize/unsat/' + k
        if n > self.cap:
            lab = 'resize/realloc' + ('-shrink' if n < self.size else '') + '/' + k
            self.own(n, n); return lab
        if self.kind == 'O':
            if self.start + n <= self.cap:
                self.size = n; return 'resize/inplace/O'
            self.start = 0; self.size = n; return 'resize/compact/O'
        self.size = 0
        return 'resize/nonowning-zero/' + k

    def append(self, n):
        return 'append:' + self.resize(self.size + n) + ('/empty' if n == 0 else '')

    def assign(self, n):
        k = self.kind
        if n > self.cap:
            self.own(n, n); return 'assign/realloc/' + k
        if self.kind != 'O':
            self.size = 0; return 'assign/nonowning-empty/' + k
        self.start = 0; self.size = n; return 'assign/inplace/O'

    def reserve(self, c):
        k = self.kind
        if c >= UNSAT:
            self.dead = True
            return 'reserve/unsat/' + k
        if c <= self.cap:
            return 'reserve/noop/' + k
        lab = 'reserve/realloc' + ('-below-size' if c < self.size else '') + '/' + k
        self.own(self.size, max(c, self.size)); return lab

    def rmfront(self, n):
        k = self.kind
        if n >= self.size:
            lab = 'rmfront/' + ('all' if n == self.size else 'over') + '/' + k
            self.start = 0; self.size = 0
            if self.kind == 'A': self.kind = 'D'
            return lab
        self.start += n; self.size -= n; return 'rmfront/part' + ('0' if n == 0 else '') + '/' + k

    def rmback(self, n):
        k = self.kind
        if n >= self.size:
            lab = 'rmback/' + ('all' if n == self.size else 'over') + '/' + k
            self.start = 0; self.size = 0
            if self.kind == 'A': self.kind = 'D'
            return lab
        self.size -= n; return 'rmback/part' + ('0' if n == 0 else '') + '/' + k

    def clear(self):
        k = self.kind
        if self.kind == 'O': self.start = 0
        self.size = 0
        return 'clear/' + k

    def free(self):
        k = self.kind
        self.kind, self.start, self.size, self.cap = 'D', 0, 0, 0
        return 'free/' + k

    def attach(self, n):
        k = self.kind
        self.kind, self.start, self.size, self.cap = 'A', 0, n, 0
        self.rlen = n
        return 'attach/' + k



# ---------------------------------------------------------------------------------------------
# Sizes the extracted model cannot execute (its allocation is a list of cells): a transcription of
# BufferSpec.v with the queue in run-length form (`RQ`) and of the window arithmetic of BufferModel.v
# (the shadow `Sh` above).  It answers the cases marked `@big` (real allocations of more than 2^32 bytes,
# printed in compact form) and is compared with the extracted spec and model on every case of the
# `pages` stream and on every other case it can express (see C08.crosscheck), so that it cannot drift.
# ---------------------------------------------------------------------------------------------

class RQ:
    """reference byte queue, run-length: a list of bytes objects (known) and ints (n unspecified bytes)"""
    def __init__(self, segs=()):
        self.s = [x for x in segs if (len(x) if isinstance(x, bytes) else x) > 0]

    def size(self):
        return sum(len(x) if isinstance(x, bytes) else x for x in self.s)

    def part(self, off, n):
        out = []
        for x in self.s:
            l = len(x) if isinstance(x, bytes) else x
            if n <= 0:
                break
            if off >= l:
                off -= l
                continue
            k = min(l - off, n)
            out.append(x[off:off + k] if isinstance(x, bytes) else k)
            off = 0
            n -= k
        return RQ(out)

    def __add__(self, o):
        return RQ(self.s + o.s)

    def toks(self):
        n = self.size()
        def cells(q):
            r = []
            for x in q.s:
                r += ['%02x' % b for b in x] if isinstance(x, bytes) else ['?'] * x
            return r
        if n > 16:
            return cells(self.part(0, 8)) + ['..'] + cells(self.part(n - 8, 8))
        return cells(self)


def compact_line(line):
    """the compact (`big`) form of a full observation line: windows of more than 16 bytes keep 8 + 8 bytes"""
    secs = line.split(' | ')
    if len(secs) < 2:
        return line
    t = secs[1].split(' ')
    out, i = [], 0
    while i < len(t):
        if t[i] == '[' and i + 2 < len(t) and t[i + 2] == ':':
            n = int(t[i + 1])
            cells = t[i + 3:i + 3 + n]
            out += t[i:i + 3] + (cells[:8] + ['..'] + cells[-8:] if n > 16 else cells)
            i += 3 + n
        else:
            out.append(t[i]); i += 1
    secs[1] = ' '.join(out)
    return ' | '.join(secs)


def oracle_lines(case, level, hint_may_fail=True):
    """expected observation lines of one history from the transcription, in compact form; None when the
    history uses an operation the transcription does not have (==, source pointers inside the Buffer)"""
    qs, sh, out = [], [], []
    unb = lambda h: b'' if h == '-' else bytes.fromhex(h)

    def line():
        pub = 'G=ok' + ''.join(' [ %d : %sT=ok ]' % (q.size(), ''.join(c + ' ' for c in q.toks())) for q in qs)
        if level == 'spec':
            return '- | ' + pub
        parts = []
        for x in sh:
            if x.kind == 'O': parts.append(' [ own=1 cap=%d at=own:%d alloc=%d ]' % (x.cap, x.start, x.cap + 1))
            elif x.kind == 'A': parts.append(' [ own=0 cap=0 at=reg:%d/%d alloc=- ]' % (x.start, x.rlen))
            else: parts.append(' [ own=0 cap=0 at=cap:%d alloc=- ]' % x.capof)     # the _capacity field it points at
        return '- | %s | R=ok live=%d%s' % (pub, sum(1 for x in sh if x.kind == 'O'), ''.join(parts))

    for l in case:
        if l.startswith('@'):
            continue
        t = l.split(' ')
        o = t[0]
        ctor = o in ('new', 'newcap', 'newdata', 'newcopy')
        try:
            v = int(t[1]) if len(t) > 1 and not ctor else None
            w = int(t[2]) if o in ('asg', 'prependb', 'appendb', 'swap') else int(t[1]) if o == 'newcopy' else None
        except ValueError:
            return None
        if (v is not None and not 0 <= v < len(qs)) or (w is not None and not 0 <= w < len(qs)):
            out.append('! not-accepted'); return out
        if o == 'new':
            qs.append(RQ()); x = Sh(); x.capof = len(sh); sh.append(x)
        elif o == 'newcap':
            n = int(t[1])
            if n >= UNSAT: out.append('! oom'); return out
            qs.append(RQ()); x = Sh(); x.own(0, n); sh.append(x)
        elif o == 'newdata':
            d = unb(t[1]); qs.append(RQ([d])); x = Sh(); x.own(len(d), len(d)); sh.append(x)
        elif o == 'newcopy':
            qs.append(RQ(qs[w].s)); x = Sh(); x.own(sh[w].size, sh[w].size); sh.append(x)
        elif o == 'attach':
            d = unb(t[2]); qs[v] = RQ([d]); sh[v].attach(len(d))
        elif o == 'assign':
            d = unb(t[2]); qs[v] = RQ([d]); sh[v].assign(len(d))
        elif o == 'asg':
            if v != w: qs[v] = RQ(qs[w].s); sh[v].assign(sh[w].size)
        elif o == 'prepend':
            d = unb(t[2]); qs[v] = RQ([d]) + qs[v]; sh[v].prepend(len(d))
        elif o == 'append':
            d = unb(t[2]); qs[v] = qs[v] + RQ([d]); sh[v].append(len(d))
        elif o == 'prependb':
            qs[v] = qs[w] + qs[v]; sh[v].prepend(sh[w].size)
        elif o == 'appendb':
            qs[v] = qs[v] + qs[w]; sh[v].append(sh[w].size)
        elif o == 'resize':
            n = int(t[2])
            if n >= UNSAT: out.append('! oom'); return out
            k = qs[v].size()
            qs[v] = qs[v].part(0, n) if n <= k else qs[v] + RQ([n - k])
            sh[v].resize(n)
        elif o == 'reserve':
            n = int(t[2])
            if n >= UNSAT:
                # the reference keeps the queue (the text does not say what a hint that cannot be followed
                # does); the model, like the code, ends in a failed allocation
                if level == 'model' or not hint_may_fail: out.append('! oom'); return out
                out.append('?oom ' + line()); continue
            sh[v].reserve(n)
        elif o in ('rmfront', 'rmback'):
            n = int(t[2]); k = qs[v].size()
            qs[v] = RQ() if n >= k else (qs[v].part(n, k - n) if o == 'rmfront' else qs[v].part(0, k - n))
            reset = sh[v].kind != 'O' and n >= sh[v].size          # bufferStart = bufferEnd = (byte*)&_capacity of this variable
            sh[v].rmfront(n) if o == 'rmfront' else sh[v].rmback(n)
            if reset: sh[v].capof = v
        elif o == 'clear':
            qs[v] = RQ(); sh[v].clear()
        elif o == 'free':
            qs[v] = RQ(); sh[v].free(); sh[v].capof = v
        elif o == 'swap':
            qs[v], qs[w] = qs[w], qs[v]; sh[v], sh[w] = sh[w], sh[v]
        else:
            return None
        out.append(line())
    return out


ALPHA = [0x61, 0x62, 0x63, 0x64, 0x65, 0x66, 0x67, 0x68, 0x7a, 0xff, 0x01, 0x80]


def data(rng, n):
    # mostly non-zero bytes, so that a missing terminator write is visible
    return bytes((0 if rng.random() < 0.04 else rng.choice(ALPHA)) for _ in range(n))


class Gen:
    """builds one history, steering by the shadow; allow_attach / allow_alias select the stream"""

    def __init__(self, rng, allow_attach, allow_alias, maxv=4, big=False):
        self.rng, self.allow_attach, self.allow_alias, self.maxv, self.big = rng, allow_attach, allow_alias, maxv, big
        self.ops, self.sh, self.labels = [], [], []
        self.dead = False

    def n(self, hi=12):
        r = self.rng
        x = r.random()
        if x < 0.15: return 0
        if x < 0.30: return 1
        if self.big and x > 0.93: return r.randrange(40, 200)
        return r.randrange(0, hi + 1)

    def emit(self, line, label):
        self.ops.append(line); self.labels.append(label)

    def new_var(self):
        r = self.rng
        k = r.random()
        if k < 0.35 or not self.sh:
            self.sh.append(Sh()); self.emit('new', 'ctor/default')
        elif k < 0.55:
            if self.sh and r.random() < 0.04:
                self.emit('newcap %d' % huge(r, Sh()), 'ctor/unsat'); self.dead = True
                return
            c = r.choice(PAGES) if r.random() < 0.03 else self.n(16)
            s = Sh(); s.own(0, c); self.sh.append(s); self.emit('newcap %d' % c, 'ctor/cap')
        elif k < 0.8:
            n = self.n(); s = Sh(); s.own(n, n); self.sh.append(s); self.emit('newdata ' + hexs(data(r, n)), 'ctor/data')
        else:
            w = r.randrange(len(self.sh)); s = Sh(); s.own(self.sh[w].size, self.sh[w].size); self.sh.append(s)
            self.emit('newcopy %d' % w, 'ctor/copy/' + self.sh[w].kind)

    def other(self, v):
        r = self.rng
        if self.allow_alias and r.random() < 0.5:
            return v
        if len(self.sh) == 1:
            return v if self.allow_alias else None
        w = r.randrange(len(self.sh) - 1)
        return w if w < v else w + 1

    def directed_size(self, s, what):
        """pick an argument that hits a chosen branch of `what` from shadow state s (None = no steering possible)"""
        r = self.rng
        if what == 'prepend':
            goal = r.choice(['headroom', 'shift', 'realloc'])
            if s.kind == 'O':
                if goal == 'headroom' and s.start > 0: return r.randrange(1, s.start + 1)
                if goal == 'shift' and s.cap - s.size > s.start: return r.randrange(s.start + 1, s.cap - s.size + 1)
                if goal == 'realloc': return max(s.start, s.cap - s.size) + 1 + r.randrange(3)
        if what in ('resize', 'reserve') and r.random() < 0.05:
            return huge(r, s)
        if what in ('resize', 'reserve') and r.random() < (0.04 if what == 'reserve' else 0.012):
            return r.choice(PAGES) + r.choice([0, 0, 1, s.size])
        if what == 'resize':
            goal = r.choice(['realloc', 'inplace', 'compact', 'same', 'zero', 'exact'])
            if goal == 'realloc': return s.cap + 1 + r.randrange(4)
            if goal == 'exact': return s.cap
            if goal == 'zero': return 0
            if goal == 'same': return s.size
            if s.kind == 'O':
                if goal == 'inplace' and s.cap - s.start >= 0: return r.randrange(0, s.cap - s.start + 1)
                if goal == 'compact' and s.start > 0: return r.randrange(s.cap - s.start + 1, s.cap + 1)
            if s.kind == 'A' and s.size > 1: return r.randrange(1, s.size)
        if what == 'append':
            goal = r.choice(['realloc', 'inplace', 'compact', 'exact', 'empty'])
            if goal == 'empty': return 0
            if goal == 'realloc' and s.cap + 1 - s.size >= 0: return s.cap + 1 - s.size + r.randrange(3)
            if s.kind == 'O':
                room = s.cap - s.start - s.size
                if goal == 'exact' and s.cap - s.size >= 0: return s.cap - s.size
                if goal == 'inplace' and room > 0: return r.randrange(1, room + 1)
                if goal == 'compact' and s.start > 0 and s.cap - s.size > room: return r.randrange(room + 1, s.cap - s.size + 1)
        if what == 'assign':
            goal = r.choice(['realloc', 'inplace', 'empty', 'exact'])
            if goal == 'realloc': return s.cap + 1 + r.randrange(3)
            if goal == 'exact': return s.cap
            if goal == 'empty': return 0
            if s.cap > 0: return r.randrange(0, s.cap + 1)
        if what == 'reserve':
            goal = r.choice(['noop', 'grow', 'exact', 'below'])
            if goal == 'noop' and s.cap > 0: return r.randrange(0, s.cap + 1)
            if goal == 'exact': return s.cap + 1
            if goal == 'below' and s.size > 1: return r.randrange(1, s.size)
            return s.cap + 1 + r.randrange(8)
        if what in ('rmfront', 'rmback'):
            goal = r.choice(['part', 'part', 'all', 'over', 'zero', 'allbut1', 'huge'])
            if goal == 'huge': return r.choice([2**64 - 1, 2**64 - 2, 2**64 - max(s.size, 1), 2**63, 2**63 - 1, 2**32, 2**64 - 1 - s.cap])
            if goal == 'zero': return 0
            if goal == 'all': return s.size
            if goal == 'over': return s.size + 1 + r.randrange(3)
            if goal == 'allbut1' and s.size >= 1: return s.size - 1
            if s.size > 1: return r.randrange(1, s.size)
        return None

    def mutate(self):
        r = self.rng
        v = r.randrange(len(self.sh))
        s = self.sh[v]
        kinds = ['prepend', 'append', 'resize', 'assign', 'reserve', 'rmfront', 'rmback', 'rmfront',
                 'clear', 'free', 'swap', 'asg', 'appendb', 'prependb', 'eq', 'prepend', 'append', 'resize']
        if self.allow_alias:
            kinds += ['appendat', 'appendat', 'assignat', 'prependat', 'prependat']
        if self.allow_attach:
            kinds += ['attach', 'attach', 'attach']
        what = r.choice(kinds)
        if what in ('prepend', 'append', 'resize', 'assign', 'reserve', 'rmfront', 'rmback'):
            n = self.directed_size(s, what) if r.random() < 0.8 else None
            if n is None:
                n = self.n()
            if what not in ('rmfront', 'rmback') and n < UNSAT:
                n = min(n, 70000 if what in ('resize', 'reserve') else 400)
            if what == 'prepend': self.emit('prepend %d %s' % (v, hexs(data(r, n))), s.prepend(n))
            elif what == 'append': self.emit('append %d %s' % (v, hexs(data(r, n))), s.append(n))
            elif what == 'assign': self.emit('assign %d %s' % (v, hexs(data(r, n))), s.assign(n))
            elif what == 'resize': self.emit('resize %d %d' % (v, n), s.resize(n))
            elif what == 'reserve': self.emit('reserve %d %d' % (v, n), s.reserve(n))
            elif what == 'rmfront': self.emit('rmfront %d %d' % (v, n), s.rmfront(n))
            else: self.emit('rmback %d %d' % (v, n), s.rmback(n))
            if s.dead: self.dead = True
        elif what in ('appendat', 'assignat', 'prependat'):
            # a source inside the Buffer's own window; n steered like the plain call
            base = what[:-2]
            n = self.directed_size(s, base) if r.random() < 0.7 else None
            if n is None or n > s.size:
                n = r.randrange(0, s.size + 1)
            off = r.choice([0, s.size - n, r.randrange(0, s.size - n + 1)])
            lab = what + ':' + (s.append(n) if base == 'append' else s.assign(n) if base == 'assign' else s.prepend(n))
            self.emit('%s %d %d %d' % (what, v, off, n), lab)
        elif what == 'clear': self.emit('clear %d' % v, s.clear())
        elif what == 'free': self.emit('free %d' % v, s.free())
        elif what == 'attach':
            n = self.n()
            self.emit('attach %d %s' % (v, hexs(data(r, n))), s.attach(n))
        else:
            w = self.other(v)
            if w is None:
                return self.mutate()
            t = self.sh[w]
            al = '/self' if w == v else ''
            if what == 'swap':
                self.sh[v], self.sh[w] = t, s
                self.emit('swap %d %d' % (v, w), 'swap/%s%s%s' % (s.kind, t.kind, al))
            elif what == 'eq':
                self.emit('eq %d %d' % (v, w), 'eq/%s%s%s' % (s.kind, t.kind, al))
            elif what == 'asg':
                lab = ('asg/self/' + s.kind) if w == v else 'asg:' + s.assign(t.size) + '/from' + t.kind
                self.emit('asg %d %d' % (v, w), lab)
            elif what == 'appendb':
                self.emit('appendb %d %d' % (v, w), 'appendb' + al + ':' + s.append(t.size) + '/from' + t.kind)
            else:
                self.emit('prependb %d %d' % (v, w), 'prependb' + al + ':' + s.prepend(t.size) + '/from' + t.kind)

    def history(self, nops):
        r = self.rng
        self.new_var()
        for _ in range(nops):
            if self.dead:
                break
            if len(self.sh) < self.maxv and r.random() < (0.5 if len(self.sh) < 2 else 0.08):
                self.new_var()
            else:
                self.mutate()
        return self.ops


SMALL_DATA = {0: b'', 1: b'a', 2: b'bc', 3: b'def'}


def small_scope_cases(depth, attach, alphabet=None):
    """every history of `depth` operations over one small alphabet, after a fixed two-variable prologue"""
    base = ['new', 'newdata 717273']            # v0 default, v1 owning "qrs"
    a = alphabet or (
        ['prepend 1 61', 'prepend 1 6162636465', 'append 1 -', 'append 1 78', 'append 1 78797a31', 'resize 1 0', 'resize 1 2', 'resize 1 5',
         'reserve 1 8', 'rmfront 1 1', 'rmfront 1 9', 'rmback 1 0', 'rmback 1 1', 'rmback 1 9',
         'rmfront 1 18446744073709551615', 'rmback 1 18446744073709551615', 'assign 1 -', 'assign 1 4142', 'clear 1', 'free 1',
         'swap 0 1', 'asg 0 1', 'asg 1 0', 'appendb 0 1', 'prependb 1 0', 'prepend 0 61', 'append 0 -', 'rmback 0 0', 'resize 0 0', 'eq 0 1',
         'asg 1 1', 'appendb 1 1', 'prependb 1 1',
         'resize 1 18446744073709551615', 'reserve 1 18446744073709551615', 'resize 0 18446744073709551615',
         'newcap 18446744073709551615', 'reserve 0 9223372036854775807',
         'appendat 1 1 2', 'appendat 1 0 1', 'assignat 1 1 2', 'assignat 1 0 3', 'prependat 1 0 2', 'prependat 1 1 1'] +
        (['attach 1 3132333435', 'attach 0 -', 'attach 1 39'] if attach else []))
    out = []
    dead_end = re.compile(r'^(resize|reserve|newcap) .*\d{19}')
    for seq in itertools.product(a, repeat=depth):
        if any(dead_end.match(o) for o in seq[:-1]) and seq[-1] != a[0]:
            continue                    # nothing runs after a request that cannot be satisfied: keep one continuation
        out.append(base + list(seq))
    return out


def _bytes(n, base=0x41):
    return bytes(((base + i - 1) % 255) + 1 for i in range(n))          # never 0, position-dependent


def branch_scope_cases(maxcap, count):
    """Small exhaustive scope aimed at the case splits of the proofs (prepend_ok / resize_ok / append_ok /
    remove_*_ok / reserve_ok / assign_ok): every owning state (capacity c <= maxcap, size, head-room) and
    every attached state (length <= 4, front offset), each followed by every operation with the arguments
    that sit exactly on and one past each branch condition, then one more append so that a damaged
    terminator or window shows.  `count(label)` records the branch the shadow predicts."""
    out = []

    def emit(pro, sh, ops):
        for o in ops:
            t = sh.copy()
            kind, n = o
            if kind == 'prepend': lab = t.prepend(n); line = 'prepend 0 ' + hexs(_bytes(n, 0x61))
            elif kind == 'append': lab = t.append(n); line = 'append 0 ' + hexs(_bytes(n, 0x61))
            elif kind == 'assign': lab = t.assign(n); line = 'assign 0 ' + hexs(_bytes(n, 0x61))
            elif kind == 'resize': lab = t.resize(n); line = 'resize 0 %d' % n
            elif kind == 'reserve': lab = t.reserve(n); line = 'reserve 0 %d' % n
            elif kind == 'rmfront': lab = t.rmfront(n); line = 'rmfront 0 %d' % n
            elif kind == 'rmback': lab = t.rmback(n); line = 'rmback 0 %d' % n
            elif kind == 'appendb': lab = 'appendb/self:' + t.append(t.size); line = 'appendb 0 0'
            elif kind == 'prependb': lab = 'prependb/self:' + t.prepend(t.size); line = 'prependb 0 0'
            elif kind == 'appendat': lab = 'appendat:' + t.append(n[1]); line = 'appendat 0 %d %d' % n
            elif kind == 'assignat': lab = 'assignat:' + t.assign(n[1]); line = 'assignat 0 %d %d' % n
            elif kind == 'prependat': lab = 'prependat:' + t.prepend(n[1]); line = 'prependat 0 %d %d' % n
            else: lab = t.clear(); line = 'clear 0'
            count('scope:' + lab)
            out.append(pro + [line, 'append 0 7e', 'prepend 0 7c'])

    def args(sh):
        c, st, sz = sh.cap, sh.start, sh.size
        room = c - st - sz
        cand = []
        for n in (0, st, st + 1, c - sz, c - sz + 1): cand.append(('prepend', n))
        for n in (0, room, room + 1, c - sz, c - sz + 1): cand.append(('append', n))
        for n in (0, sz - 1, sz, sz + 1, c - st, c - st + 1, c, c + 1): cand.append(('resize', n))
        for n in (0, c, c + 1, sz - 1, sz, sz + 1): cand.append(('reserve', n))
        for n in (0, c, c + 1): cand.append(('assign', n))
        for n in (0, sz - 1, sz, sz + 1, 2**64 - 1, 2**64 - max(sz, 1), 2**63): cand.append(('rmfront', n)); cand.append(('rmback', n))
        cand += [('appendb', 0), ('prependb', 0), ('clear', 0)]
        # sizes no allocation can satisfy; 2^64-1 is where capacity + 1 wraps to 0
        for n in (UMAX, (UMAX - 1, UMAX - sz, UNSAT, 2**63)[(c + st + sz) % 4]): cand.append(('resize', n)); cand.append(('reserve', n))
        # a source inside the window: every (offset, length) for small windows, the corners for larger ones
        pairs = [(o, n) for o in range(sz + 1) for n in range(sz - o + 1)] if sz <= 3 else \
                [(0, 0), (0, 1), (0, sz), (1, sz - 1), (sz - 1, 1), (sz, 0), (1, 1), (0, sz - 1), (1, 2), (2, 2)]
        for pr in pairs:
            cand += [('appendat', pr), ('assignat', pr), ('prependat', pr)]
        seen, res = set(), []
        for o in cand:
            if (o[1] >= 0 if isinstance(o[1], int) else True) and o not in seen:
                seen.add(o); res.append(o)
        return res

    for c in range(0, maxcap + 1):
        for k in range(0, c + 1):
            for f in range(0, k + 1):
                sh = Sh(); sh.own(0, c)
                pro = ['newcap %d' % c]
                if k: pro.append('append 0 ' + hexs(_bytes(k))); sh.append(k)
                if f: pro.append('rmfront 0 %d' % f); sh.rmfront(f)
                emit(pro, sh, args(sh))
    # Buffers that own nothing and expose nothing: never used, freed, attached range consumed or cleared
    for pro in (['new'], ['newcap 3', 'append 0 4142', 'free 0'], ['new', 'attach 0 4142', 'rmfront 0 2'],
                ['new', 'attach 0 4142', 'rmback 0 5']):
        sh = Sh()
        emit(pro, sh, args(sh))
    sh = Sh(); sh.attach(2); sh.clear()
    emit(['new', 'attach 0 4142', 'clear 0'], sh, args(sh))
    for n in (UMAX, UMAX - 1, 2**63, UNSAT):
        count('scope:ctor/unsat')
        out.append(['new', 'newcap %d' % n, 'append 0 7e'])
        out.append(['newcap %d' % n])
    for k in range(0, 5):
        for f in range(0, k + 1):
            sh = Sh(); sh.attach(k)
            pro = ['new', 'attach 0 ' + hexs(_bytes(k, 0x31))]
            if f: pro.append('rmfront 0 %d' % f); sh.rmfront(f)
            emit(pro, sh, args(sh))
    return out


class C08(Check):
    id = 'C08'
    comp = 'Buffer'
    extracted = ['coq/Buffer/model.mli', 'coq/Buffer/model.ml', 'ocaml/zconv.ml', 'ocaml/buffer_driver.ml']
    harness_sources = ['harness/buffer.cpp']
    technique = ('machine-checked proof in Coq about a hand-written Gallina model with explicit memory (allocation = list of '
                 'capacity+1 cells, attached range = immutable byte list, every access through bounds-checked rd/wr; caller-chosen '
                 'sizes are binary numbers up to 2^64-1 and the usize sums capacity+1 and size+size are written with their wrap-around); '
                 'model tied to the code by an extracted-model vs ASan/UBSan-implementation correspondence check with guard bytes and an '
                 'allocation ledger; windows of more than 2^32 bytes are run for real (untouched pages) against a Python transcription '
                 'of spec and model that is itself compared with the extracted ones on every case it can express')
    level_text = ('Theorems in Coq (28, no axioms), for every history of new/copy/attach/=/assign/prepend/append/resize/reserve/'
                  'removeFront/removeBack/clear/free/swap/== over any number of Buffer variables, all sizes (every usize argument up to '
                  '2^64-1) and front/back offsets, including v = v, v.append(v), v.prepend(v), calls whose source pointer lies inside '
                  'the Buffer itself (v.append(v+off,n), v.assign(v+off,n), v.prepend(v+off,n)) and histories mixing attach with owning '
                  'operations: (1) C08_memory_safe(_step): the model never produces OutOfBounds / WriteForeign / Overlap / BadState; '
                  'the two errors left are BadArg, exactly when the reference object rejects the history (operand variable missing, a '
                  'data range longer than PTRDIFF_MAX, a pointer "inside v" that is not), and AllocFail, exactly when the reference says '
                  'the request cannot be satisfied (more than PTRDIFF_MAX bytes for data + terminator) or the operation is a reserve '
                  'for that much room (BufferSpec.hint_unsat); C08_allocate: '
                  'Buffer::allocate(c) yields c+1 cells for c < PTRDIFF_MAX and fails for every other c including 2^64-1 where c+1 wraps '
                  'to 0; C08_allocate_wrapping_refuted: the request formed before fixes/C08/10 succeeds with 0 cells for c = 2^64-1 and '
                  'the terminator write is out of bounds; C08_sums_do_not_wrap: the usize sums in append/prepend are the mathematical '
                  'sums on every reachable state; (2) C08_refines_queue(_step, _nohint): the exposed bytes agree with the reference byte '
                  'queue wherever the queue is specified (bytes newly exposed by a growing resize are None in the reference), == answers '
                  'agree; reserve is a no-op of the reference for EVERY argument (the text does not say what a reserve that no allocation '
                  'can follow does; the reference accepts an unchanged Buffer as well as a failed request there), C08_reserve_hint: the '
                  'model, like the code, stops there with a failed allocation, and the history theorem reads "the model stopped at such a '
                  'hint, or the reference decides the outcome" (C08_refines_queue_nohint: the exact three-way statement for histories '
                  'without one); per method and per branch (prepend: head-room / in-place shift / reallocate; resize: reallocate / in '
                  'place / compact to front / non-owning) C08_assign, C08_prepend, C08_resize, C08_append, C08_append_self, C08_append_at, '
                  'C08_assign_at, C08_prepend_at, C08_remove_front, C08_remove_back, C08_reserve, C08_clear state the exact exposed '
                  'bytes or the allocation failure; (3) C08_terminator: in every reachable world every owning variable has the cell at '
                  'bufferEnd inside its allocation of capacity+1 cells and it holds 0; (4) C08_invariant_initial_and_preserved / '
                  'C08_rep_invariant: buffer <= start <= end <= buffer+capacity, allocation length = capacity+1 <= PTRDIFF_MAX, '
                  'non-owning => capacity = 0 and the window lies inside the attached range or is the empty window on a _capacity '
                  'field.  The model is tied to the code by running the extracted model, the extracted reference queue and the '
                  'ASan/UBSan build of the working tree on the same histories: size, bytes, byte after the end, guard bytes and '
                  'pristine copy of attached ranges, the private pointers (own/start offset/allocation size), the answer of '
                  'capacity() (checked against the private member) and the number of live blocks allocated inside Buffer calls '
                  '(= number of owning variables) are compared after every operation.')
    level_note = ('The theorems are about the model; the tie to Buffer.hpp is differential (correspondence only), strengthened by an '
                  'exhaustive small scope over all owning states with capacity <= 5 (8 in the thorough tier) x arguments on and one '
                  'past every branch condition x every source range inside the window x 2^64-1 and three more unsatisfiable sizes.  '
                  'Sizes that are run: data ranges of at most 400 bytes (65538 in the stream `pages`); capacities and window sizes from '
                  'resize / reserve / the capacity constructor up to 400, on and next to 2^8, 2^12, 5000, 2^13, 2^15, 2^16 (stream `pages`: '
                  'every way to reach such a capacity x resize, append, prepend, compaction, reserve on and one past it; the random '
                  'streams request them now and then), 2^31-1..2^31+2 and 2^32..2^32+300 (stream `huge`: real allocations, pages never '
                  'touched are not committed; window offsets, head-room and removeFront/removeBack arguments above 2^32; one history, '
                  'four in the thorough tier, in which the code copies 4 GiB - left out, and the stream note says so, when less than '
                  '12 GB are available), and the unsatisfiable sizes >= 2^63-1.  NOT run: sizes between about 66000 and 2^31-2, between '
                  '2^31+3 and 2^32-1, and between 2^32+301 and 2^63-2; data ranges (append/prepend/assign arguments) above 65538 bytes.  '
                  'The extracted model holds an allocation as a list of cells and runs up to about 2^16 (2^20 with a raised stack); the '
                  'cases of `huge` are printed in compact form (size, first and last 8 bytes, private pointers) and judged against a '
                  'Python transcription of BufferSpec (run-length queue `RQ`) and of the window arithmetic of BufferModel (`Sh`) in this '
                  'file; in every run the transcription is compared with the extracted spec and model on all cases it can express (all '
                  'but == and source-inside-the-Buffer calls; the count is in the rule text), a difference aborts the check.  '
                  'Validated by correspondence only (not modelled): the order of delete[] relative to the copy out of the old '
                  'storage and double free (AddressSanitizer; this is what exhibited fixes/C08/12), operator!= / isEmpty consistency.  '
                  'The Server.cpp send backlog (append, removeFront, isEmpty and free of a Buffer per client, Server.cpp:343-350 and '
                  '459-463) is not driven through the server; the four calls are driven on Buffer objects directly and nothing the server '
                  'does there can break the Buffer text.  Storage release is not part of the property text: LeakSanitizer is off, '
                  'the harness keeps a ledger of the blocks allocated inside Buffer calls and prints their number (`live=`) in the '
                  'model-only section, where the model says "one per owning variable" - a Buffer that drops its block without delete[] '
                  'is reported as a correspondence break (no-failing-input-found), not as a failing input.  A request new[] cannot '
                  'satisfy ends the harness process (sanitizer report "out of memory", line `! oom`); the model predicts that line for '
                  'every capacity >= 2^63-1; the reference demands it for resize, the constructors, assign/append/prepend, and for '
                  'reserve accepts it as well as an unchanged Buffer (judge: spec line `?oom ...`), so that a reserve which ignores a hint '
                  'it cannot follow differs from the model only.  attach(0, 0) / attach of a null pointer is a precondition, not a case: after it the '
                  'next growing call hands the null pointer to memcpy with length 0 (UBSan nonnull-attribute report in Memory::copy, '
                  'src/Memory.cpp:16; no byte is read or written, so the property text is not touched) - ranges handed to attach are '
                  'always malloc blocks between guard areas.  Modelled as input: the bytes handed '
                  'to attach are fresh foreign memory that nobody else changes and that does not alias a Buffer allocation; a data '
                  'pointer handed to assign/append/prepend points either outside every Buffer or at bytes inside the window of the '
                  'receiving Buffer (a pointer into its head-room or slack, or into another Buffer that shares nothing, is the first '
                  'case).  Trusted: Coq kernel, BufferSpec.v as the reading of the property text, extraction + OCaml driver, harness, '
                  'the Python transcription for the `huge` cases, g++ sanitizers.')
    rule = ''
    rule_static = ('cases = histories over 1..4 Buffer variables; four random streams steered by a shadow of the window state '
                   '(owning: head-room/slack branches; attach: attach mixed with owning ops; alias: v=v, v.append(v), v.prepend(v), '
                   'swap(v,v), source pointers inside v; long: 60..120 ops, sizes to 200; resize/reserve/constructor sizes are <= 400, '
                   'with probability 1..4% one of 255..65537 around the powers of two, '
                   'or one of 2^64-1, 2^64-2, 2^64-1-size, 2^64-1-capacity, 2^63, 2^63-1, which end the history) + exhaustive stream '
                   '"branches" (every owning state with capacity <= 5, size, head-room and every attached state of length <= 4 with '
                   'front offset x every operation with arguments on and one past each branch condition, every (offset, length) inside '
                   'the window as source of append/assign/prepend, resize/reserve with 2^64-1 and one more unsatisfiable size, followed '
                   'by append+prepend) + exhaustive 2-op scope over a 47-op alphabet; removeFront/removeBack arguments include 2^64-1, '
                   '2^64-size, 2^63; stream "pages" (deterministic): capacity c in {255,256,257,4095,4096,4097,5000,8193,32768,65535,65536,'
                   '65537} (16 values thorough) reached in 6 ways x 8 continuations on and one past c; stream "huge" (deterministic): 5 '
                   'histories (9 thorough) with real allocations of 2^31+2 and 2^32+k bytes; '
                   'a case is non-trivial when the implementation\'s own dump shows at least two of {head-room > 0, capacity slack, '
                   'attached window, emptied non-owning window} and it has >= 3 mutating ops; distinct = distinct op text. ')
    assumptions = ['operator new[] satisfies every request of at most PTRDIFF_MAX bytes (in the model) and fails every larger one; in the run, requests are <= about 66000 bytes, 2^31+3 bytes, 2^32+k bytes (k <= 301), or >= 2^63-1',
                   'memory handed to attach() is not modified or freed by anyone else while attached and does not alias a Buffer allocation; the pointer is not null, also for length 0 (a null pointer reaches memcpy(dst, 0, 0) in the next growing call)',
                   'a raw data pointer passed to assign/append/prepend points outside every Buffer or at bytes inside the window of the receiving Buffer',
                   'byte ranges handed in (data, attach) are at most PTRDIFF_MAX-1 bytes long',
                   'cases with windows above 2^32 bytes are judged by the Python transcription of BufferSpec/BufferModel in checks/C08.py (compared with the extracted ones on every smaller case it can express)']

    # the case splits of the proofs: every one must be aimed at in every run (see extra_checks)
    REQUIRED = ['prepend/headroom/O', 'prepend/shift/O', 'prepend/realloc/O', 'prepend/realloc/A', 'prepend/realloc/D',
                'resize/realloc/O', 'resize/realloc/A', 'resize/realloc-shrink/A', 'resize/realloc/D', 'resize/inplace/O',
                'resize/compact/O', 'resize/nonowning-zero/A', 'resize/nonowning-zero/D',
                'append:resize/compact/O', 'append:resize/inplace/O', 'append:resize/realloc/O', 'append:resize/realloc/A',
                'appendb/self:append:resize/compact/O', 'appendb/self:append:resize/inplace/O', 'appendb/self:append:resize/realloc/O',
                'assign/inplace/O', 'assign/realloc/O', 'assign/realloc/A', 'assign/nonowning-empty/A', 'assign/nonowning-empty/D',
                'reserve/noop/O', 'reserve/realloc/O', 'reserve/realloc/A', 'reserve/realloc-below-size/A',
                'rmfront/part/O', 'rmfront/all/O', 'rmfront/over/O', 'rmfront/part/A', 'rmfront/all/A', 'rmfront/over/D',
                'rmback/part/O', 'rmback/all/O', 'rmback/over/O', 'rmback/part/A', 'rmback/all/A', 'rmback/over/D',
                'clear/O', 'clear/A', 'clear/D',
                'resize/unsat/O', 'resize/unsat/A', 'resize/unsat/D', 'reserve/unsat/O', 'reserve/unsat/A', 'reserve/unsat/D', 'ctor/unsat',
                'appendat:append:resize/realloc/O', 'appendat:append:resize/compact/O', 'appendat:append:resize/inplace/O',
                'appendat:append:resize/realloc/A', 'assignat:assign/inplace/O', 'assignat:assign/realloc/A',
                'prependat:prepend/headroom/O', 'prependat:prepend/shift/O', 'prependat:prepend/realloc/O', 'prependat:prepend/realloc/A']

    def __init__(self):
        super().__init__()
        self.branch_counts = {}

    # ---- generators ---------------------------------------------------------------------------
    def gen_stream(self, rng, count, nops, attach, alias, big=False):
        cases = []
        for _ in range(count):
            g = Gen(rng, attach, alias, maxv=rng.choice([1, 2, 3, 4]), big=big)
            cases.append(g.history(rng.randrange(nops[0], nops[1])))
            for l in g.labels:
                self.branch_counts[l] = self.branch_counts.get(l, 0) + 1
        return cases

    def streams(self, tier, rng):
        th = tier == 'thorough'
        out = []
        out.append(Stream('owning', self.gen_stream(rng, 2500 if th else 500, (6, 28), False, False),
                          note='no attach, no self-aliasing: default-constructed and owning states, every branch steered by head-room/slack'))
        out.append(Stream('attach', self.gen_stream(rng, 2500 if th else 500, (6, 28), True, False),
                          note='histories mixing attach with owning operations (separate stream)'))
        out.append(Stream('alias', self.gen_stream(rng, 1500 if th else 300, (5, 22), True, True),
                          note='b = b, b.append(b), b.prepend(b), b.swap(b), b == b in every ownership state'))
        out.append(Stream('long', self.gen_stream(rng, 200 if th else 40, (60, 120), True, True, big=True),
                          note='long histories, sizes up to 200'))
        def count(l):
            self.branch_counts[l] = self.branch_counts.get(l, 0) + 1
        mc = 8 if th else 5
        out.append(Stream('branches', branch_scope_cases(mc, count), exhaustive=True,
                          note='every owning state with capacity <= %d (size, head-room) and every attached state of length <= 4 '
                               '(front offset) x every operation with arguments on and one past each branch condition' % mc))
        out.append(Stream('scope2', small_scope_cases(2, True), exhaustive=True,
                          note='every history of 2 operations over a 36-operation alphabet (incl. removeFront/removeBack(2^64-1)) after a fixed prologue'))
        out.append(Stream('pages', page_cases(th),
                          note='one variable taken to a capacity of 255..65537 (around 2^8, 2^12, 2^13, 2^15, 2^16) by the capacity '
                               'constructor / reserve from an owning, attached, default state / growing resize / append, then resize, '
                               'append, prepend, compaction, reserve on and one past that capacity'))
        avail = mem_available_gb()
        copies_ok = avail >= 12
        out.append(Stream('huge', huge_cases(th, copies_ok),
                          note='real allocations of 2^31+k and 2^32+k bytes (untouched pages are not committed), compact dump, expected '
                               'lines from the Python transcription of BufferSpec / BufferModel (checks/C08.py RQ, Sh); '
                               + ('including %d histories in which the code copies 2 or 4 GiB' % (5 if th else 1) if copies_ok else
                                  'the histories in which the code copies 4 GiB were LEFT OUT: only %.1f GB available' % avail)))
        if th:
            core = ['prepend 1 61', 'prepend 1 6162636465', 'append 1 -', 'append 1 78797a31', 'resize 1 0', 'resize 1 2', 'resize 1 5',
                    'reserve 1 8', 'rmfront 1 1', 'rmfront 1 9', 'rmback 1 0', 'rmback 1 1', 'assign 1 -', 'assign 1 4142', 'clear 1', 'free 1',
                    'swap 0 1', 'asg 1 0', 'appendb 0 1', 'prependb 1 1', 'attach 1 3132333435', 'attach 0 -', 'append 0 -', 'rmback 0 0']
            out.append(Stream('scope3', small_scope_cases(3, True, core), exhaustive=True,
                              note='every history of 3 operations over a 24-operation alphabet'))
        # lib/vf.py gives up on a stream with more than 400 crashing cases (a broken prepend/append crashes most
        # cases of an exhaustive stream): hand every stream over in parts of <= 300 cases
        parts = []
        for st in out:
            nb = (len(st.cases) + 299) // 300
            if nb <= 1:
                parts.append(st)
                continue
            for i in range(nb):
                parts.append(Stream('%s-%02d' % (st.name, i), st.cases[i::nb], exhaustive=st.exhaustive,
                                    note='%s (part %d/%d)' % (st.note, i + 1, nb)))
        return parts

    CRASH_BUDGET, HANG_BUDGET = 150, 30
    bad_crashes = hangs = 0
    gave_up = False
    per_case_timeout = 4       # a case is a few dozen calls on buffers of at most 64 KiB (the `big` cases get 120 s)
    HINT_MAY_FAIL = True       # BufferSpec.hint_unsat: the spec driver marks such lines `?oom`

    @staticmethod
    def is_big(case):
        return bool(case) and case[0].startswith('@') and 'big' in case[0][1:].split()

    def _split_run(self, cases, tag, level, run_extracted):
        """cases marked `@big` are answered by the transcription, the others by the extracted driver, which the
        transcription is compared with on every case it can express"""
        idx_big = [i for i, c in enumerate(cases) if self.is_big(c)]
        rest = [c for i, c in enumerate(cases) if i not in set(idx_big)]
        got = run_extracted(rest, tag) if rest else []
        self.crosscheck(rest, got, level)
        res, it = [], iter(got)
        for i, c in enumerate(cases):
            if self.is_big(c):
                o = oracle_lines(c, level, self.HINT_MAY_FAIL)
                if o is None:
                    raise RuntimeError('C08: a `big` case uses an operation the transcription does not have: %r' % (c,))
                res.append(o)
            else:
                res.append(next(it))
        return res

    def run_model(self, cases, tag='model'):
        return self._split_run(cases, tag, 'model', lambda cs, tg: Check.run_model(self, cs, tg))

    def run_spec(self, cases, tag='spec'):
        return self._split_run(cases, tag, 'spec', lambda cs, tg: Check.run_spec(self, cs, tg))

    def crosscheck(self, cases, got, level):
        """the Python transcription (used for `big` cases) against the extracted Coq spec / model"""
        for c, g in zip(cases, got):
            o = oracle_lines(c, level, self.HINT_MAY_FAIL)
            if o is None:
                continue
            self.crosschecked = getattr(self, 'crosschecked', 0) + 1
            cg = [compact_line(l) for l in g]
            ok = len(o) == len(cg) and all((a == b) if level == 'spec' else vf.line_matches(a, b) for a, b in zip(o, cg))
            if not ok:
                k = next((i for i, (a, b) in enumerate(zip(o, cg)) if not ((a == b) if level == 'spec' else vf.line_matches(a, b))), min(len(o), len(cg)))
                raise RuntimeError('C08: Python transcription disagrees with the extracted %s on %r, line %d: `%s` vs `%s`' % (
                    level, c, k, (o + ['<nothing>'])[k][:300], (cg + ['<nothing>'])[k][:300]))

    def run_impl(self, cases, tag='impl'):
        # Histories that end in a request new[] cannot satisfy end the harness process (that is the behaviour under
        # test: `! oom`), about 400 times per run.  The sanitizer's symbolizer costs 150 ms per report and nothing
        # here reads the stack trace, only the report kind: switch it off.
        # `big` cases allocate more than 2^32 bytes for real: the allocator's limit is raised for them (the sizes that no
        # allocator satisfies, >= 2^63-1, still end in `! oom`)
        bigs = any(self.is_big(c) for c in cases)
        env = {'ASAN_OPTIONS': 'detect_leaks=0:abort_on_error=0:allocator_may_return_null=1:max_allocation_size_mb=%d:symbolize=0'
                               % (12000 if bigs else 2048)}
        wd = os.path.join(vf.BUILD, self.id, 'run')
        pct = 120 if bigs else self.per_case_timeout
        if tag.startswith('shr_') or len(cases) <= 1:
            return vf.run_exe_on_cases(self.exes['impl'], cases, wd, tag, is_impl=True, per_case_timeout=pct, env=env)
        # A tree on which most cases crash or hang must not cost more than a few minutes: the run goes in parts of 60
        # cases and stops for good (all streams) after CRASH_BUDGET crashes other than the expected `! oom`, or
        # HANG_BUDGET watchdog time-outs; what was not run is marked `! notrun` and dropped by lib/vf.py.
        res, crashes = [], {}
        for i in range(0, len(cases), 60):
            part = cases[i:i + 60]
            if self.bad_crashes >= self.CRASH_BUDGET or self.hangs >= self.HANG_BUDGET:
                if not self.gave_up:
                    self.gave_up = True
                    vf.log('[C08] %d crashes / %d time-outs so far: the remaining cases are not run' % (self.bad_crashes, self.hangs))
                res += [['! notrun'] for _ in part]
                continue
            r, cr = vf.run_exe_on_cases(self.exes['impl'], part, wd, tag, is_impl=True, per_case_timeout=pct, env=env)
            res += r
            for k, v in cr.items():
                crashes[i + k] = v
                if v[0] == 'timeout': self.hangs += 1
                elif v[0] != 'oom': self.bad_crashes += 1
        return res, crashes

    def judge(self, cases, impl_obs, spec_obs):
        """The reference's expected observations against the implementation's.  A spec line `?oom <line>` (a reserve no
        allocation can follow) is met by <line> and also by the process stopping there with `! oom`: the property text
        does not say which.  Reasons start with a constant tag per kind of failure (lib/vf.py groups on the first 80
        characters) and quote at most 240 characters of a line."""
        cut = lambda l: l if len(l) <= 240 else l[:160] + ' ... ' + l[-70:]
        fails = []
        for i, (s, o) in enumerate(zip(spec_obs, impl_obs)):
            s2, o2 = [], list(o)
            if self.is_big(cases[i]) and o2 and o2[-1] == '! timeout':
                # the watchdog on a case that works on 4 GiB says something about the machine (or about an implementation
                # that touches every byte, which the text allows), not about the property: judge what was observed before it
                o2 = o2[:-1]
                s = s[:len(o2)]
            for k, l in enumerate(s):
                if l.startswith('?oom '):
                    if k < len(o2) and o2[k] == '! oom' and k == len(o2) - 1:
                        break                                   # stopped at the hint: nothing follows, nothing to compare
                    l = l[5:]
                s2.append(l)
            else:
                k = vf.first_diff(s2, o2)
                if k is not None:
                    exp = s2[k] if k < len(s2) else '<nothing>'
                    got = o2[k] if k < len(o2) else '<nothing>'
                    if got.startswith('! ') and not exp.startswith('! '):
                        tag = '[the implementation stops with `%s` where the reference byte queue goes on]' % got.split(' | ')[0]
                    elif exp.startswith('! '):
                        tag = '[the reference says `%s` (no such object can exist), the implementation goes on]' % exp
                    else:
                        tag = ''
                    fails.append((i, k, (tag.ljust(84, '.') + ' ' if tag else '') +
                                  'spec expects `%s`, implementation gives `%s`' % (cut(exp), cut(got))))
                continue
            k = vf.first_diff(s2, o2[:len(s2)])
            if k is not None:
                fails.append((i, k, 'spec expects `%s`, implementation gives `%s`' % (cut(s2[k]), cut(o2[k]) if k < len(o2) else '<nothing>')))
        fails.sort(key=lambda f: len(cases[f[0]]))
        return fails

    def nontrivial(self, case, obs):
        """measured on the implementation's own internal dump: the history must reach at least two of
        {head-room > 0, capacity slack, attached window, pointer into a _capacity field after a mutation}
        and contain at least 3 mutating operations"""
        feats = set()
        for l in obs:
            parts = l.split(' | ')
            if len(parts) < 3:
                continue
            for m in re.finditer(r'own=(\d) cap=(\d+) at=(\w+):(\d+)', parts[2]):
                own, cap, kind, off = m.group(1), int(m.group(2)), m.group(3), int(m.group(4))
                if kind == 'own' and off > 0: feats.add('headroom')
                if kind == 'reg': feats.add('attached')
                if kind == 'cap' and len(feats) > 0: feats.add('emptied')
            for m in re.finditer(r'\[ (\d+) :', parts[1]):
                pass
            for (sz, cap) in zip(re.findall(r'\[ (\d+) :', parts[1]), re.findall(r'own=1 cap=(\d+)', parts[2])):
                pass
            sizes = [int(x) for x in re.findall(r'\[ (\d+) :', parts[1])]
            caps = [(int(a), int(b)) for a, b in re.findall(r'own=(\d) cap=(\d+)', parts[2])]
            for sz, (own, cap) in zip(sizes, caps):
                if own and cap > sz: feats.add('slack')
        muts = sum(1 for l in case if not l.startswith(('new', 'eq')))
        return len(feats) >= 2 and muts >= 3

    def extra_checks(self, tier, rng, ctx):
        # which proof cases the generated histories aimed at (scope: = exhaustive stream, plain = steered random streams)
        bc = self.branch_counts
        if not bc:                      # --replay: no streams were generated
            self.rule = self.rule_static
            return
        hit = {}
        for lab, n in bc.items():
            core = lab[6:] if lab.startswith('scope:') else lab
            hit[core] = hit.get(core, 0) + n
        missing = [r for r in self.REQUIRED if hit.get(r, 0) == 0]
        if missing:
            raise RuntimeError('C08 generators no longer aim at proof case(s): ' + ', '.join(missing))
        self.rule = self.rule_static + ('Python transcription compared with the extracted spec/model on %d case runs in this run; '
                                        % getattr(self, 'crosschecked', 0)) + 'proof cases aimed at in this run (count): ' + ', '.join(
            '%s=%d' % (r, hit[r]) for r in self.REQUIRED)


CHECK = C08
