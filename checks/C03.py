import itertools, os, re, sys
from vf import Check, Stream, log

NV = 3


# ------------------------------------------------------------------------------------------
# generators.  Each keeps a tiny python picture of the sizes so that the "valid" streams hit
# the preconditions; the expected observations never come from here (model/spec drivers).
# ------------------------------------------------------------------------------------------
def val(rng, small=True):
    return rng.randrange(0, 6) if small or rng.random() < 0.8 else rng.randrange(-50, 1000)


def gen_list_case(rng, kind, nops, valid=True, allow_sort=True):
    sizes = [0] * NV
    ops = ['@list ' + kind]
    for _ in range(nops):
        i = rng.randrange(NV) if valid else rng.randrange(NV + 1)
        j = rng.choice([x for x in range(NV) if x != i] or [0]) if valid else rng.randrange(NV + 1)
        n = sizes[i] if i < NV else 0
        r = rng.random()
        pos = (rng.choice([0, n, rng.randrange(n + 1)]) if valid else rng.randrange(n + 3))
        rpos = (rng.choice([0, max(n - 1, 0), rng.randrange(max(n, 1))]) if valid else rng.randrange(n + 3))
        if r < 0.16:
            ops.append('app %d %d' % (i, val(rng)))
        elif r < 0.24:
            ops.append('pre %d %d' % (i, val(rng)))
        elif r < 0.36:
            ops.append('ins %d %d %d' % (i, pos, val(rng)))
        elif r < 0.41:
            ops.append('insl %d %d %d' % (i, pos, j))
        elif r < 0.44:
            ops.append('appl %d %d' % (i, j))
        elif r < 0.47:
            ops.append('prel %d %d' % (i, j))
        elif r < 0.57:
            ops.append('rem %d %d' % (i, rpos))
        elif r < 0.62:
            ops.append('remv %d %d' % (i, val(rng)))
        elif r < 0.66:
            ops.append('remf %d' % i)
        elif r < 0.70:
            ops.append('remb %d' % i)
        elif r < 0.76:
            ops.append('find %d %d' % (i, val(rng)))
        elif r < 0.78:
            ops.append('clear %d' % i)
        elif r < 0.82:
            ops.append('swap %d %d' % (i, j))
        elif r < 0.86:
            ops.append('%s %d %d' % (rng.choice(['eq', 'ne']), i, rng.randrange(NV)))
        elif r < 0.89:
            ops.append('copy %d %d' % (i, j))
        elif r < 0.92:
            ops.append('asg %d %d' % (i, j))
        elif r < 0.93:
            ops.append('new %d' % i)
        elif r < 0.96:
            ops.append('apps %d %s' % (i, ' '.join(str(val(rng)) for _ in range(rng.randrange(0, 9)))))
        elif allow_sort:
            ops.append('sort %d' % i)
        else:
            ops.append('app %d %d' % (i, val(rng)))
        # keep the size picture roughly right (only used to aim positions)
        o = ops[-1].split()
        if i < NV:
            if o[0] in ('app', 'pre') or (o[0] == 'ins' and int(o[2]) <= n):
                sizes[i] += 1
            elif o[0] == 'apps':
                sizes[i] += len(o) - 2
            elif o[0] in ('insl',) and j < NV and j != i and int(o[2]) <= n:
                sizes[i] += sizes[j]
            elif o[0] in ('appl', 'prel') and j < NV and j != i:
                sizes[i] += sizes[j]
            elif o[0] in ('rem',) and int(o[2]) < n:
                sizes[i] -= 1
            elif o[0] in ('remf', 'remb') and n > 0:
                sizes[i] -= 1
            elif o[0] == 'remv':
                sizes[i] = max(0, n - 1) if rng.random() < 0.5 else n   # unknown: just an aim
            elif o[0] in ('clear', 'new'):
                sizes[i] = 0
            elif o[0] == 'swap' and j < NV and j != i:
                sizes[i], sizes[j] = sizes[j], sizes[i]
            elif o[0] in ('copy', 'asg') and j < NV and j != i:
                sizes[i] = sizes[j]
    return ops


def gen_array_case(rng, kind, nops, valid=True):
    sizes = [0] * NV
    ops = ['@array ' + kind]
    for _ in range(nops):
        i = rng.randrange(NV) if valid else rng.randrange(NV + 1)
        j = rng.choice([x for x in range(NV) if x != i] or [0]) if valid else rng.randrange(NV + 1)
        n = sizes[i] if i < NV else 0
        r = rng.random()
        rpos = (rng.choice([0, max(n - 1, 0), rng.randrange(max(n, 1))]) if valid else rng.randrange(n + 3))
        if r < 0.25:
            ops.append('app %d %d' % (i, val(rng)))
        elif r < 0.32:
            ops.append('appb %d %s' % (i, ' '.join(str(val(rng)) for _ in range(rng.randrange(0, 7)))))
        elif r < 0.37:
            ops.append('appa %d %d' % (i, j))
        elif r < 0.45:
            ops.append('rem %d %d' % (i, rpos))
        elif r < 0.52:
            ops.append('remi %d %d' % (i, rng.randrange(n + 2)))
        elif r < 0.56:
            ops.append('remf %d' % i)
        elif r < 0.60:
            ops.append('remb %d' % i)
        elif r < 0.66:
            ops.append('rsz %d %d' % (i, rng.choice([0, n, n + 1, max(n - 1, 0), rng.randrange(0, 20)])))
        elif r < 0.72:
            ops.append('rszv %d %d %d' % (i, rng.choice([0, n, n + 1, max(n - 1, 0), rng.randrange(0, 20)]), val(rng)))
        elif r < 0.78:
            ops.append('res %d %d' % (i, rng.choice([0, 1, 3, 4, 5, 7, 8, n, n + 1, rng.randrange(0, 40)])))
        elif r < 0.83:
            ops.append('find %d %d' % (i, val(rng)))
        elif r < 0.85:
            ops.append('clear %d' % i)
        elif r < 0.89:
            ops.append('swap %d %d' % (i, j))
        elif r < 0.92:
            ops.append('copy %d %d' % (i, j))
        elif r < 0.95:
            ops.append('asg %d %d' % (i, j))
        elif r < 0.97:
            ops.append('newc %d %d' % (i, rng.choice([0, 1, 3, 4, 5, 8, 10])))
        else:
            ops.append('new %d' % i)
        o = ops[-1].split()
        if i < NV:
            if o[0] == 'app':
                sizes[i] += 1
            elif o[0] == 'appb':
                sizes[i] += len(o) - 2
            elif o[0] == 'appa' and j < NV and j != i:
                sizes[i] += sizes[j]
            elif o[0] in ('rem', 'remi') and int(o[2]) < n:
                sizes[i] -= 1
            elif o[0] in ('remf', 'remb') and n > 0:
                sizes[i] -= 1
            elif o[0] in ('rsz', 'rszv'):
                sizes[i] = int(o[2])
            elif o[0] in ('clear', 'new', 'newc'):
                sizes[i] = 0
            elif o[0] == 'swap' and j < NV and j != i:
                sizes[i], sizes[j] = sizes[j], sizes[i]
            elif o[0] in ('copy', 'asg') and j < NV and j != i:
                sizes[i] = sizes[j]
    return ops


def gen_plist_case(rng, kind, nops, valid=True):
    sizes = [0] * NV
    ops = ['@plist ' + kind]
    for _ in range(nops):
        i = rng.randrange(NV) if valid else rng.randrange(NV + 1)
        j = rng.choice([x for x in range(NV) if x != i] or [0]) if valid else rng.randrange(NV + 1)
        n = sizes[i] if i < NV else 0
        r = rng.random()
        rpos = (rng.choice([0, max(n - 1, 0), rng.randrange(max(n, 1))]) if valid else rng.randrange(n + 3))
        if r < 0.45:
            ops.append('app %d %d' % (i, val(rng)))
        elif r < 0.60:
            ops.append('rem %d %d' % (i, rpos))
        elif r < 0.72:
            ops.append('remr %d %d' % (i, rpos))
        elif r < 0.79:
            ops.append('remf %d' % i)
        elif r < 0.86:
            ops.append('remb %d' % i)
        elif r < 0.90:
            ops.append('clear %d' % i)
        elif r < 0.97:
            ops.append('swap %d %d' % (i, j))
        else:
            ops.append('new %d' % i)
        o = ops[-1].split()
        if i < NV:
            if o[0] == 'app':
                sizes[i] += 1
            elif o[0] in ('rem', 'remr') and int(o[2]) < n:
                sizes[i] -= 1
            elif o[0] in ('remf', 'remb') and n > 0:
                sizes[i] -= 1
            elif o[0] in ('clear', 'new'):
                sizes[i] = 0
            elif o[0] == 'swap' and j < NV and j != i:
                sizes[i], sizes[j] = sizes[j], sizes[i]
    return ops


def weak_orderings(n):
    """all sequences of length n over 0..m-1 using every one of 0..m-1 (= all input orders with repeats)"""
    out = []
    for s in itertools.product(range(n), repeat=n):
        m = max(s) + 1 if s else 0
        if len(set(s)) == m:
            out.append(s)
    return out


def chunked_apps(i, vs, width=56):
    return ['apps %d %s' % (i, ' '.join(str(v) for v in vs[k:k + width])) for k in range(0, len(vs), width)] or ['apps %d' % i]


# ------------------------------------------------------------------------------------------
class C03(Check):
    id = 'C03'
    comp = 'Seq'
    extracted = ['coq/Seq/model.mli', 'coq/Seq/model.ml', 'ocaml/zconv.ml', 'ocaml/seq_driver.ml']
    harness_sources = ['harness/seq.cpp']
    per_case_timeout = 20
    technique = 'machine-checked proof (Coq 8.16.1) about an executable model + differential correspondence with the sanitizer build'
    level_text = ('Theorems in Coq (30, all closed under the global context), for every operation history over several container '
                  'variables and every element value: (1) the node-level model of List and PoolList (nodes = (value, slot id), pool of '
                  '4-item blocks with LIFO free list, separate _size field) and the model of Array (items, _capacity, allocation flag, '
                  'reserve with its `| 0x03` rounding and `!_begin.item` clause, shifting remove) refine one plain `list Z` per variable: '
                  'contents, order, size, the rank designated by every returned iterator/reference (= the inserted element / the successor '
                  'of the removed one), capacity >= size, capacity = 3 mod 4 once allocated, no reallocation while the request fits; the '
                  'pool invariant (every slot of every block in exactly one of nodes / free list) holds in every reachable state. (2) A '
                  'pointer-level transcription of the relinking code (heap of cells with prev/next, &endItem sentinel, _begin, endItem.prev, '
                  'free list threaded through prev, block allocation; insert, remove, clear, swap, the append/insert loops, find, forward '
                  'and backward iteration, front/back, isEmpty) is proved to do exactly what the node-level model does and to return the '
                  'pointer to the node it names. (3) List::sort transcribed statement by statement on node positions (ptr0/ptr1/ptr2, '
                  'swap, the guarded recursive calls) is proved equal to a value-level quicksort, which never runs out of fuel = length and '
                  'returns an ascending permutation under any key order. The node-level model is tied to the code by running the '
                  'extracted model, the extracted spec and the ASan/UBSan build of the working tree on the same histories (results, public '
                  'state of every variable, slot id of every node, free-list chain, block count, allocation flag compared after every '
                  'operation).')
    level_note = ('Trusted: Coq kernel, SeqSpec.v (the reference sequence), extraction + OCaml driver, harness, generators. '
                  'The theorems are about the models; the tie to the code is differential for the node-level / Array / value-level sort '
                  'models (they are what the drivers run) and by proof from there to the pointer-level transcriptions (SeqLinkModel, '
                  'sort_ptr), whose fidelity to the source text is by inspection. Validated by correspondence only: Array::operator==/!=, '
                  'operator T*, Iterator ++/-- of Array, PoolList::append with 0 or 2..7 constructor arguments (same code path as the 1-argument form), '
                  'element construction/destruction counts (C04; the harness still reports leaked elements as a failure). '
                  'Arguments that alias the container (`x = x`, append(self), append(own element)) are excluded by the precondition '
                  '(property C04). usize arithmetic is modelled in Z without wrap-around; allocation never fails. '
                  'Alignment of PoolList item headers for element sizes that are not a multiple of sizeof(void*) is outside the '
                  'statement (PoolList<int> puts every other header on a misaligned address: undefined behaviour, harmless to '
                  'contents/order/iterators on this platform; noted in DESIGN, proposed repair kept as '
                  'fixes/C03/02-poollist-item-alignment.declined.patch): the PoolList histories use `long` and a pointer-sized class. '
                  'Element comparison is `key a < key b` for a total key.')
    rule = ('cases = histories of 3 variables of one container (List / Array / PoolList) with element type int, Obj (heap-owning '
            'class, ASan sees lifetime errors) or kv (Obj ordered by value/16, so sort output reveals the partition scheme). Streams: '
            'mostly-valid random histories; malformed histories (positions/indices/variables out of range, self arguments: must be '
            'skipped identically); exhaustive short op sequences over a small alphabet (empty/one-element boundaries); Array sizes x '
            'capacities around every growth boundary; sort on every input order with repeats of up to 6 (quick) / 7 (thorough) '
            'elements, sorted/reversed/constant/random lists up to length 2000; sizes around the 4-item pool block boundary x every op at '
            'first/middle/last position followed by allocations that reveal the free-list order. A case is non-trivial when at least 3 '
            'operations were executed (not skipped) and some variable reached size >= 2, or when it sorts a list of >= 3 elements; '
            'distinct = distinct op text.')
    assumptions = ['no aliasing arguments (other == this, own elements passed by reference): property C04',
                   'sizes/capacities are far below 2^64 (no usize wrap-around), allocation succeeds',
                   'PoolList element types have a size that is a multiple of sizeof(void*) (item header alignment is outside the statement)',
                   'operator< of the element type is `key a < key b` for a function key into Z (a strict weak order)']

    pl_front = True

    def build(self):
        # PoolList::front()/back() do not compile on the unrepaired tree; then the harness is built
        # without them and prints `f ! b !`, which the spec contradicts on the first non-empty PoolList.
        self.harness_flags = ['-DSEQ_PL_FRONT']
        b = Check.build(self)
        if not b['impl_ok'] and any('front' in e or 'value' in e for e in b['errors']):
            first = [e for e in b['errors'] if e.startswith('harness build')]
            m = re.search(r'error: [^\n]*', first[0]) if first else None
            log('[C03] harness does not compile with PoolList::front()/back(): %s' % (m.group(0) if m else '?'))
            self.harness_flags = []
            self.pl_front = False
            b = Check.build(self)
        return b

    # ---- oracle ---------------------------------------------------------------------------
    @staticmethod
    def _cfg(case):
        return case[0][1:].split() if case and case[0].startswith('@') else ['list', 'int']

    @staticmethod
    def _norm_kv(line):
        """order inside a run of equal keys is unspecified for sort: compare as multisets, and
        front/back by key"""
        def grp(m):
            toks = m.group(1).split()
            try:
                toks = sorted(toks, key=int)
            except ValueError:
                pass
            return '[ ' + ''.join(t + ' ' for t in toks) + ']'
        line = re.sub(r'\[ ((?:-?\d+ )*)\]', grp, line)
        line = re.sub(r'\b([fb]) (-?\d+)', lambda m: '%s k%d' % (m.group(1), int(m.group(2)) // 16), line)
        return line

    def judge(self, cases, impl_obs, spec_obs):
        fails = []
        from vf import first_diff
        for i, (c, s, o) in enumerate(zip(cases, spec_obs, impl_obs)):
            cont, kind = self._cfg(c)[:2]
            ops = c[1:] if c and c[0].startswith('@') else c
            s2, o2 = list(s), list(o)
            if kind == 'kv':
                srt = [k for k, l in enumerate(ops) if l.startswith('sort')]
                if srt:
                    f = srt[0]
                    # ascending by key on the implementation's own output, for the sorted variable
                    for k in srt:
                        if k < len(o):
                            var = ops[k].split()[1]
                            m = re.search(r'L%s n \d+ e \d f \S+ b \S+ \[ ((?:-?\d+ )*)\]' % var, o[k])
                            if m:
                                keys = [int(t) // 16 for t in m.group(1).split()]
                                if any(a > b for a, b in zip(keys, keys[1:])):
                                    fails.append((i, k, '%s `%s`' % ('sort left a non-ascending sequence:'.ljust(80), o[k].split(' | ')[1][:200])))
                    s2 = s[:f] + [self._norm_kv(x) for x in s[f:]]
                    o2 = o[:f] + [self._norm_kv(x) for x in o[f:]]
            k = first_diff(s2, o2)
            if k is not None:
                exp = s[k] if k < len(s) else '<nothing>'
                got = o[k] if k < len(o) else '<nothing>'
                # a short tag first: vf.py groups failing cases by the head of the reason
                if got.startswith('!'):
                    tag = 'the implementation stops with `%s` in %s' % (got.split(' | ')[0], cont)
                elif exp.startswith('end live'):
                    tag = 'elements still alive after every container was destroyed (leak / double construction)'
                elif ' f ! b ! ' in got:
                    tag = 'front()/back() of %s do not compile' % cont
                elif exp.split(' | ')[0] != got.split(' | ')[0]:
                    tag = 'returned iterator/reference/result of `%s` differs' % (ops[k].split()[0] if k < len(ops) else '?')
                else:
                    tag = 'contents after `%s` differ' % (ops[k].split()[0] if k < len(ops) else '?')
                fails.append((i, k, '%s spec expects `%s`, implementation gives `%s`' % ((tag + ':').ljust(80), exp[:300], got[:300])))
                continue
            if cont == 'array':
                for k, l in enumerate(o):
                    for m in re.finditer(r'A\d n (\d+) e \d c (\d+)', l):
                        if int(m.group(2)) < int(m.group(1)):
                            fails.append((i, k, 'capacity() < size(): `%s`' % l[:200]))
                            break
        # one report per case
        seen, out = set(), []
        for f in fails:
            if f[0] not in seen:
                seen.add(f[0])
                out.append(f)
        return out

    def nontrivial(self, case, obs):
        done = sum(1 for l in obs if not l.startswith('skip') and not l.startswith('end') and not l.startswith('!'))
        sizes = [int(m) for l in obs for m in re.findall(r'[LAP]\d n (\d+)', l)]
        big = any(m >= 2 for m in sizes)
        sorts = any(l.startswith('sort') for l in case) and any(m >= 3 for m in sizes)
        return (done >= 3 and big) or sorts

    # ---- streams --------------------------------------------------------------------------
    def streams(self, tier, rng):
        th = tier == 'thorough'
        out = []
        kinds = ['int', 'obj']

        # List ------------------------------------------------------------------------------
        cases = [gen_list_case(rng, rng.choice(kinds), rng.randrange(10, 70)) for _ in range(1500 if th else 500)]
        out.append(Stream('list_hist', cases, note='mostly-valid random histories on 3 List variables'))
        cases = [gen_list_case(rng, rng.choice(kinds), rng.randrange(5, 40), valid=False) for _ in range(500 if th else 80)]
        out.append(Stream('list_malformed', cases, note='positions/variables out of range, self arguments: skipped on both sides'))
        alpha = ['app 0 1', 'pre 0 2', 'ins 0 1 3', 'rem 0 0', 'rem 0 1', 'remb 0', 'remf 0', 'remv 0 1', 'clear 0',
                 'insl 0 1 1', 'app 1 4', 'swap 0 1', 'asg 0 1', 'copy 1 0', 'sort 0', 'find 0 2', 'eq 0 1', 'appl 1 0']
        depth = 4 if th else 3
        cases = [['@list obj'] + list(p) for p in itertools.product(alpha, repeat=depth)]
        if not th:
            cases = cases[::2] + [['@list int'] + list(p) for p in itertools.product(alpha[:10], repeat=3)]
        out.append(Stream('list_small', cases, exhaustive=True,
                          note='every op sequence of length %d over an 18-op alphabet on tiny lists' % depth))

        # pool boundaries: blocks of 4 items, LIFO free list (alloc_spec / nl_remove_refines / nl_clear_refines:
        # a removed node is the next one handed out; a full block forces a new one)
        cases = []
        for n in (range(0, 10) if th else (0, 1, 2, 3, 4, 5, 8, 9)):
            pos = sorted({0, 1, n // 2, max(n - 1, 0), n})
            mids = (['rem 0 %d' % k for k in pos if k < n] + ['ins 0 %d 50' % k for k in pos] + ['insl 0 %d 1' % k for k in (0, n // 2, n)]
                    + ['remf 0', 'remb 0', 'remv 0 %d' % (n // 2 + 1), 'remv 0 99', 'clear 0', 'pre 0 51', 'app 0 52', 'appl 0 1', 'prel 0 1',
                       'asg 0 1', 'copy 0 1', 'swap 0 1', 'sort 0', 'new 0'])
            for m in mids:
                for m2 in (['rem 0 0', 'remb 0', 'clear 0', 'app 0 60'] if th else ['rem 0 0', 'app 0 60']):
                    kind = 'obj' if (n + len(m)) % 2 else 'int'
                    cases.append(['@list ' + kind, 'apps 1 7 8', 'apps 0 ' + ' '.join(str(k + 1) for k in range(n))]
                                 + [m, m2, 'app 0 77', 'ins 0 0 78', 'ins 0 1 79', 'pre 0 80', 'app 0 81', 'find 0 77', 'eq 0 1'])
        out.append(Stream('list_pool', cases, exhaustive=True,
                          note='sizes around the 4-item block boundary x every op at first/middle/last position, then 5 allocations that '
                               'show the free-list order (slot ids compared with the model)'))

        # Array -----------------------------------------------------------------------------
        cases = [gen_array_case(rng, rng.choice(kinds), rng.randrange(10, 70)) for _ in range(1500 if th else 500)]
        out.append(Stream('array_hist', cases, note='mostly-valid random histories on 3 Array variables'))
        cases = [gen_array_case(rng, rng.choice(kinds), rng.randrange(5, 40), valid=False) for _ in range(500 if th else 80)]
        out.append(Stream('array_malformed', cases))
        cases = []
        grow = ['app 0 9', 'appb 0 7 8', 'appb 0 1 2 3 4 5', 'appa 0 1', 'rsz 0 %d', 'rszv 0 %d 6', 'res 0 %d', 'copy 2 0', 'asg 1 0',
                'rem 0 0', 'remb 0', 'remi 0 %d']
        for c0 in ([None, 0, 1, 3, 4, 5, 7, 8, 9, 12] if th else [None, 0, 3, 4, 8]):
            for n in range(0, 14 if th else 10):
                for g in grow:
                    for d in ((-1, 0, 1, 2) if '%d' in g else (0,)):
                        ops = ['@array ' + ('obj' if (n + (c0 or 0)) % 2 else 'int')]
                        if c0 is not None:
                            ops.append('newc 0 %d' % c0)
                        ops.append('appb 1 5 6 7')
                        for k in range(n):
                            ops.append('app 0 %d' % (k + 1))
                        if '%d' in g:
                            m = n + d
                            if g.startswith('res'):
                                m = (n | 3) + d + 1 if n else d + 1
                            if m < 0:
                                continue
                            ops.append(g % m)
                        else:
                            ops.append(g)
                        ops.append('app 0 42')
                        cases.append(ops)
        out.append(Stream('array_growth', cases, exhaustive=True,
                          note='sizes 0..%d x initial capacities x every growing/shrinking op around the boundary' % (13 if th else 9)))

        # PoolList --------------------------------------------------------------------------
        cases = [gen_plist_case(rng, rng.choice(kinds), rng.randrange(10, 70)) for _ in range(800 if th else 300)]
        out.append(Stream('plist_hist', cases))
        cases = [gen_plist_case(rng, rng.choice(kinds), rng.randrange(5, 40), valid=False) for _ in range(300 if th else 50)]
        out.append(Stream('plist_malformed', cases))
        palpha = ['app 0 1', 'app 0 2', 'rem 0 0', 'rem 0 1', 'remr 0 0', 'remr 0 1', 'remb 0', 'remf 0', 'clear 0', 'swap 0 1', 'app 1 3']
        depth = 5 if th else 4
        cases = [['@plist obj'] + list(p) for p in itertools.product(palpha, repeat=depth)]
        if not th:
            cases = cases[::3]
        out.append(Stream('plist_small', cases, exhaustive=True))
        cases = []
        for n in (range(0, 10) if th else (0, 1, 3, 4, 5, 8, 9)):
            pos = sorted({0, 1, n // 2, max(n - 1, 0)})
            mids = (['rem 0 %d' % k for k in pos if k < n] + ['remr 0 %d' % k for k in pos if k < n]
                    + ['remf 0', 'remb 0', 'clear 0', 'app 0 52', 'swap 0 1', 'new 0'])
            for m in mids:
                for m2 in ['rem 0 0', 'remb 0', 'app 0 60']:
                    kind = 'obj' if (n + len(m)) % 2 else 'int'
                    cases.append(['@plist ' + kind, 'app 1 7', 'app 1 8'] + ['app 0 %d' % (k + 1) for k in range(n)]
                                 + [m, m2, 'app 0 77', 'app 0 78', 'app 0 79', 'remf 0', 'app 0 80', 'app 0 81'])
        out.append(Stream('plist_pool', cases, exhaustive=True,
                          note='PoolList sizes around the block boundary x every removal form at first/middle/last position, then in-place '
                               'constructions that show the free-list order'))

        # sort ------------------------------------------------------------------------------
        cases = []
        for n in range(0, (8 if th else 7)):
            for s in weak_orderings(n):
                vs = [k * 16 + t for t, k in enumerate(s)]
                cases.append(['@list kv'] + chunked_apps(0, vs) + ['sort 0'])
                if n <= 5:
                    cases.append(['@list int'] + chunked_apps(0, list(s)) + ['sort 0', 'find 0 1'])
        out.append(Stream('sort_perm', cases, exhaustive=True,
                          note='every input order with repeats of up to %d elements; kv kind: tags reveal the exact permutation' % (7 if th else 6)))
        cases = []
        lens = [2, 3, 10, 57, 300, 1000, 2000]
        for rep in range(8 if th else 1):
            for n in lens:
                shapes = {
                    'sorted': list(range(n)),
                    'reversed': list(range(n, 0, -1)),
                    'constant': [7] * n,
                    'random': [rng.randrange(-1000, 1000) for _ in range(n)],
                    'fewkeys': [rng.randrange(0, 4) for _ in range(n)],
                    'sawtooth': [(k * 7) % 13 for k in range(n)],
                }
                for name, vs in shapes.items():
                    if not th and n >= 1000 and name in ('constant', 'fewkeys', 'sawtooth'):
                        continue
                    if rep > 0 and name in ('sorted', 'reversed', 'constant', 'sawtooth'):
                        continue
                    kind = rng.choice(['int', 'obj'])
                    cases.append(['@list ' + kind] + chunked_apps(0, vs) + ['sort 0'])
                    if name in ('random', 'fewkeys'):
                        kv = [rng.randrange(0, 40 if name == 'random' else 3) * 16 + rng.randrange(16) for _ in range(n)]
                        cases.append(['@list kv'] + chunked_apps(0, kv) + ['sort 0'])
        out.append(Stream('sort_long', cases, note='sorted/reversed/constant/random lists of length up to 2000'))
        return out


CHECK = C03
