(* model / spec driver for component Rc (C09).  Note: Model.raise shadows Stdlib.raise. *)
open Model
open Zconv

let flavour_of cfg = match cfg with
  | "str" :: _ -> FStr | "var" :: _ -> FVar | "ptr" :: _ -> FPtr | "xml" :: _ -> FXml
  | _ -> failwith "case line needs a flavour: str | var | ptr | xml"

let nat s = nat_of_int (int_of_string s)
let parse_op toks = match toks with
  | ["create"; v; n] -> OCreate (nat v, z_of_int (int_of_string n))
  | ["null"; v] -> ONull (nat v)
  | ["copy"; d; s] -> OCopy (nat d, nat s)
  | ["fromraw"; d; s] -> OFromRaw (nat d, nat s)
  | ["assign"; d; s] -> OAssign (nat d, nat s)
  | ["reset"; v] -> OReset (nat v)
  | ["swap"; a; b] -> OSwap (nat a, nat b)
  | ["write"; v] -> OWrite (nat v)
  | ["detach"; v] -> ODetach (nat v)
  | ["destroy"; v] -> ODestroy (nat v)
  | _ -> failwith ("bad op: " ^ String.concat " " toks)

let fault_str = function
  | FUaf _ -> "! uaf" | FDouble _ -> "! dblfree" | FUnderflow _ -> "! underflow" | FSharedWrite _ -> "! sharedwrite"

(* class ids by first appearance of the block a variable reads its value from *)
let classes (obs : vobs list) : string list =
  let tbl = ref [] in
  List.map (fun o -> match o with
      | VOVal (b, _, _, _) ->
        let b = int_of_nat b in
        (match List.assoc_opt b !tbl with
         | Some c -> string_of_int c
         | None -> let c = List.length !tbl in tbl := (b, c) :: !tbl; string_of_int c)
      | _ -> ".") obs

let val_str f o = match o with
  | VODead -> "D"
  | VONull -> (match f with FStr -> "0" | _ -> "-")
  | VOVal (b, n, _, _) -> (match f with FPtr -> Printf.sprintf "%d:%s" (int_of_nat b) (dec_of_z n) | _ -> dec_of_z n)
let rc_str o = match o with
  | VOVal (b, _, r, Some c) -> dec_of_z r ^ (if int_of_nat b = int_of_nat c then "=" else "#")
  | VOVal (_, _, _, None) -> "0#"
  | _ -> "."

let sval_str f x = match x with
  | SDead -> "D" | SNull -> "-"
  | SVal (i, n) -> (match f with FPtr -> Printf.sprintf "%d:%s" (int_of_nat i) (dec_of_z n) | _ -> dec_of_z n)


(* ---- concurrent cases (flavours cstr / cvar / cptr / cxml) --------------------------------------- *)
let nv_print = 6
type cst = { cf : flavour; mutable cval0 : int; mutable cnv : int; mutable owns : int list; mutable progs : string list list array }

let is_conc cfg = match cfg with f :: _ -> String.length f > 1 && f.[0] = 'c' | [] -> false
let conc_flavour cfg = match cfg with f :: r -> flavour_of (String.sub f 1 (String.length f - 1) :: r) | [] -> FStr

(* harness rules: ops on variables outside the thread's range are skipped; Ptr has no write; only Ptr swaps *)
let cop_of f nv toks : cop option =
  let ok v = v >= 0 && v < nv in
  match toks with
  | ["copy"; d; s] -> let d = int_of_string d and s = int_of_string s in if ok d && ok s then Some (CCopy (nat_of_int d, nat_of_int s)) else None
  | ["assign"; d; s] -> let d = int_of_string d and s = int_of_string s in if ok d && ok s then Some (CAssign (nat_of_int d, nat_of_int s)) else None
  | ["drop"; v] -> let v = int_of_string v in if ok v then Some (CDrop (nat_of_int v)) else None
  | ["read"; v] -> let v = int_of_string v in if ok v then Some (CRead (nat_of_int v)) else None
  | "write" :: v :: r -> let v = int_of_string v in
    if not (ok v) then None else if f = FPtr then None else Some (CWrite (nat_of_int v, r = ["force"]))
  | ["swap"; a; b] -> let a = int_of_string a and b = int_of_string b in
    if f = FPtr && ok a && ok b && a <> b then Some (CSwap (nat_of_int a, nat_of_int b)) else None
  | _ -> failwith ("bad thread op: " ^ String.concat " " toks)

let cfg_of (c : cst) =
  List.mapi (fun i n -> (nat_of_int n, List.filter_map (cop_of c.cf c.cnv) c.progs.(i))) c.owns

let rec run_to_end st nth budget =
  if finishedb st || budget <= 0 then st
  else run_to_end (run_sched st (List.init nth nat_of_int)) nth (budget - 1)

let pad l n x = l @ List.init (max 0 (n - List.length l)) (fun _ -> x)
let join_groups gs = String.concat " ; " (List.map (String.concat " ") gs)

let conc_obs (c : cst) (st : cstate) : string =
  match st.cflt with
  | Some (CUaf _) -> "! uaf" | Some (CDouble _) -> "! dblfree" | Some (CUnderflow _) -> "! underflow"
  | Some (CSharedWrite _) -> "! sharedwrite" | Some (CFreeReferenced _) -> "! freereferenced"
  | None ->
    let blk b = List.nth st.cheap (int_of_nat b) in
    let tbl = ref [] in
    let cls b = let b = int_of_nat b in
      match List.assoc_opt b !tbl with Some k -> string_of_int k
      | None -> let k = List.length !tbl in tbl := (b, k) :: !tbl; string_of_int k in
    let vals = List.map (fun th -> pad (List.map (fun x -> match x with
        | None -> "D"
        | Some b -> (match c.cf with FPtr -> "0:" ^ dec_of_z (blk b).cval | _ -> dec_of_z (blk b).cval)) th.tvars) nv_print "D") st.threads in
    let classes = List.map (fun th -> pad (List.map (fun x -> match x with None -> "." | Some b -> cls b) th.tvars) nv_print ".") st.threads in
    let rcs = List.map (fun th -> pad (List.map (fun x -> match x with None -> "." | Some b -> dec_of_z (blk b).crc ^ "=") th.tvars) nv_print ".") st.threads in
    (* drop every handle that is left: nothing may stay allocated *)
    let drops = List.init c.cnv (fun v -> CDrop (nat_of_int v)) in
    let st2 = { st with threads = List.map (fun th -> { th with prog = drops; phase = O }) st.threads } in
    let nth = List.length st.threads in
    let st3 = run_to_end st2 nth (5 * c.cnv + 5) in
    let after = match st3.cflt with Some _ -> -1 | None -> int_of_nat (live_cblocks st3) in
    Printf.sprintf "%s | live=%d | %s | %s | after=%d" (join_groups vals) (int_of_nat (live_cblocks st))
      (join_groups classes) (join_groups rcs) after

let conc_run (c : cst) (sched : int list) : string =
  let cfg = cfg_of c in
  let variant = (match c.cf with FVar | FXml -> true | _ -> false) in
  let st0 = cinit variant (z_of_int c.cval0) (nat_of_int c.cnv) cfg in
  let nth = List.length cfg in
  let st1 = run_sched st0 (List.map nat_of_int (List.filter (fun t -> t >= 0 && t < nth) sched)) in
  let st2 = run_to_end st1 nth (int_of_nat (steps_bound cfg) + 5) in
  if st2.cflt = None && not (finishedb st2) then "! model-did-not-finish" else conc_obs c st2

(* a few fixed schedules for `free`: all must give the same observation *)
let lcg s = (s * 1103515245 + 12345) land 0x3fffffff
let free_schedules (c : cst) =
  let cfg = cfg_of c in
  let nth = List.length cfg in
  let total = int_of_nat (steps_bound cfg) in
  let seqs = List.concat (List.init nth (fun t -> List.init total (fun _ -> t))) in
  let rnd seed = let s = ref seed in List.init (2 * total) (fun _ -> s := lcg !s; if nth = 0 then 0 else (!s lsr 8) mod nth) in
  [[]; seqs; List.rev seqs; rnd 1; rnd 7; rnd 12345]

let conc_spec (c : cst) : string =
  let nth = List.length c.owns in
  let sv = List.concat (List.mapi (fun _ n -> List.init nv_print (fun j -> if j < min n c.cnv then SVal (O, z_of_int c.cval0) else SDead)) c.owns) in
  let st = ref { svars = sv; screated = S O } in
  let ok v = v >= 0 && v < c.cnv in
  Array.iteri (fun t prog ->
      if t < nth then
        let base = t * nv_print in
        let n v = nat_of_int (base + v) in
        List.iter (fun toks ->
            let o = match toks with
              | ["copy"; d; s] -> let d = int_of_string d and s = int_of_string s in if ok d && ok s then Some (OCopy (n d, n s)) else None
              | ["assign"; d; s] -> let d = int_of_string d and s = int_of_string s in if ok d && ok s then Some (OAssign (n d, n s)) else None
              | ["drop"; v] -> let v = int_of_string v in if ok v then Some (ODestroy (n v)) else None
              | "write" :: v :: _ -> let v = int_of_string v in if ok v then Some (OWrite (n v)) else None
              | ["swap"; a; b] -> let a = int_of_string a and b = int_of_string b in if ok a && ok b && a <> b then Some (OSwap (n a, n b)) else None
              | _ -> None in
            match o with Some o -> st := spec_step c.cf !st o | None -> ()) prog) c.progs;
  let rec groups l = if l = [] then [] else
      let rec take k l = if k = 0 then ([], l) else match l with [] -> ([], []) | x :: r -> let (a, b) = take (k - 1) r in (x :: a, b) in
      let (g, r) = take nv_print l in g :: groups r in
  join_groups (List.map (List.map (sval_str c.cf)) (groups !st.svars))

let conc_main mode file =
  run_cases file
    (fun cfg -> { cf = conc_flavour cfg; cval0 = 0; cnv = 1; owns = []; progs = [||] })
    (fun c _ toks ->
       (match toks with
        | "init" :: v :: nv :: owns ->
          c.cval0 <- int_of_string v; c.cnv <- max 1 (min nv_print (int_of_string nv));
          let owns = List.filteri (fun i _ -> i < 4) owns in
          c.owns <- List.map (fun s -> max 0 (min c.cnv (int_of_string s))) owns;
          c.progs <- Array.make (List.length c.owns) [];
          emit "init"
        | "t" :: tid :: rest ->
          let t = int_of_string tid in
          if t >= 0 && t < Array.length c.progs && List.length c.progs.(t) < 64 && List.length rest >= 2 then c.progs.(t) <- c.progs.(t) @ [rest];
          emit "t"
        | "go" :: ids ->
          if mode = "spec" then emit (conc_spec c) else emit (conc_run c (List.map int_of_string ids))
        | "free" :: _ ->
          if mode = "spec" then emit (conc_spec c) else begin
            let outs = List.map (conc_run c) (free_schedules c) in
            match outs with
            | o :: r -> if List.for_all (fun x -> x = o) r then emit o else emit "! model-schedule-dependent"
            | [] -> ()
          end
        | _ -> emit "?unknown-op");
       c)
    (fun _ -> emit "end")

let seq_main mode file =
  if mode = "model" || mode = "aswritten" then begin
    let obj_only = (mode = "aswritten") in
    let dead = ref false in
    run_cases file (fun cfg -> dead := false; (flavour_of cfg, init))
      (fun (f, st) _ toks ->
         if !dead then (f, st) else begin
           let (st', obs) = step_obs obj_only f st (parse_op toks) in
           (match st'.flt with
            | Some x -> emit (fault_str x); dead := true
            | None ->
              emit (Printf.sprintf "%s | live=%d dtors=%d | %s | %s"
                      (String.concat " " (List.map (val_str f) obs))
                      (int_of_nat (live_blocks st')) (int_of_nat (total_dtors st'))
                      (String.concat " " (classes obs))
                      (String.concat " " (List.map rc_str obs))));
           (f, st')
         end)
      (fun (f, st) ->
         if not !dead then begin
           let st' = destroy_all f st in
           match st'.flt with
           | Some x -> emit (fault_str x)
           | None -> emit (Printf.sprintf "end | live=%d dtors=%d" (int_of_nat (live_blocks st')) (int_of_nat (total_dtors st')))
         end)
  end else
    run_cases file (fun cfg -> (flavour_of cfg, sinit))
      (fun (f, st) _ toks ->
         let st' = spec_step f st (parse_op toks) in
         let vals = String.concat " " (List.map (sval_str f) st'.svars) in
         (match f with
          | FPtr -> emit (Printf.sprintf "%s | live=%d dtors=%d" vals (int_of_nat (reachable st')) (int_of_nat (must_be_destroyed st')))
          | _ -> emit vals);
         (f, st'))
      (fun (f, st) ->
         match f with
         | FPtr -> emit (Printf.sprintf "end | live=0 dtors=%d" (int_of_nat st.screated))
         | _ -> emit "end")

(* a file holds either sequential or concurrent cases (the check keeps them in separate streams) *)
let () =
  let mode = Sys.argv.(1) and file = Sys.argv.(2) in
  let ic = open_in file in
  let conc = ref false in
  (try
     while true do
       let line = input_line ic in
       match tokens line with
       | "case" :: _ :: cfg -> if is_conc cfg then conc := true; Stdlib.raise Exit
       | _ -> ()
     done
   with End_of_file | Exit -> ());
  close_in ic;
  if !conc then conc_main mode file else seq_main mode file
