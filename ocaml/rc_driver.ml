(* model / spec driver for component Rc (C09).  Note: Model.raise shadows Stdlib.raise. *)
open Model
open Zconv

let flavour_of cfg = match cfg with
  | "str" :: _ -> FStr | "var" :: _ -> FVar | "ptr" :: _ -> FPtr
  | _ -> failwith "case line needs a flavour: str | var | ptr"

let nat s = nat_of_int (int_of_string s)
let parse_op toks = match toks with
  | ["create"; v; n] -> OCreate (nat v, z_of_int (int_of_string n))
  | ["null"; v] -> ONull (nat v)
  | ["copy"; d; s] -> OCopy (nat d, nat s)
  | ["fromraw"; d; s] -> OFromRaw (nat d, nat s)
  | ["assign"; d; s] -> OAssign (nat d, nat s)
  | ["reset"; v] -> OReset (nat v)
  | ["swap"; a; b] -> OSwap (nat a, nat b)
  | ["write"; v] -> OWrite (nat v)
  | ["detach"; v] -> ODetach (nat v)
  | ["destroy"; v] -> ODestroy (nat v)
  | _ -> failwith ("bad op: " ^ String.concat " " toks)

let fault_str = function
  | FUaf _ -> "! uaf" | FDouble _ -> "! dblfree" | FUnderflow _ -> "! underflow" | FSharedWrite _ -> "! sharedwrite"

(* class ids by first appearance of the block a variable reads its value from *)
let classes (obs : vobs list) : string list =
  let tbl = ref [] in
  List.map (fun o -> match o with
      | VOVal (b, _, _, _) ->
        let b = int_of_nat b in
        (match List.assoc_opt b !tbl with
         | Some c -> string_of_int c
         | None -> let c = List.length !tbl in tbl := (b, c) :: !tbl; string_of_int c)
      | _ -> ".") obs

let val_str f o = match o with
  | VODead -> "D"
  | VONull -> (match f with FStr -> "0" | _ -> "-")
  | VOVal (b, n, _, _) -> (match f with FPtr -> Printf.sprintf "%d:%s" (int_of_nat b) (dec_of_z n) | _ -> dec_of_z n)
let rc_str o = match o with
  | VOVal (b, _, r, Some c) -> dec_of_z r ^ (if int_of_nat b = int_of_nat c then "=" else "#")
  | VOVal (_, _, _, None) -> "0#"
  | _ -> "."

let sval_str f x = match x with
  | SDead -> "D" | SNull -> "-"
  | SVal (i, n) -> (match f with FPtr -> Printf.sprintf "%d:%s" (int_of_nat i) (dec_of_z n) | _ -> dec_of_z n)

let () =
  let mode = Sys.argv.(1) and file = Sys.argv.(2) in
  if mode = "model" || mode = "aswritten" then begin
    let obj_only = (mode = "aswritten") in
    let dead = ref false in
    run_cases file (fun cfg -> dead := false; (flavour_of cfg, init))
      (fun (f, st) _ toks ->
         if !dead then (f, st) else begin
           let (st', obs) = step_obs obj_only f st (parse_op toks) in
           (match st'.flt with
            | Some x -> emit (fault_str x); dead := true
            | None ->
              emit (Printf.sprintf "%s | live=%d dtors=%d | %s | %s"
                      (String.concat " " (List.map (val_str f) obs))
                      (int_of_nat (live_blocks st')) (int_of_nat (total_dtors st'))
                      (String.concat " " (classes obs))
                      (String.concat " " (List.map rc_str obs))));
           (f, st')
         end)
      (fun (f, st) ->
         if not !dead then begin
           let st' = destroy_all f st in
           match st'.flt with
           | Some x -> emit (fault_str x)
           | None -> emit (Printf.sprintf "end | live=%d dtors=%d" (int_of_nat (live_blocks st')) (int_of_nat (total_dtors st')))
         end)
  end else
    run_cases file (fun cfg -> (flavour_of cfg, sinit))
      (fun (f, st) _ toks ->
         let st' = spec_step f st (parse_op toks) in
         let vals = String.concat " " (List.map (sval_str f) st'.svars) in
         (match f with
          | FPtr -> emit (Printf.sprintf "%s | live=%d dtors=%d" vals (int_of_nat (reachable st')) (int_of_nat (must_be_destroyed st')))
          | _ -> emit vals);
         (f, st'))
      (fun (f, st) ->
         match f with
         | FPtr -> emit (Printf.sprintf "end | live=0 dtors=%d" (int_of_nat st.screated))
         | _ -> emit "end | live=0 dtors=?")
