(* model / spec driver for component Rc (C09).  Note: Model.raise shadows Stdlib.raise. *)
open Model
open Zconv

let flavour_of cfg = match cfg with
  | "str" :: _ | "strx" :: _ -> FStr | "var" :: _ -> FVar | "ptr" :: _ -> FPtr | "xml" :: _ -> FXml
  | _ -> failwith "case line needs a flavour: str | var | ptr | xml"
let kind_of cfg = match cfg with _ :: k :: _ -> k | _ -> ""

let nat s = nat_of_int (int_of_string s)

(* contents: markers 1..7, most significant first, as a number in base 8 (RcModel.push); "-" / "_" = empty *)
let is_digits s =
  s = "-" || (String.length s > 0 && String.length s <= 64 &&
              (let ok = ref true in String.iter (fun c -> if c < '1' || c > '7' then ok := false) s; !ok))
let z_of_digits s =
  if s = "-" || s = "_" then Z0
  else (let acc = ref Z0 in String.iter (fun c -> acc := push !acc (z_of_int (Char.code c - 48))) s; !acc)
let digits_of_z (x : z) : string = match x with
  | Zpos p ->
    let bits = pos_to_bits p [] in                      (* most significant first *)
    let pad = (3 - List.length bits mod 3) mod 3 in
    let bits = List.init pad (fun _ -> 0) @ bits in
    let rec go l acc = match l with
      | a :: b :: c :: r -> go r (acc ^ string_of_int (4 * a + 2 * b + c))
      | _ -> acc in
    go bits ""
  | _ -> "_"

(* mirrors the argument checks of the harness; `Bad s`: the line both sides print instead of an observation.
   `pk v` = the contents variable v reads now and `lv v` = whether it is constructed (from the model state in model
   mode, from the spec state in spec mode): a few entry points take an argument that depends on the own text
   (trim assigns substr(..) of it, append(p, n) with p pointing into it, join / printf of the own text).
   Variable 6 is the handle the library itself constructs inside a call (`String copy( *this)` of prepend,
   `Variant tmp = other` of Variant::swap, the String substr returns in trim). *)
type parsed = Op of op | Ops of op list | Bad of string
let in_range s = match int_of_string_opt s with Some v -> v >= 0 && v < 6 | None -> false
let tmpv = nat_of_int 6
let marker s = match int_of_string_opt s with Some m when m >= 1 && m <= 7 -> Some m | _ -> None
let literals = [| "-"; "12"; "1576" |]                 (* "", "ab", "aB C" *)
(* String::replace(const String&, const String&) on marker strings *)
let replace_all (text : string) (needle : string) (repl : string) : string =
  let n = String.length needle and b = Buffer.create 16 in
  let i = ref 0 in
  while !i < String.length text do
    if n > 0 && !i + n <= String.length text && String.sub text !i n = needle then (Buffer.add_string b repl; i := !i + n)
    else (Buffer.add_char b text.[!i]; incr i)
  done;
  Buffer.contents b
let seq_ops = ["create"; "null"; "copy"; "fromraw"; "assign"; "assignraw"; "assignval"; "reset"; "swap"; "write"; "detach"; "destroy"; "viaelem"; "resize"; "reserve";
               "tolower"; "toupper"; "replace"; "charptr"; "appends"; "pluseq"; "pluseqc"; "appendp"; "appendself"; "prepends"; "prependp"; "trim";
               "assignscalar"; "nullk"; "vswap"; "retype";
               "attach"; "lit"; "assignlit"; "printf"; "printfself"; "join"; "replacess"; "constptr"]
let parse_op ?(x = false) f kind (pk : int -> z) (lv : int -> bool) toks : parsed =
  match toks with
  | o :: v :: rest when List.mem o seq_ops ->
    let arg = match rest with a :: _ -> a | [] -> "-" in
    let arg2 = match rest with _ :: a :: _ -> a | _ -> "-" in
    let arg3 = match rest with _ :: _ :: a :: _ -> a | _ -> "-" in
    let two = List.mem o ["copy"; "fromraw"; "assign"; "assignraw"; "swap"; "viaelem"; "appends"; "pluseq"; "prepends"; "vswap"] in
    let str_only = List.mem o ["tolower"; "toupper"; "replace"; "charptr"; "appends"; "pluseq"; "pluseqc"; "appendp"; "appendself"; "prepends"; "prependp"; "trim"] in
    let x_only = List.mem o ["attach"; "lit"; "assignlit"; "printf"; "printfself"; "join"; "replacess"; "constptr"] in
    let len_of vi = int_of_z (slen (pk vi)) in
    let dlen s = if s = "-" then 0 else String.length s in
    let maxlen = 100 in                                  (* both sides skip a call that would make a text longer than this *)
    let nop vi = Op (OSwap (nat_of_int vi, nat_of_int vi)) in       (* String / Variant: swap is not an op of theirs: nothing happens *)
    let set vi c = if lv vi then Ops [ODestroy (nat_of_int vi); OCreate (nat_of_int vi, c)] else nop vi in   (* value semantics: v holds c *)
    if not (in_range v) then Bad "?bad-var"
    else if two && not (in_range arg) then Bad "?bad-var"
    else if str_only && f <> FStr then Bad "?unsupported"
    else if x_only && not x then Bad "?unsupported"
    else begin let vi = int_of_string v in match o with
      | "create" -> if f = FPtr then Op (OCreate (nat v, z_of_int (int_of_string arg)))
        else if not (is_digits arg) then Bad "?bad-contents" else Op (OCreate (nat v, z_of_digits arg))
      | "null" -> Op (ONull (nat v))
      | "copy" -> Op (OCopy (nat v, nat arg))
      | "fromraw" -> Op (OFromRaw (nat v, nat arg))
      | "assign" -> Op (OAssign (nat v, nat arg))
      | "assignraw" -> Op (OAssignRaw (nat v, nat arg))
      | "assignval" -> if not (is_digits arg) then Bad "?bad-contents"
        else if f = FXml && kind <> "text" then Bad "?unsupported"
        else Op (OAssignVal (nat v, z_of_digits arg))   (* String, Ptr: nothing happens on either side *)
      | "viaelem" ->
        (* d.toList().append(s); d = d.toList().back(): by value semantics a write access on d, then d = s *)
        if not ((f = FVar && kind <> "string") || (f = FXml && kind <> "text")) then Bad "?unsupported"
        else if v = arg then Op (ODetach (nat v)) else Ops [ODetach (nat v); OAssign (nat v, nat arg)]
      | "reset" -> Op (OReset (nat v))
      | "swap" -> Op (OSwap (nat v, nat arg))
      | "write" | "pluseqc" -> (match marker arg with
          | Some m -> if f = FXml && kind = "text" then Bad "?unsupported" else Op (OWrite (nat v, z_of_int m))
          | None -> Bad "?bad-contents")
      | "detach" -> if f = FXml && kind = "text" then Bad "?unsupported" else Op (ODetach (nat v))
      | "resize" | "reserve" ->                          (* String only: resize(min(n, length)) / reserve(n) *)
        (match int_of_string_opt arg with
         | Some n when n >= 0 && n <= 80 ->
           if f <> FStr then Bad "?unsupported"
           else if o = "resize" then Op (OResize (nat v, z_of_int n)) else Op (OReserve (nat v, z_of_int n))
         | _ -> Bad "?bad-contents")
      (* ---- the other modifiers of String: detach(..), then the own block is written ---- *)
      | "tolower" -> Op (OStrMod (nat v, SMap MLower))
      | "toupper" -> Op (OStrMod (nat v, SMap MUpper))
      | "replace" | "charptr" ->                         (* replace(char, char) | char* p = s; store through p *)
        (match marker arg, marker arg2 with
         | Some a, Some b -> Op (OStrMod (nat v, SMap (MRepl (z_of_int a, z_of_int b))))
         | _ -> Bad "?bad-contents")
      | "appends" | "pluseq" ->                          (* append(const String&) | operator+=(const String&) *)
        if len_of vi + len_of (int_of_string arg) > maxlen then nop vi else Op (OStrCatV (false, nat v, nat arg))
      | "appendp" -> if not (is_digits arg) then Bad "?bad-contents"
        else if len_of vi + dlen arg > maxlen then nop vi else Op (OStrMod (nat v, SCat (false, z_of_digits arg)))
      | "appendself" ->                                  (* s.append((const char* )s + off, n): the argument points into the own text *)
        (match int_of_string_opt arg, int_of_string_opt arg2 with
         | Some off, Some n when off >= 0 && n >= 0 && off <= 80 && n <= 80 ->
           if 2 * len_of vi > maxlen then nop vi else
           Op (OStrMod (nat v, SCat (false, subv (pk vi) (z_of_int off) (z_of_int n))))
         | _ -> Bad "?bad-contents")
      (* prepend keeps the old text alive through `String copy( *this)` while it detaches *)
      | "prepends" -> if len_of vi + len_of (int_of_string arg) > maxlen then nop vi
        else Ops [OCopy (tmpv, nat v); OStrCatV (true, nat v, nat arg); ODestroy tmpv]
      | "prependp" -> if not (is_digits arg) then Bad "?bad-contents"
        else if len_of vi + dlen arg > maxlen then nop vi
        else Ops [OCopy (tmpv, nat v); OStrMod (nat v, SCat (true, z_of_digits arg)); ODestroy tmpv]
      | "trim" ->                                        (* `if(newLen != len) *this = substr(..)`: a new String, assigned *)
        if not (is_digits arg) then Bad "?bad-contents" else
        let c = pk vi in
        let c' = trimv (z_of_digits arg) c in
        if not (lv vi) || c' = c then nop vi
        else Ops [OCreate (tmpv, c'); OAssign (nat v, tmpv); ODestroy tmpv]
      (* ---- Variant: scalar values live in the handle itself (no payload): `v = 5` is clear() + inline data ---- *)
      | "assignscalar" -> if f <> FVar then Bad "?unsupported" else Op (OReset (nat v))
      | "nullk" -> if f <> FVar then Bad "?unsupported" else Op (ONull (nat v))
      | "vswap" ->                                       (* Variant::swap: tmp = other; other = *this; *this = tmp *)
        if f <> FVar then Bad "?unsupported"
        else Ops [OCopy (tmpv, nat arg); OAssign (nat arg, nat v); OAssign (nat v, tmpv); ODestroy tmpv]
      | "retype" ->
        (* both `type != T` branches in one op: the write accessor of another type (a new empty payload), and the value
           assignment of the case's type with contents c; Xml element cases the other way round (v = text c; v.toElement()) *)
        if not (is_digits arg) then Bad "?bad-contents"
        else if f <> FVar && f <> FXml then Bad "?unsupported"
        else if f = FXml && kind <> "text" then Ops [ORetype (nat v, z_of_digits arg); ORetype (nat v, Z0)]
        else Ops [ORetype (nat v, Z0); ORetype (nat v, z_of_digits arg)]
      (* ---- flavour strx only (no Model): uncounted data (attach, literals) and the modifiers built from other calls ---- *)
      | "attach" -> if not (is_digits arg) then Bad "?bad-contents" else set vi (z_of_digits arg)
      | "lit" | "assignlit" ->
        (match int_of_string_opt arg with
         | Some k when k >= 0 && k < Array.length literals ->
           if o = "lit" then (if lv vi then nop vi else Op (OCreate (nat v, z_of_digits literals.(k)))) else set vi (z_of_digits literals.(k))
         | _ -> Bad "?bad-contents")
      | "printf" -> if not (is_digits arg) then Bad "?bad-contents" else set vi (z_of_digits arg)
      | "printfself" -> if not (is_digits arg) then Bad "?bad-contents"
        else if len_of vi + dlen arg > maxlen then nop vi else set vi (cat (z_of_digits arg) (pk vi))
      | "join" ->                                        (* v.join([a, b], sep) *)
        (match marker arg3 with
         | Some m when in_range arg && in_range arg2 ->
           let a = int_of_string arg and b = int_of_string arg2 in
           if lv a && lv b && len_of a + len_of b < maxlen then set vi (cat (push (pk a) (z_of_int m)) (pk b)) else nop vi
         | _ -> Bad "?bad-contents")
      | "replacess" -> if not (is_digits arg && is_digits arg2) || arg = "-" then Bad "?bad-contents"
        else if len_of vi * (1 + dlen arg2) > maxlen then nop vi
        else set vi (z_of_digits (let r = replace_all (digits_of_z (pk vi)) arg (if arg2 = "-" then "" else arg2) in if r = "" || r = "_" then "-" else r))
      | "constptr" -> nop vi
      | _ -> Op (ODestroy (nat v))
    end
  | _ -> Bad "?unknown-op"

let fault_str = function
  | FUaf _ -> "! uaf" | FDouble _ -> "! dblfree" | FUnderflow _ -> "! underflow" | FSharedWrite _ -> "! sharedwrite"

(* class ids by first appearance of the block a variable reads its value from *)
let classes (obs : vobs list) : string list =
  let tbl = ref [] in
  List.map (fun o -> match o with
      | VOVal (b, _, _, _) ->
        let b = int_of_nat b in
        (match List.assoc_opt b !tbl with
         | Some c -> string_of_int c
         | None -> let c = List.length !tbl in tbl := (b, c) :: !tbl; string_of_int c)
      | _ -> ".") obs

let val_str f o = match o with
  | VODead -> "D"
  | VONull -> (match f with FStr -> "_" | _ -> "-")
  | VOVal (b, n, _, _) -> (match f with FPtr -> Printf.sprintf "%d:%s" (int_of_nat b) (dec_of_z n) | _ -> digits_of_z n)
let rc_str o = match o with
  | VOVal (b, _, r, Some c) -> dec_of_z r ^ (if int_of_nat b = int_of_nat c then "=" else "#")
  | VOVal (_, _, _, None) -> "0#"
  | _ -> "."

let sval_str f x = match x with
  | SDead -> "D" | SNull -> "-"
  | SVal (i, n) -> (match f with FPtr -> Printf.sprintf "%d:%s" (int_of_nat i) (dec_of_z n) | _ -> digits_of_z n)


(* ---- concurrent cases (flavours cstr / cvar / cptr / cxml) --------------------------------------- *)
let nv_print = 6
type cst = { cf : flavour; mutable cval0 : z; mutable cnv : int; mutable owns : int list; mutable progs : string list list array;
             mutable trace : string list option }

let is_conc cfg = match cfg with f :: _ -> String.length f > 1 && f.[0] = 'c' | [] -> false
let conc_flavour cfg = match cfg with f :: r -> flavour_of (String.sub f 1 (String.length f - 1) :: r) | [] -> FStr

(* harness rules: ops on variables outside the thread's range are skipped; Ptr has no write access; only Ptr swaps.
   `reset v`: String::clear() and then the destructor; for the other types clear() is all the destructor does
   (~Variant() {clear();}, p = (T* )0 releases like ~Ptr) *)
let cop_of f nv toks : cop list =
  let ok v = v >= 0 && v < nv in
  match toks with
  | ["copy"; d; s] -> let d = int_of_string d and s = int_of_string s in if ok d && ok s then [CCopy (nat_of_int d, nat_of_int s)] else []
  | ["assign"; d; s] -> let d = int_of_string d and s = int_of_string s in if ok d && ok s then [CAssign (nat_of_int d, nat_of_int s)] else []
  | "drop" :: v :: _ -> let v = int_of_string v in if ok v then [CDrop (nat_of_int v)] else []
  | "read" :: v :: _ -> let v = int_of_string v in if ok v then [CRead (nat_of_int v)] else []
  | "write" :: v :: r -> let v = int_of_string v in
    let m = (match r with m :: _ -> (match int_of_string_opt m with Some m when m >= 1 && m <= 7 -> m | _ -> 1) | [] -> 1) in
    if not (ok v) || f = FPtr then [] else [CWrite (nat_of_int v, WAppend (z_of_int m))]
  | "reserve" :: v :: _ -> let v = int_of_string v in if not (ok v) || f = FPtr then [] else [CWrite (nat_of_int v, WReserve)]
  | "reset" :: v :: _ -> let v = int_of_string v in
    if not (ok v) then [] else if f = FStr then [CWrite (nat_of_int v, WClear); CDrop (nat_of_int v)] else [CDrop (nat_of_int v)]
  | ["swap"; a; b] -> let a = int_of_string a and b = int_of_string b in
    if f = FPtr && ok a && ok b && a <> b then [CSwap (nat_of_int a, nat_of_int b)] else []
  | _ -> failwith ("bad thread op: " ^ String.concat " " toks)

let cfg_of (c : cst) =
  List.mapi (fun i n -> (nat_of_int n, List.concat_map (cop_of c.cf c.cnv) c.progs.(i))) c.owns

let rec run_to_end st nth budget =
  if finishedb st || budget <= 0 then st
  else run_to_end (run_sched st (List.init nth nat_of_int)) nth (budget - 1)

let pad l n x = l @ List.init (max 0 (n - List.length l)) (fun _ -> x)
let join_groups gs = String.concat " ; " (List.map (String.concat " ") gs)

let fault_of st = match st.cflt with
  | Some (CUaf _) -> "! uaf" | Some (CDouble _) -> "! dblfree" | Some (CUnderflow _) -> "! underflow"
  | Some (CSharedWrite _) -> "! sharedwrite" | Some (CFreeReferenced _) -> "! freereferenced" | None -> ""

let conc_obs (c : cst) (st : cstate) : string =
  match st.cflt with
  | Some _ -> fault_of st
  | None ->
    let blk b = List.nth st.cheap (int_of_nat b) in
    let tbl = ref [] in
    let cls b = let b = int_of_nat b in
      match List.assoc_opt b !tbl with Some k -> string_of_int k
      | None -> let k = List.length !tbl in tbl := (b, k) :: !tbl; string_of_int k in
    let vals = List.map (fun th -> pad (List.map (fun x -> match x with
        | None -> "D"
        | Some b -> (match c.cf with FPtr -> "0:" ^ dec_of_z (blk b).cval | _ -> digits_of_z (blk b).cval)) th.tvars) nv_print "D") st.threads in
    let classes = List.map (fun th -> pad (List.map (fun x -> match x with None -> "." | Some b -> cls b) th.tvars) nv_print ".") st.threads in
    let rcs = List.map (fun th -> pad (List.map (fun x -> match x with None -> "." | Some b -> dec_of_z (blk b).crc ^ "=") th.tvars) nv_print ".") st.threads in
    (* drop every handle that is left: nothing may stay allocated *)
    let drops = List.init c.cnv (fun v -> CDrop (nat_of_int v)) in
    let st2 = { st with threads = List.map (fun th -> { th with prog = drops; phase = O }) st.threads } in
    let nth = List.length st.threads in
    let st3 = run_to_end st2 nth (5 * c.cnv + 5) in
    let after = match st3.cflt with Some _ -> -1 | None -> int_of_nat (live_cblocks st3) in
    Printf.sprintf "%s | live=%d aux=ok | %s | %s | after=%d" (join_groups vals) (int_of_nat (live_cblocks st))
      (join_groups classes) (join_groups rcs) after

let init_state (c : cst) = cinit c.cf c.cval0 (nat_of_int c.cnv) (cfg_of c)

(* schedule given as one thread id per machine step (no trace available: free runs, crashed runs) *)
let conc_run (c : cst) (sched : int list) : string =
  let cfg = cfg_of c in
  let st0 = init_state c in
  let nth = List.length cfg in
  let st1 = run_sched st0 (List.map nat_of_int (List.filter (fun t -> t >= 0 && t < nth) sched)) in
  let st2 = run_to_end st1 nth (int_of_nat (steps_bound cfg) + 5) in
  if st2.cflt = None && not (finishedb st2) then "! model-did-not-finish" else conc_obs c st2

(* ---- replay of the access trace the harness recorded ---------------------------------------------- *)
let event_of_token (s : string) : event =
  let tid = Char.code s.[0] - 48 in
  let arg = String.sub s 2 (String.length s - 2) in
  let k, r = match s.[1] with
    | 'r' -> EReadRef, z_of_int (int_of_string arg)
    | 'i' -> EInc, z_of_int (int_of_string arg)
    | 'd' -> EDec, z_of_int (int_of_string arg)
    | 'f' -> EFree, Z0
    | 'a' -> EAlloc, Z0
    | 'c' -> ECopy, Z0
    | 'w' -> EWrite, z_of_digits arg
    | _ -> failwith ("bad trace token " ^ s) in
  { etid = nat_of_int tid; ekind_of = k; eres = r }

let action_str = function
  | ANone -> "nothing" | ATouch _ -> "plain-read" | AReadRef _ -> "r" | AInc _ -> "i" | ADec _ -> "d" | AFree _ -> "f"
  | AWrite (_, nv) -> "w" ^ digits_of_z nv | AAlloc (_, _, _) -> "a"
let expected st t = match next_action st t with
  | Some a -> action_str a
  | None -> (match st.cflt with Some _ -> "fault(" ^ fault_of st ^ ")" | None -> "end-of-program")

(* what the machine would do next for thread t after its unobservable steps *)
let expected_after_silent st t =
  let rec go st n = if n = 0 then st else match next_action st t with
      | Some (ANone | ATouch _) -> go (cstep st t) (n - 1)
      | _ -> st in
  expected (go st 400) t

let conc_replay (c : cst) (toks : string list) : string =
  let toks = List.filter (fun s -> s <> "-") toks in
  if List.mem "OVERFLOW" toks then "! trace-overflow" else
  let st0 = init_state c in
  let nth = List.length c.owns in
  let evs = List.map event_of_token toks in
  let ((st1, _), rest) = replay st0 evs in
  match rest with
  | e :: _ ->
    let k = List.length evs - List.length rest in
    let t = nat_of_int (int_of_nat e.etid) in
    Printf.sprintf "! trace-rejected at=%d event=%s machine-allows=%s" k (List.nth toks k) (expected_after_silent st1 t)
  | [] ->
    let (st2, _) = finish st1 (List.init nth nat_of_int) in
    if st2.cflt <> None then fault_of st2
    else if not (finishedb st2) then begin
      let t = List.fold_left (fun acc (i, th) -> if acc < 0 && th.prog <> [] then i else acc) (-1) (List.mapi (fun i th -> (i, th)) st2.threads) in
      Printf.sprintf "! trace-incomplete thread=%d machine-requires=%s" t (expected st2 (nat_of_int t))
    end
    else conc_obs c st2 ^ " | trace " ^ (if toks = [] then "-" else String.concat " " toks)

(* a few fixed schedules for `free`: all must give the same observation *)
let lcg s = (s * 1103515245 + 12345) land 0x3fffffff
let free_schedules (c : cst) =
  let cfg = cfg_of c in
  let nth = List.length cfg in
  let total = int_of_nat (steps_bound cfg) in
  let seqs = List.concat (List.init nth (fun t -> List.init total (fun _ -> t))) in
  let rnd seed = let s = ref seed in List.init (2 * total) (fun _ -> s := lcg !s; if nth = 0 then 0 else (!s lsr 8) mod nth) in
  [[]; seqs; List.rev seqs; rnd 1; rnd 7; rnd 12345]

let conc_spec (c : cst) : string =
  let nth = List.length c.owns in
  let sv = List.concat (List.mapi (fun _ n -> List.init nv_print (fun j -> if j < min n c.cnv then SVal (O, c.cval0) else SDead)) c.owns) in
  let st = ref { svars = sv; screated = S O } in
  let ok v = v >= 0 && v < c.cnv in
  Array.iteri (fun t prog ->
      if t < nth then
        let base = t * nv_print in
        let n v = nat_of_int (base + v) in
        List.iter (fun toks ->
            let o = match toks with
              | ["copy"; d; s] -> let d = int_of_string d and s = int_of_string s in if ok d && ok s then Some (OCopy (n d, n s)) else None
              | ["assign"; d; s] -> let d = int_of_string d and s = int_of_string s in if ok d && ok s then Some (OAssign (n d, n s)) else None
              | "drop" :: v :: _ | "reset" :: v :: _ -> let v = int_of_string v in if ok v then Some (ODestroy (n v)) else None
              | "write" :: v :: r -> let v = int_of_string v in
                let m = (match r with m :: _ -> (match int_of_string_opt m with Some m when m >= 1 && m <= 7 -> m | _ -> 1) | [] -> 1) in
                if ok v then Some (OWrite (n v, z_of_int m)) else None
              | "reserve" :: v :: _ -> let v = int_of_string v in if ok v then Some (ODetach (n v)) else None
              | ["swap"; a; b] -> let a = int_of_string a and b = int_of_string b in if ok a && ok b && a <> b then Some (OSwap (n a, n b)) else None
              | _ -> None in
            match o with Some o -> st := spec_step c.cf !st o | None -> ()) prog) c.progs;
  let rec groups l = if l = [] then [] else
      let rec take k l = if k = 0 then ([], l) else match l with [] -> ([], []) | x :: r -> let (a, b) = take (k - 1) r in (x :: a, b) in
      let (g, r) = take nv_print l in g :: groups r in
  join_groups (List.map (List.map (sval_str c.cf)) (groups !st.svars))

let conc_main mode file =
  run_cases file
    (fun cfg -> { cf = conc_flavour cfg; cval0 = Z0; cnv = 1; owns = []; progs = [||]; trace = None })
    (fun c _ toks ->
       (match toks with
        | "init" :: v :: nv :: owns ->
          c.cval0 <- (if c.cf = FPtr then z_of_int (int_of_string v) else z_of_digits v);
          c.cnv <- max 1 (min nv_print (int_of_string nv));
          let owns = List.filteri (fun i _ -> i < 4) owns in
          c.owns <- List.map (fun s -> max 0 (min c.cnv (int_of_string s))) owns;
          c.progs <- Array.make (List.length c.owns) [];
          emit "init"
        | "t" :: tid :: rest ->
          let t = int_of_string tid in
          if t >= 0 && t < Array.length c.progs && List.length c.progs.(t) < 64 && List.length rest >= 2 then c.progs.(t) <- c.progs.(t) @ [rest];
          emit "t"
        | "trace" :: toks -> c.trace <- Some toks
        | "go" :: ids ->
          if mode = "spec" then emit (conc_spec c)
          else (match c.trace with
              | Some toks -> emit (conc_replay c toks)
              | None -> emit (conc_run c (List.map int_of_string ids)));
          c.trace <- None
        | "free" :: _ ->
          if mode = "spec" then emit (conc_spec c) else begin
            let outs = List.map (conc_run c) (free_schedules c) in
            match outs with
            | o :: r -> if List.for_all (fun x -> x = o) r then emit o else emit "! model-schedule-dependent"
            | [] -> ()
          end
        | _ -> emit "?unknown-op");
       c)
    (fun _ -> emit "end")

let seq_main ?(x = false) mode file =
  if mode = "model" || mode = "aswritten" then begin
    let obj_only = (mode = "aswritten") in
    let dead = ref false in
    run_cases file (fun cfg -> dead := false; (flavour_of cfg, kind_of cfg, init))
      (fun (f, k, st) _ toks ->
         if !dead then (f, k, st) else begin
           let pk v = peek st (nat_of_int v) and lv v = (match List.nth_opt st.vars v with Some (VLive (_, _)) -> true | _ -> false) in
           match parse_op f k pk lv toks with
           | Bad s -> emit s; (f, k, st)
           | (Op _ | Ops _) as po ->
             let (pre, o) = (match po with Op o -> ([], o) | Ops l -> (List.rev (List.tl (List.rev l)), List.hd (List.rev l)) | Bad _ -> assert false) in
             let st = List.fold_left (fun s o -> if obj_only then step_as_written f s o else step f s o) st pre in
             let (st', obs) = step_obs obj_only f st o in
             let obs = List.filteri (fun i _ -> i < 6) obs in
             (match st'.flt with
              | Some x -> emit (fault_str x); dead := true
              | None ->
                emit (Printf.sprintf "%s | live=%d dtors=%d aux=ok | %s | %s"
                        (String.concat " " (List.map (val_str f) obs))
                        (int_of_nat (live_blocks st')) (int_of_nat (total_dtors st'))
                        (String.concat " " (classes obs))
                        (String.concat " " (List.map rc_str obs))));
             (f, k, st')
         end)
      (fun (f, _, st) ->
         if not !dead then begin
           let st' = destroy_all f st in
           match st'.flt with
           | Some x -> emit (fault_str x)
           | None -> emit (Printf.sprintf "end | live=%d dtors=%d aux=ok" (int_of_nat (live_blocks st')) (int_of_nat (total_dtors st')))
         end)
  end else
    run_cases file (fun cfg -> (flavour_of cfg, kind_of cfg, sinit))
      (fun (f, k, st) _ toks ->
         let pk v = speek st (nat_of_int v) and lv v = (match List.nth_opt st.svars v with Some SDead | None -> false | _ -> true) in
         match parse_op ~x f k pk lv toks with
         | Bad s -> emit s; (f, k, st)
         | (Op _ | Ops _) as po ->
           let ops = (match po with Op o -> [o] | Ops l -> l | Bad _ -> []) in
           let st' = List.fold_left (spec_step f) st ops in
           let vals = String.concat " " (List.map (sval_str f) (List.filteri (fun i _ -> i < 6) st'.svars)) in
           (match f with
            | FPtr -> emit (Printf.sprintf "%s | live=%d dtors=%d aux=ok" vals (int_of_nat (reachable st')) (int_of_nat (must_be_destroyed st')))
            | _ -> emit vals);
           (f, k, st'))
      (fun (f, _, st) ->
         match f with
         | FPtr -> emit (Printf.sprintf "end | live=0 dtors=%d aux=ok" (int_of_nat st.screated))
         | _ -> emit "end")

(* ---- flavour nest: handles stored inside payloads (RcNest) ------------------------------------------ *)
let nest_nv = 4 and nest_depth = 4
type nparsed = NOp of nop | NBad of string
(* kind same: every assignment is the same-type operator=; kind conv: variable = member is the converting
   operator=, member = variable goes through operator=(C* ) (matters for the as-written machine only) *)
let nest_parse kind toks : nparsed =
  let ints = List.map (fun s -> match int_of_string_opt s with Some v -> v | None -> 0) (match toks with _ :: r -> r | [] -> []) in
  let a i = match List.nth_opt ints i with Some v -> v | None -> 0 in
  let okv v = v >= 0 && v < nest_nv and okk k = k >= 0 && k <= nest_depth in
  let n = nat_of_int in
  match toks with
  | [] -> NBad "?unknown-op"
  | o :: _ ->
    if not (List.mem o ["create"; "null"; "copy"; "assign"; "assignraw"; "reset"; "destroy"]) then NBad "?unknown-op"
    else if not (okv (a 0)) then NBad "?bad-var"
    else match o with
      | "create" -> NOp (NCreate (n (a 0), z_of_int (a 1)))
      | "null" -> NOp (NNull (n (a 0)))
      | "destroy" -> NOp (NDestroy (n (a 0)))
      | "copy" -> if okv (a 1) && okk (a 2) then NOp (NCopy (n (a 0), n (a 1), n (a 2))) else NBad "?bad-var"
      | "reset" -> if okk (a 1) then NOp (NReset (n (a 0), n (a 1))) else NBad "?bad-var"
      | _ ->
        if not (okk (a 1) && okv (a 2) && okk (a 3)) then NBad "?bad-var" else
        let how = if o = "assignraw" then ARaw
          else if kind = "conv" && a 1 = 0 && a 3 > 0 then AConv
          else if kind = "conv" && a 1 > 0 && a 3 = 0 then ARaw
          else ASame in
        NOp (NAssign (how, n (a 0), n (a 1), n (a 2), n (a 3)))

let nfault_str = function
  | NUaf _ -> "! uaf" | NDouble _ -> "! dblfree" | NUnderflow _ -> "! underflow" | NFuel -> "! out-of-fuel"

let nest_main mode file =
  if mode = "model" || mode = "aswritten" then begin
    let stepf = if mode = "aswritten" then nstep_as_written else nstep in
    let dead = ref false in
    run_cases file (fun cfg -> dead := false; (kind_of cfg, ninit))
      (fun (k, st) _ toks ->
         if !dead then (k, st) else
         match nest_parse k toks with
         | NBad s -> emit s; (k, st)
         | NOp o ->
           let st1 = stepf st o in
           let st2 = if st1.nflt = None then nobs_touch st1 else st1 in
           (match st2.nflt with
            | Some x -> emit (nfault_str x); dead := true
            | None ->
              let obs = nobs st2 in
              let vals = List.map (function
                  | NODead -> "D" | NOChain [] -> "-"
                  | NOChain c -> String.concat ">" (List.map (fun ((b, v), _) -> Printf.sprintf "%d:%s" (int_of_nat b) (dec_of_z v)) c)) obs in
              let rcs = List.map (function
                  | NODead | NOChain [] -> "."
                  | NOChain c -> String.concat ">" (List.map (fun (_, r) -> dec_of_z r) c)) obs in
              emit (Printf.sprintf "%s | live=%d dtors=%d | %s" (String.concat " " vals)
                      (int_of_nat (nlive_blocks st2)) (int_of_nat (ntotal_dtors st2)) (String.concat " " rcs)));
           (k, st2))
      (fun (_, st) ->
         if not !dead then begin
           let st' = ndestroy_all st in
           match st'.nflt with
           | Some x -> emit (nfault_str x)
           | None -> emit (Printf.sprintf "end | live=%d dtors=%d" (int_of_nat (nlive_blocks st')) (int_of_nat (ntotal_dtors st')))
         end)
  end else
    run_cases file (fun cfg -> (kind_of cfg, pinit))
      (fun (k, st) _ toks ->
         match nest_parse k toks with
         | NBad s -> emit s; (k, st)
         | NOp o ->
           let st' = pstep st o in
           let vals = List.map (function
               | PODead -> "D" | POChain [] -> "-"
               | POChain c -> String.concat ">" (List.map (fun (i, v) -> Printf.sprintf "%d:%s" (int_of_nat i) (dec_of_z v)) c)) (pobs st') in
           emit (Printf.sprintf "%s | live=%d dtors=%d" (String.concat " " vals) (int_of_nat (palive_count st')) (int_of_nat (pdead_count st')));
           (k, st'))
      (fun (_, st) ->
         let st' = pdestroy_all st in
         emit (Printf.sprintf "end | live=%d dtors=%d" (int_of_nat (palive_count st')) (int_of_nat (pdead_count st'))))

(* a file may mix sequential, concurrent and nest cases (the corpus does): runs of cases of the same sort are
   handed to the matching loop in turn, so the output stays in case order *)
let () =
  let mode = Sys.argv.(1) and file = Sys.argv.(2) in
  (* flavour strx (String with uncounted data: attach, literals, and the modifiers built from other calls) has no Model:
     the model driver prints what the value-semantics Spec prints *)
  let sort_of cfg = match cfg with "nest" :: _ -> 2 | "strx" :: _ -> 3 | _ -> if is_conc cfg then 1 else 0 in
  let run_segment sort (lines : string list) =
    if lines <> [] then begin
      let tmp = Filename.temp_file "rcseg" ".ops" in
      let oc = open_out tmp in
      List.iter (fun l -> output_string oc l; output_char oc '\n') (List.rev lines);
      close_out oc;
      (match sort with 2 -> nest_main mode tmp | 1 -> conc_main mode tmp | 3 -> seq_main ~x:true "spec" tmp | _ -> seq_main mode tmp);
      flush stdout;
      Sys.remove tmp
    end in
  let ic = open_in file in
  let cur = ref [] and cur_sort = ref 0 in
  (try
     while true do
       let line = input_line ic in
       (match tokens line with
        | "case" :: _ :: cfg ->
          let k = sort_of cfg in
          if k <> !cur_sort then begin run_segment !cur_sort !cur; cur := []; cur_sort := k end
        | _ -> ());
       cur := line :: !cur
     done
   with End_of_file -> ());
  close_in ic;
  run_segment !cur_sort !cur
