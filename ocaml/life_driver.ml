(* model / spec driver for component Life (C04) *)
open Model
open Zconv

let nvars = 3

let kind_of_string s = match s with
  | "array" -> KArray | "list" -> KList | "map" -> KMap | "multimap" -> KMultiMap
  | "hashmap" -> KHashMap | "hashset" -> KHashSet | "poollist" -> KPoolList | "poolmap" -> KPoolMap
  | _ -> failwith ("bad kind: " ^ s)
let string_of_kind k = match k with
  | KArray -> "array" | KList -> "list" | KMap -> "map" | KMultiMap -> "multimap"
  | KHashMap -> "hashmap" | KHashSet -> "hashset" | KPoolList -> "poollist" | KPoolMap -> "poolmap"

let n s = nat_of_int (int_of_string s)

(* argument: integer = fresh value; k<y>.<i> / v<y>.<i> = reference to key / value of element i of variable y; - = unused *)
let parse_arg s =
  if s = "-" then AVal (z_of_int 0)
  else if s.[0] = 'k' || s.[0] = 'v' then begin
    match String.split_on_char '.' (String.sub s 1 (String.length s - 1)) with
    | [y; i] -> if s.[0] = 'k' then AKey (n y, n i) else AValOf (n y, n i)
    | _ -> failwith ("bad arg: " ^ s)
  end else AVal (z_of_int (int_of_string s))

let parse_pos s = match s with "f" -> PFront | "b" -> PBack | _ -> PAt (n s)

(* every usize: a decimal string up to 2^64-1 -> the extracted binary N (long division of the digit string by 2) *)
let n_of_dec (s : string) : Model.n =
  let digits = ref (List.init (String.length s) (fun i -> Char.code s.[i] - 48)) in
  List.iter (fun d -> if d < 0 || d > 9 then failwith ("bad number: " ^ s)) !digits;
  let bits = ref [] in
  while List.exists (fun d -> d <> 0) !digits do
    let rem = ref 0 in
    digits := List.map (fun d -> let v = !rem * 10 + d in rem := v land 1; v lsr 1) !digits;
    bits := !rem :: !bits
  done;
  match !bits with
  | [] -> N0
  | _ :: rest -> Npos (List.fold_left (fun p b -> if b = 1 then XI p else XO p) XH rest)

let parse_op toks = match toks with
  | ["new"; x; k] -> ONew (n x, kind_of_string k)
  | ["del"; x] -> ODel (n x)
  | ["copy"; x; y] -> OCopyNew (n x, n y)
  | ["asg"; x; y] -> OAssign (n x, n y)
  | ["swap"; x; y] -> OSwap (n x, n y)
  | ["clear"; x] -> OClear (n x)
  | ["ins"; x; p; ka; va] -> OIns (n x, parse_pos p, parse_arg ka, parse_arg va)
  | ["remat"; x; i] -> ORemAt (n x, n i)
  | ["remkey"; x; a] -> ORemKey (n x, parse_arg a)
  | ["addall"; x; p; y] -> OAddAll (n x, parse_pos p, n y)
  | ["remall"; x; y] -> ORemAll (n x, n y)
  | ["reserve"; x; c] -> OReserve (n x, n c)
  | ["resize"; x; c; a] -> OResize (n x, n c, parse_arg a)
  | ["apprange"; x; y; i; c] -> OAppendRange (n x, n y, n i, n c)
  | ["rematit"; x; i] -> ORemVia (VIter, n x, n i)
  | ["rempop"; x; "f"] -> ORemVia (VFront, n x, nat_of_int 0)
  | ["rempop"; x; "b"] -> ORemVia (VBack, n x, nat_of_int 0)
  | ["newcap"; x; k; c] -> ONewCap (n x, kind_of_string k, n c)
  | ["find"; x; a] -> OFind (n x, parse_arg a)
  | "emplace" :: x :: args -> OEmplace (n x, List.map parse_arg args)
  | "appvals" :: x :: zs -> OAppendVals (n x, List.map (fun z -> z_of_int (int_of_string z)) zs)
  | ["inshint"; x; p; ka; va] -> OInsHint (n x, parse_pos p, parse_arg ka, parse_arg va)
  | ["sort"; x] -> OSort (n x)
  | ["instie"; x; p; ka; va; j] -> OInsTie (n x, parse_pos p, parse_arg ka, parse_arg va, n j)
  (* Array::remove(index), size <= index: the plain line is the outcome of the code as it is (nothing removed);
     the check appends the element the implementation's run took out, if it took one out *)
  | ["remout"; x; i] -> ORemOut (n x, n_of_dec i, None)
  | ["remout"; x; i; j] -> ORemOut (n x, n_of_dec i, Some (n j))
  | ["insw"; x; "f"; ka; va] -> OInsVia (n x, true, parse_arg ka, parse_arg va)
  | ["insw"; x; "b"; ka; va] -> OInsVia (n x, false, parse_arg ka, parse_arg va)
  | _ -> failwith ("bad op: " ^ String.concat " " toks)

let oz_str o = match o with Some z -> string_of_int (int_of_z z) | None -> "_"
let avar_str (v : avar) = match v with
  | None -> "-"
  | Some (k, l) ->
      string_of_kind k ^ "[" ^ String.concat " " (List.map (fun (a, b) -> oz_str a ^ ":" ^ oz_str b) l) ^ "]"
let sstate_str (s : sstate) = String.concat " ; " (List.map avar_str s)

let ev_str e = match e with
  | EDef i -> Printf.sprintf "D%d" (int_of_nat i)
  | EVal (i, v) -> Printf.sprintf "V%d=%d" (int_of_nat i) (int_of_z v)
  | ECopy (i, s) -> Printf.sprintf "C%d<%d" (int_of_nat i) (int_of_nat s)
  | EMake (i, v, srcs) -> Printf.sprintf "M%d=%d%s" (int_of_nat i) (int_of_z v)
                            (String.concat "" (List.map (fun s -> Printf.sprintf "<%d" (int_of_nat s)) srcs))
  | EAssign (d, s) -> Printf.sprintf "A%d<%d" (int_of_nat d) (int_of_nat s)
  | EDestroy i -> Printf.sprintf "X%d" (int_of_nat i)
  | EAlloc b -> Printf.sprintf "+%d" (int_of_nat b)
  | EFree b -> Printf.sprintf "-%d" (int_of_nat b)

let rec take k l = if k <= 0 then [] else match l with [] -> [] | h :: t -> h :: take (k - 1) t

let new_events (before : world) (after : world) =
  let k = List.length after.log - List.length before.log in
  let evs = List.rev (take k after.log) in
  if evs = [] then "." else String.concat "," (List.map ev_str evs)

let caps_str (st : state) =
  String.concat "," (List.map (fun v -> match v with
    | Some (CA a) -> string_of_int (int_of_nat a.acap)
    | Some (CN c) -> Printf.sprintf "f%d" (int_of_nat c.cfree)
    | None -> "-") st.svars)

let err_str e = match e with
  | EUseAfterFree _ -> "! uaf"
  | EDoubleDestroy _ -> "! dblfree"
  | EBadFree _ -> "! dblfree"

type mstate = Running of state | Dead

let model_line res (before : state) (after : state) =
  (* observable section: contents, the instances the contents account for (all live instances minus
     what the containers keep for themselves), anomalies; model section: all live instances, events *)
  let a = abs after in
  let live = List.length after.sw.heap in
  Printf.sprintf "%s | %s ; stored=%d bad=0 | live=%d ev=%s nb=%d caps=%s" res
    (sstate_str a) (live - int_of_nat (sbase a)) live
    (new_events before.sw after.sw) (List.length after.sw.blks) (caps_str after)

(* find: the result token carries the index of the element found *)
let found_str o = match o with Some i -> string_of_int (int_of_nat i) | None -> "-"
let res_token did o (found : unit -> nat option) = match o with
  | OFind (_, _) when did -> "ok@" ^ found_str (found ())
  | _ -> if did then "ok" else "skip"

let () =
  let mode = Sys.argv.(1) and file = Sys.argv.(2) in
  if mode = "model" then
    run_cases file (fun _ -> Running (init (nat_of_int nvars)))
      (fun ms _ toks ->
         match ms with
         | Dead -> Dead
         | Running st ->
             let o = parse_op toks in
             (match step st o with
              | Ok (did, st') ->
                  let tok = res_token did o (fun () -> match o with OFind (x, ka) -> model_found st x ka | _ -> None) in
                  let tie = match o with OInsTie (_, _, _, _, j) when did -> Printf.sprintf " tie=%d" (int_of_nat j) | _ -> "" in
                  let out = match o with ORemOut (_, _, Some j) when did -> Printf.sprintf " out=%d" (int_of_nat j) | _ -> "" in
                  emit (model_line tok st st' ^ tie ^ out); Running st'
              | Err e -> emit (err_str e); Dead))
      (fun ms ->
         match ms with
         | Dead -> ()
         | Running st ->
             (match finish st with
              | Ok st' ->
                  emit (Printf.sprintf "end | live=%d bad=0 nb=%d | ev=%s"
                          (List.length st'.sw.heap) (List.length st'.sw.blks) (new_events st.sw st'.sw));
                  if not (well_bracketed st'.sw.log) then emit "! log-not-well-bracketed"
              | Err e -> emit (err_str e)))
  else
    run_cases file (fun _ -> sinit (nat_of_int nvars))
      (fun s _ toks ->
         let o = parse_op toks in
         let (did, s') = spec_step s o in
         let tok = res_token did o (fun () -> match o with OFind (x, ka) -> spec_found s x ka | _ -> None) in
         emit (Printf.sprintf "%s | %s ; stored=%d bad=0" tok
                 (sstate_str s') (int_of_nat (sstored s')));
         s')
      (fun _ -> emit "end | live=0 bad=0 nb=0")
