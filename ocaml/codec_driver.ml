(* model / spec driver for component Codec (C18) *)
open Model
open Zconv

(* decimal token -> Z with the extracted arithmetic (values up to 2^64 and beyond) *)
let z_of_dec (s : string) : z =
  let neg = String.length s > 0 && s.[0] = '-' in
  let ten = z_of_int 10 in
  let v = ref Z0 in
  String.iteri (fun i c ->
      if i = 0 && (c = '-' || c = '+') then ()
      else if c >= '0' && c <= '9' then v := Z.add (Z.mul !v ten) (z_of_int (Char.code c - 48))
      else failwith ("bad decimal: " ^ s)) s;
  if neg then Z.opp !v else !v

let cps_of_tok (s : string) : z list =
  if s = "-" then [] else List.map z_of_dec (String.split_on_char ',' s)

let hexz = hex_of_bytes
let bit b = if b then "1" else "0"

exception Model_err of string
let kind_of e = match e with OutOfBounds -> "oob" | ReadUninit -> "uninit" | OutOfFuel -> "timeout"
let get r = match r with Ok a -> a | Err e -> raise (Model_err (kind_of e))

(* sweeps: prefix ++ [v] ++ suffix for every byte v *)
let sweep pre suf (f : z list -> string) : string =
  let p = bytes_of_hex pre and s = bytes_of_hex suf in
  String.concat " " (List.init 256 (fun v -> f (p @ (z_of_int v :: s))))

let twice v = v ^ " " ^ v

(* Inputs beyond this many bytes: the list-indexing model is quadratic (and worse) in the input length, so the model
   column is the closed form that a theorem of Properties_C18.v proves equal to the model function for EVERY input:
     is_valid bs   = Ok (layout_valid (map w8 bs))     utf8_is_valid_never_fails
     from_hex bs   = Ok (upper_hex bs)                  hex_is_upper_hex (bytes parsed from hex are 0..255)
     from_base64 s = Ok bs  when rfc4648_preimage s = Some bs     base64_decodes_every_rfc4648_text
   (a long base64 string that is no RFC 4648 encoding still runs through the model function itself). *)
let long_input = 1536
let is_long l = List.compare_length_with l long_input > 0
let model_is_valid bs = if is_long bs then layout_valid bs else get (is_valid bs)
let model_from_hex bs = if is_long bs then upper_hex bs else get (from_hex bs)
let model_from_base64 s =
  if is_long s then (match rfc4648_preimage s with Some bs -> bs | None -> get (from_base64 s)) else get (from_base64 s)

let model_op toks : string = match toks with
  | ["u8sw"; p; s] ->
      sweep p s (fun b -> dec_of_z (get (from_string b))) ^ " " ^ sweep p s (fun b -> bit (get (is_valid b)))
  | ["b64sw"; p; s] -> sweep p s (fun b -> hexz (get (from_base64 b)))
  | ["u8enc"; cp] -> hexz (to_string (z_of_dec cp))
  | ["u8encn"; cps] -> hexz (to_string_n (cps_of_tok cps))
  | ["u8len"; b] -> dec_of_z (utf8_length (z_of_dec b))
  (* the readers are printed twice: pointer overload, then the String overload (Unicode.hpp: fromString(str, str.length()),
     isValid(str, str.length()) - the same model function on the same bytes) *)
  | ["u8dec"; h] -> let v = dec_of_z (get (from_string (bytes_of_hex h))) in v ^ " " ^ v
  | ["u8valid"; h] -> let v = bit (model_is_valid (bytes_of_hex h)) in v ^ " " ^ v
  (* the String overloads on a String attached to the window of a block window ++ tail.  As repaired (fixes/C18/02) they
     hand the window to the pointer overloads: the tail does not enter *)
  | ["u8deca"; h; _] -> dec_of_z (get (from_string (bytes_of_hex h)))
  | ["u8valida"; h; _] -> bit (model_is_valid (bytes_of_hex h))
  (* the member conversions on an attached String: the C-string view reads the byte behind the window (`! oob` without one) *)
  | ["tointa"; h; t] -> dec_of_z (get (to_int_att (bytes_of_hex h) (bytes_of_hex t)))
  | ["touinta"; h; t] -> dec_of_z (get (to_uint_att (bytes_of_hex h) (bytes_of_hex t)))
  | ["toint64a"; h; t] -> dec_of_z (get (to_int64_att (bytes_of_hex h) (bytes_of_hex t)))
  | ["touint64a"; h; t] -> dec_of_z (get (to_uint64_att (bytes_of_hex h) (bytes_of_hex t)))
  | ["u8rt"; cp] ->
      let s = to_string (z_of_dec cp) in
      let d = dec_of_z (get (from_string s)) and v = bit (get (is_valid s)) in
      Printf.sprintf "%s %s %s %s %s" (hexz s) d v d v
  | ["hex"; h] -> hexz (model_from_hex (bytes_of_hex h))
  | ["b64"; h] -> hexz (model_from_base64 (bytes_of_hex h))
  (* fromBase64 on a String attached to the window of a block window ++ tail: as repaired (fixes/C18/03) the tail does not enter *)
  | ["b64a"; h; _] -> hexz (model_from_base64 (bytes_of_hex h))
  | ["b64raw"; h] -> hexz (get (from_base64_unrepaired (bytes_of_hex h)))
  | ["fromint"; v] -> hexz (from_int (z_of_dec v))
  | ["fromuint"; v] -> hexz (from_uint (z_of_dec v))
  | ["fromint64"; v] -> hexz (from_int64 (z_of_dec v))
  | ["fromuint64"; v] -> hexz (from_uint64 (z_of_dec v))
  (* the parsers are the checked-read machines on the String's buffer (bytes ++ terminator): a read beyond the
     terminator would print `! oob`.  Printed twice: member function, then the static overload taking a const char*
     (String.cpp: the same libc call on the same bytes) *)
  | ["toint"; h] -> twice (dec_of_z (get (to_int_chk (bytes_of_hex h))))
  | ["touint"; h] -> twice (dec_of_z (get (to_uint_chk (bytes_of_hex h))))
  | ["toint64"; h] -> twice (dec_of_z (get (to_int64_chk (bytes_of_hex h))))
  | ["touint64"; h] -> twice (dec_of_z (get (to_uint64_chk (bytes_of_hex h))))
  | ["rtint"; v] -> dec_of_z (get (to_int_chk (from_int (z_of_dec v))))
  | ["rtuint"; v] -> dec_of_z (get (to_uint_chk (from_uint (z_of_dec v))))
  | ["rtint64"; v] -> dec_of_z (get (to_int64_chk (from_int64 (z_of_dec v))))
  | ["rtuint64"; v] -> dec_of_z (get (to_uint64_chk (from_uint64 (z_of_dec v))))
  | _ -> failwith ("bad op: " ^ String.concat " " toks)

let ranged lo hi v f = if in_range lo hi v then f v else "?"
let valued lo hi s = match ref_value s with
  | Some v -> if in_range lo hi v then dec_of_z v else "?"
  | None -> "?"

(* what the property text demands of a validator: strict UTF-8 text (encodings of scalar values) is accepted, bytes that are
   not even lead byte + announced continuation bytes are rejected; overlong forms, values above U+10FFFF and encoded
   surrogates are left open *)
let valid3 bs = if utf8_strict bs then "1" else if layout_valid bs then "?" else "0"

let spec_op toks : string = match toks with
  | ["u8sw"; p; s] ->
      sweep p s (fun b -> match utf8_first b with Some cp -> dec_of_z cp | None -> "?") ^ " " ^
      sweep p s valid3
  | ["b64sw"; p; s] -> sweep p s (fun b -> match rfc4648_preimage b with Some bs -> hexz bs | None -> "?")
  | ["u8enc"; cp] -> let c = z_of_dec cp in if is_cp c then hexz (rfc3629 c) else "?"
  | ["u8encn"; cps] ->
      let l = cps_of_tok cps in
      if List.for_all is_cp l then hexz (List.concat (List.map rfc3629 l)) else "?"
  (* length(): demanded only on the bytes that start the encoding of a code point, where it is the length of that encoding *)
  | ["u8len"; b] ->
      let b = z_of_dec b in
      if starts_encoding b then string_of_int (List.length (rfc3629 (lead_witness b))) else "?"
  | ["u8dec"; h] -> let v = (match utf8_first (bytes_of_hex h) with Some cp -> dec_of_z cp | None -> "?") in v ^ " " ^ v
  | ["u8valid"; h] ->
      let bs = bytes_of_hex h in
      let v = valid3 bs in v ^ " " ^ v
  | ["u8deca"; h; _] -> (match utf8_first (bytes_of_hex h) with Some cp -> dec_of_z cp | None -> "?")
  | ["u8valida"; h; _] -> valid3 (bytes_of_hex h)
  | ["tointa"; h; _] -> valued int_min int_max (bytes_of_hex h)
  | ["touinta"; h; _] -> valued Z0 uint_max (bytes_of_hex h)
  | ["toint64a"; h; _] -> valued int64_min int64_max (bytes_of_hex h)
  | ["touint64a"; h; _] -> valued Z0 uint64_max (bytes_of_hex h)
  | ["u8rt"; cp] ->
      let c = z_of_dec cp in
      if is_cp c then
        let v = if is_surrogate c then "?" else "1" in
        Printf.sprintf "%s %s %s %s %s" (hexz (rfc3629 c)) (dec_of_z c) v (dec_of_z c) v
      else "? ? ? ? ?"
  | ["hex"; h] -> hexz (upper_hex (bytes_of_hex h))
  | ["b64"; h] | ["b64raw"; h] | ["b64a"; h; _] ->
      (match rfc4648_preimage (bytes_of_hex h) with Some bs -> hexz bs | None -> "?")
  | ["fromint"; v] -> ranged int_min int_max (z_of_dec v) (fun v -> hexz (ref_decimal v))
  | ["fromuint"; v] -> ranged Z0 uint_max (z_of_dec v) (fun v -> hexz (ref_decimal v))
  | ["fromint64"; v] -> ranged int64_min int64_max (z_of_dec v) (fun v -> hexz (ref_decimal v))
  | ["fromuint64"; v] -> ranged Z0 uint64_max (z_of_dec v) (fun v -> hexz (ref_decimal v))
  | ["toint"; h] -> twice (valued int_min int_max (bytes_of_hex h))
  | ["touint"; h] -> twice (valued Z0 uint_max (bytes_of_hex h))
  | ["toint64"; h] -> twice (valued int64_min int64_max (bytes_of_hex h))
  | ["touint64"; h] -> twice (valued Z0 uint64_max (bytes_of_hex h))
  | ["rtint"; v] -> ranged int_min int_max (z_of_dec v) dec_of_z
  | ["rtuint"; v] -> ranged Z0 uint_max (z_of_dec v) dec_of_z
  | ["rtint64"; v] -> ranged int64_min int64_max (z_of_dec v) dec_of_z
  | ["rtuint64"; v] -> ranged Z0 uint64_max (z_of_dec v) dec_of_z
  | _ -> failwith ("bad op: " ^ String.concat " " toks)

let () =
  let mode = Sys.argv.(1) and file = Sys.argv.(2) in
  let f = if mode = "model" then model_op else spec_op in
  (* state = "a predicted error already ended this case" *)
  run_cases file (fun _ -> false)
    (fun dead _ toks ->
       if dead then true
       else (try emit (f toks); false with Model_err k -> emit ("! " ^ k); true))
    (fun _ -> ())
