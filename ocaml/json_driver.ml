(* model / spec driver for component Json (C15) *)
open Model
open Zconv

let z_of_dec (s : string) : z =
  let neg = String.length s > 0 && s.[0] = '-' in
  let ten = z_of_int 10 in
  let acc = ref Z0 in
  String.iteri (fun i c -> if c >= '0' && c <= '9' then
                   acc := Z.add (Z.mul !acc ten) (z_of_int (Char.code c - 48))
                 else ignore i) s;
  if neg then Z.opp !acc else !acc

let hexs l = hex_of_bytes l

let rec dump (v : value) : string list = match v with
  | JNull -> ["n"]
  | JBool true -> ["t"] | JBool false -> ["f"]
  | JInt z -> ["i" ^ dec_of_z z]
  | JInt64 z -> ["I" ^ dec_of_z z]
  | JDouble _ -> ["d"; "?"]
  | JString s -> ["s" ^ hexs s]
  | JList l -> ("L" ^ string_of_int (List.length l)) :: List.concat_map dump l
  | JMap m -> ("M" ^ string_of_int (List.length m)) :: List.concat_map (fun (k, x) -> ("k" ^ hexs k) :: dump x) m
  | JUInt z -> ["u" ^ dec_of_z z]
  | JUInt64 z -> ["U" ^ dec_of_z z]
  | JArray l -> ("A" ^ string_of_int (List.length l)) :: List.concat_map dump l

let msg_text n = match int_of_nat n with
  | 1 -> "Unexpected_end_of_file" | 2 -> "Expected_hexadecimal_digit" | 3 -> "Expected_hexadecimal_number"
  | 4 -> "Expected_UTF-8_surrogate_pair" | 5 -> "Expected_character" | 6 -> "Expected_'{'"
  | 7 -> "Expected_'\"'" | 8 -> "Expected_':'" | 9 -> "Expected_','" | 10 -> "Expected_'['"
  | 11 -> "Unexpected_character" | k -> "msg" ^ string_of_int k

let result_text r = match r with
  | POk v -> Some ("ok " ^ String.concat " " (dump v))
  | PErr (l, c, m) -> Some (Printf.sprintf "err %s %s %s" (dec_of_z l) (dec_of_z c) (msg_text m))
  | POutOfBounds -> None
  | POutOfFuel -> Some "out-of-fuel"

(* value trees: comma separated prefix form *)
let hexarg s = if s = "" then [] else bytes_of_hex s
let rec build (items : string list) : value * string list = match items with
  | [] -> (JNull, [])
  | it :: rest ->
    let arg = String.sub it 1 (String.length it - 1) in
    (match it.[0] with
     | 'n' -> (JNull, rest) | 't' -> (JBool true, rest) | 'f' -> (JBool false, rest)
     | 'i' -> (JInt (z_of_dec arg), rest) | 'I' -> (JInt64 (z_of_dec arg), rest)
     | 'u' -> (JUInt (z_of_dec arg), rest) | 'U' -> (JUInt64 (z_of_dec arg), rest)
     | 'A' -> let n = int_of_string arg in
       let rec go k rest acc = if k = 0 then (List.rev acc, rest) else
           let (v, rest') = build rest in go (k - 1) rest' (v :: acc) in
       let (l, rest') = go n rest [] in (JArray l, rest')
     | 's' -> (JString (hexarg arg), rest)
     | 'L' -> let n = int_of_string arg in
       let rec go k rest acc = if k = 0 then (List.rev acc, rest) else
           let (v, rest') = build rest in go (k - 1) rest' (v :: acc) in
       let (l, rest') = go n rest [] in (JList l, rest')
     | 'M' -> let n = int_of_string arg in
       (* HashMap::append semantics while building: an existing key keeps its place *)
       let rec upsert k v m = match m with
         | [] -> [(k, v)]
         | (k', v') :: t -> if k = k' then (k', v) :: t else (k', v') :: upsert k v t in
       let rec go k rest acc = if k = 0 then (acc, rest) else
           (match rest with
            | kk :: rest1 -> let key = hexarg (String.sub kk 1 (String.length kk - 1)) in
              let (v, rest2) = build rest1 in go (k - 1) rest2 (upsert key v acc)
            | [] -> (acc, [])) in
       let (m, rest') = go n rest [] in (JMap m, rest')
     | _ -> failwith ("bad tree item " ^ it))

let fresh_parser = { o_line = z_of_int 12345; o_err = None }

(* toString then parse; [t0]: the tree the target of parse holds before the call *)
let rt_line model t0 tr =
  let (v, _) = build (String.split_on_char ',' tr) in
  if model then begin
    let tgt = (match t0 with Some t -> fst (build (String.split_on_char ',' t)) | None -> JNull) in
    let text = to_string v in
    let (_, r) = parse_with fresh_parser tgt (cstr text) in
    let eq = (match r with POk w -> value_eq v w | _ -> false) in
    match result_text r with
    | Some s -> Printf.sprintf "%d | %s %s" (if eq then 1 else 0) (hexs text) s
    | None -> "! oob"
  end else
    (* in the class of the property: the flag (Variant::operator== both ways round) is 1 and the tree read back is the
       canonical form of the tree; the check compares the two dumps with the width of integers wiped out (value_eq).
       Outside the class (unsigned integers, arrays - the extension): no claim, the model alone predicts (readback v) *)
    (if in_class v then "1 | ? ok " ^ String.concat " " (dump (canon v)) else "?")

let () =
  let mode = Sys.argv.(1) and file = Sys.argv.(2) in
  let model = (mode = "model") in
  run_cases file (fun _ -> ())
    (fun () _ toks ->
       let rt t0 tr = emit (rt_line model t0 tr) in
       (match toks with
        | ["parse"; h] ->
          if model then
            (match result_text (parse (cstr (bytes_of_hex h))) with
             | Some s -> emit s
             | None -> emit "! oob")
          else emit "??*"
        | ["pstr"; h] ->
          (* a string literal: the text is  "<content>"  *)
          let content = bytes_of_hex h in
          if model then
            (match result_text (parse (cstr ((z_of_int 34 :: content) @ [z_of_int 34]))) with
             | Some s -> emit s
             | None -> emit "! oob")
          else emit "??*"     (* which value a literal denotes is outside the property text (RFC 8259: theorem string_token_is_rfc8259
                                 about the model; the implementation is compared with the model only); judged: no crash, position inside *)
        | ["strip"; h] ->
          (* the String with all its bytes; the model reads it as a C string and checks every access *)
          let s = bytes_of_hex h in
          if model then
            (match strip_comments_chk s with
             | Ok r -> if r = strip_comments s then emit (hexs r) else emit "checked-and-unchecked-machines-differ"
             | OutOfBounds -> emit "! oob"
             | _ -> emit "out-of-fuel")
          else emit (hexs (reference_strip (cstr s)))
        | ["rt"; tr] -> rt None tr
        | ["rtx"; tr] ->
          (* rt on a tree whose text (1 MB at depth 1000) the list-based model parser needs minutes for: the model makes
             no statement, the spec line is the one of rt (from the tree alone: in_class, canon) *)
          if model then emit "? | ??*" else rt None tr
        | ["rtinto"; t0; tr] -> rt (Some t0) tr
        | ["parse2"; flag; h1; h2] ->
          if model then begin
            let shared = (flag = "1") in
            let s1 = cstr (bytes_of_hex h1) and s2 = cstr (bytes_of_hex h2) in
            let o0 = fresh_parser in
            let (o1, r1) = parse_with o0 JNull s1 in
            let kept = (match r1 with POk v when shared -> v | _ -> JNull) in
            let (_, r2) = parse_with o1 kept s2 in
            match result_text r1, result_text r2 with
            | Some a, Some b -> emit (Printf.sprintf "1 | %s | %s" a b)
            | _ -> emit "! oob"
          end else emit "1 | ??* | ??*"
        | ["into"; t0; h] ->
          if model then begin
            let (tgt, _) = build (String.split_on_char ',' t0) in
            let (_, r) = parse_with fresh_parser tgt (cstr (bytes_of_hex h)) in
            match result_text r with
            | Some a -> emit ("1 | " ^ a)
            | None -> emit "! oob"
          end else emit "1 | ??*"
        | ["sparse"; m; h] ->
          if model then begin
            let r = static_parse (z_of_int 12345) JNull (cstr (bytes_of_hex h)) in
            match r with
            | PErr (l, c, k) when m <> "p" ->
              emit (Printf.sprintf "serr Syntax_error_at_line_%s,_column_%s:_%s" (dec_of_z l) (dec_of_z c) (msg_text k))
            | _ -> (match result_text r with Some a -> emit a | None -> emit "! oob")
          end else emit "??*"
        | ["xscan"; h] ->
          if model then
            (match scanf_hex (cstr (bytes_of_hex h)) with
             | Some w -> emit ("1 " ^ dec_of_z w)
             | None -> emit "0 -")
          else emit "? ?"
        | ["chkpos"; h; l; c] ->
          if model then emit "-" else
          emit (if position_insideb (cstr (bytes_of_hex h)) (z_of_dec l) (z_of_dec c) then "1" else "0")
        | _ -> failwith ("bad op: " ^ String.concat " " toks)))
    (fun _ -> ())
