(* driver for component ServerLoop (C14).
     model   <ops>   the extracted model: one observation line per logged event + a state line per op
     monitor <obs>   the extracted Spec monitors over an observation log (lines "<case> <event…>",
                     e.g. the implementation's): per case "<case> verdict <0..6> <#events> <first rejected event>"
                     (1 tmon, 2 rmon, 3 cmt - the text-level reading of the closed clause -, 4 imon, 5 wmon, 6 kmon)
   The property oracle of checks/C14.py is `monitor` applied to the implementation's log. *)
open Model
open Zconv

let zi = z_of_int
let iz = int_of_z

let parse_ent (s : string) : ent =
  let n = zi (int_of_string (String.sub s 1 (String.length s - 1))) in
  match s.[0] with
  | 't' -> Tm n | 'c' -> Cl n | 'l' -> Li n | 'e' -> Es n
  | _ -> failwith ("bad entity " ^ s)

let ent_str = function
  | Tm i -> "t" ^ string_of_int (iz i) | Cl i -> "c" ^ string_of_int (iz i)
  | Li i -> "l" ^ string_of_int (iz i) | Es i -> "e" ^ string_of_int (iz i)

let parse_skind = function
  | "act" -> SAct | "read" -> SCb KRead | "write" -> SCb KWrite | "closed" -> SCb KClosed
  | "abolished" -> SCb KAbolished | "accepted" -> SIn KAccepted | "connected" -> SIn KConnected
  | s -> failwith ("bad kind " ^ s)
let cb_str = function KRead -> "read" | KWrite -> "write" | KClosed -> "closed" | KAbolished -> "abolished"
let parse_cb = function "read" -> KRead | "write" -> KWrite | "closed" -> KClosed | "abolished" -> KAbolished
                        | s -> failwith ("bad cb " ^ s)
let ik_str = function KAccepted -> "accepted" | KConnected -> "connected"
let parse_ik = function "accepted" -> KAccepted | "connected" -> KConnected | s -> failwith ("bad intro " ^ s)

let num s = zi (int_of_string s)

let parse_action (t : string list) : action = match t with
  | ["timer"; i; iv] -> ATimer (num i, num iv)
  | ["rmtimer"; i] -> ARmTimer (num i)
  | ["pair"; i] -> APair (num i)
  | ["rmclient"; i] -> ARmClient (num i)
  | ["listen"; i] -> AListen (num i)
  | ["rmlistener"; i] -> ARmListener (num i)
  | ["connect"; i] -> AConnect (num i)
  | ["rmestab"; i] -> ARmEstab (num i)
  | ["write"; i; n] -> AWrite (num i, num n)
  | ["read"; i] -> ARead (num i)
  | ["suspend"; i] -> ASuspend (num i)
  | ["resume"; i] -> AResume (num i)
  | ["interrupt"] -> AInterrupt
  | ["adv"; d] -> AAdv (num d)
  | _ -> failwith ("bad action: " ^ String.concat " " t)

let rec split_on (sep : string) (l : string list) : string list list =
  let rec go cur acc = function
    | [] -> List.rev (List.rev cur :: acc)
    | x :: r when x = sep -> go [] (List.rev cur :: acc) r
    | x :: r -> go (x :: cur) acc r in
  go [] [] l

let parse_bits (b : int) : nbits =
  { nIn = b land 1 <> 0; nOut = b land 2 <> 0; nRdhup = b land 4 <> 0; nHup = b land 8 <> 0; nErr = b land 16 <> 0 }

(* "<dt>[+][!][:…]": `+` (the item continues the previous one: sockets that were ready at the same moment, cut into pieces of 63 by
   the generator - exactly what a caller with a 64-entry array gets from consecutive epoll_wait calls) and `!` (epoll_wait fails with
   EINTR after dt: for the loop a wake-up without events) need nothing in the model: an item is any list of ready sockets. *)
let strip_marks (dt : string) : string =
  let n = ref (String.length dt) in
  while !n > 0 && (dt.[!n - 1] = '+' || dt.[!n - 1] = '!') do decr n done;
  String.sub dt 0 !n

let parse_item (s : string) : epitem =
  match String.index_opt s ':' with
  | None -> { ep_dt = num (strip_marks s); ep_ready = [] }
  | Some k ->
    let dt = strip_marks (String.sub s 0 k) and rest = String.sub s (k + 1) (String.length s - k - 1) in
    let rs = List.filter (fun x -> x <> "") (String.split_on_char ',' rest) in
    { ep_dt = num dt;
      ep_ready = List.map (fun r -> match String.split_on_char '=' r with
          | [e; b] -> (parse_ent e, parse_bits (int_of_string b))
          | _ -> failwith ("bad ready " ^ r)) rs }

let parse_op (t : string list) : op = match t with
  | "on" :: e :: k :: nw :: acc :: rest ->
    let groups = match rest with [] -> [] | "/" :: r -> split_on "/" r | _ -> failwith "bad on" in
    OOn { s_ent = parse_ent e; s_kind = parse_skind k; s_new = num nw; s_acc = (acc = "1");
          s_acts = List.map parse_action (List.filter (fun g -> g <> []) groups) }
  | "run" :: items -> ORun (List.map parse_item items)
  | "sendq" :: l -> OSendq (List.map (function "w" -> SWould | "e" -> SErr | k -> SSent (num k)) l)
  | "recvq" :: l -> ORecvq (List.map (function "w" -> RWould | "e" -> RErr | "z" -> REof | k -> RGot (num k)) l)
  | "acceptq" :: l -> OAcceptq (List.map (fun x -> x = "1") l)
  | "connq" :: l -> OConnq (List.map num l)
  | _ -> OAct (parse_action t)

let b01 b = if b then "1" else "0"
let zs z = string_of_int (iz z)

let ev_str (e : ev) : string = match e with
  | EvNow n -> "now " ^ zs n
  | EvAct (t, due, now) -> Printf.sprintf "act t%s due=%s now=%s" (zs t) (zs due) (zs now)
  | EvCb (e, k, c) -> Printf.sprintf "cb %s %s @%s" (ent_str e) (cb_str k) (zs c)
  | EvIntro (e, k, i, c) -> Printf.sprintf "intro %s %s c%s @%s" (ent_str e) (ik_str k) (zs i) (zs c)
  | EvIntroRet (i, a) -> Printf.sprintf "introret c%s %s" (zs i) (b01 a)
  | EvWait t -> "wait " ^ zs t
  | EvItem f -> "item " ^ (if f then "foreign" else "script")
  | EvCtl (o, e, m) -> Printf.sprintf "ctl %s %s %s" (match o with CAdd -> "add" | CMod -> "mod" | CDel -> "del") (ent_str e) (zs m)
  | EvSend (i, n, r, d) -> Printf.sprintf "send c%s %s %s %s" (zs i) (zs n) (zs r) (if d then "d" else "w")
  | EvRecv (i, r) -> Printf.sprintf "recv c%s %s" (zs i) (zs r)
  | EvAccept (i, ok) -> Printf.sprintf "accept l%s %s" (zs i) (b01 ok)
  | EvSoErr (i, err) -> Printf.sprintf "soerr e%s %s" (zs i) (zs err)
  | EvCreated (e, t, iv) -> Printf.sprintf "created %s %s %s" (ent_str e) (zs t) (zs iv)
  | EvRemoved e -> "removed " ^ ent_str e
  | EvDeferred e -> "deferred " ^ ent_str e
  | EvSel l -> "sel " ^ (if l = [] then "-" else String.concat "," (List.map (fun (e, f) -> ent_str e ^ ":" ^ zs f) l))
  | EvWrote (i, ok, p) -> Printf.sprintf "wrote c%s %s %s" (zs i) (b01 ok) (zs p)
  | EvRead (i, ok) -> Printf.sprintf "readret c%s %s" (zs i) (b01 ok)
  | EvSkip -> "skip"
  | EvInterrupt f -> "interrupt " ^ b01 f
  | EvRunEnter -> "run"
  | EvRunRet -> "ret"

(* the inverse, for the monitor mode; None for lines that are not events (state lines, "! …") *)
let cid s = num (String.sub s 1 (String.length s - 1))
let after_eq s = match String.index_opt s '=' with Some k -> String.sub s (k + 1) (String.length s - k - 1) | None -> s
let parse_ev (t : string list) : ev option =
  try match t with
  | ["now"; n] -> Some (EvNow (num n))
  | ["act"; t; d; n] -> Some (EvAct (cid t, num (after_eq d), num (after_eq n)))
  | ["cb"; e; k; c] -> Some (EvCb (parse_ent e, parse_cb k, num (String.sub c 1 (String.length c - 1))))
  | ["intro"; e; k; i; c] -> Some (EvIntro (parse_ent e, parse_ik k, cid i, num (String.sub c 1 (String.length c - 1))))
  | ["introret"; i; a] -> Some (EvIntroRet (cid i, a = "1"))
  | ["wait"; t] -> Some (EvWait (num t))
  | ["item"; f] -> Some (EvItem (f = "foreign"))
  | ["ctl"; o; e; m] -> Some (EvCtl ((match o with "add" -> CAdd | "mod" -> CMod | "del" -> CDel | _ -> failwith "ctl"), parse_ent e, num m))
  | ["send"; i; n; r; d] -> Some (EvSend (cid i, num n, num r, d = "d"))
  | ["recv"; i; r] -> Some (EvRecv (cid i, num r))
  | ["accept"; i; ok] -> Some (EvAccept (cid i, ok = "1"))
  | ["soerr"; i; e] -> Some (EvSoErr (cid i, num e))
  | ["created"; e; t; iv] -> Some (EvCreated (parse_ent e, num t, num iv))
  | ["removed"; e] -> Some (EvRemoved (parse_ent e))
  | ["deferred"; e] -> Some (EvDeferred (parse_ent e))
  | ["sel"; "-"] -> Some (EvSel [])
  | ["sel"; l] -> Some (EvSel (List.map (fun x -> match String.split_on_char ':' x with
                                           | [e; f] -> (parse_ent e, num f) | _ -> failwith "sel") (String.split_on_char ',' l)))
  | ["wrote"; i; ok; p] -> Some (EvWrote (cid i, ok = "1", num p))
  | ["readret"; i; ok] -> Some (EvRead (cid i, ok = "1"))
  | ["skip"] -> Some EvSkip
  | ["interrupt"; f] -> Some (EvInterrupt (f = "1"))
  | ["run"] -> Some EvRunEnter
  | ["ret"] -> Some EvRunRet
  | _ -> None
  with _ -> None

let list_str f l = if l = [] then "-" else String.concat "," (List.map f l)

let state_line (s : state) : string =
  let by_ent (a, _) (b, _) = compare (ent_str a) (ent_str b) in
  Printf.sprintf "st clk=%s | q=%s closing=%s intr=%s pool=t:%d,l:%d,e:%d,c:%d cl=%s reg=%s sel=%s evfd=%s"
    (zs s.clk)
    (list_str (fun (k, v) -> zs k ^ ":" ^ (match v with Some t -> "t" ^ zs t | None -> "-")) s.queue)
    (list_str (fun i -> "c" ^ zs i) s.closing)
    (b01 s.intr)
    (List.length s.timers) (List.length s.listeners) (List.length s.estabs) (List.length s.clients)
    (list_str (fun (i, c) -> Printf.sprintf "c%s:%s:%s" (zs i) (zs c.c_back) (b01 c.c_susp))
       (List.sort (fun (a, _) (b, _) -> compare (iz a) (iz b)) s.clients))
    (list_str (fun (e, f) -> ent_str e ^ ":" ^ zs (map_events f)) (List.sort by_ent s.socks))
    (list_str (fun (e, f) -> ent_str e ^ ":" ^ zs f) (sel_view s.selected))
    (b01 (iz s.evcount > 0))

let run_model file =
  let fuel = nat_of_int 4000 in
  run_cases file (fun _ -> init)
    (fun st _ toks ->
       if st.stuck then st
       else if (match toks with "opts" :: _ -> true | _ -> false) then begin
         emit (state_line st); st      (* socket options: no effect on what the loop does *)
       end
       else if (match toks with "mt" :: _ -> true | _ -> false) then begin
         (* rounds on the real kernel with real threads: the expected outcome of every round is that run() returns when,
            and only when, interrupt() was called (the model: interrupt, then run [] ends with EvRunRet) *)
         let st' = List.fold_left (fun st _ -> step fuel (step fuel st (OAct AInterrupt)) (ORun [])) st (List.tl toks) in
         List.iteri (fun k tok ->
             emit (Printf.sprintf "mt %d %s %s" (k + 1) tok (if st'.stuck || st'.intr then "FAIL model" else "ok"))) (List.tl toks);
         emit "mt end";
         st
       end else begin
         let n0 = List.length st.trace in
         let st' = step fuel st (parse_op toks) in
         let evs = List.rev st'.trace in
         List.iteri (fun k e -> if k >= n0 then emit (ev_str e)) evs;
         if st'.stuck then emit "! timeout" else emit (state_line st');
         st'
       end)
    (fun _ -> ())

(* monitor mode: group the lines by case number, parse the events, run the four monitors
   incrementally (so that the first rejected event can be named) *)
let run_monitor file =
  let ic = open_in file in
  let cur = ref (-1) in
  let t = ref (Some tmon0) and r = ref (Some rmon0) and c = ref (Some cmt0) and i = ref (Some imon0) in
  let w = ref (Some wmon0) and km = ref (Some kmon0) in
  let n = ref 0 and verdict = ref 0 and culprit = ref "-" in
  let flush_case () =
    if !cur >= 0 then Printf.printf "%d verdict %d %d %s\n" !cur !verdict !n !culprit in
  let reset k = flush_case (); cur := k; t := Some tmon0; r := Some rmon0; c := Some cmt0; i := Some imon0;
    w := Some wmon0; km := Some kmon0;
    n := 0; verdict := 0; culprit := "-" in
  let stepm st f e = match !st with Some m -> st := f m e | None -> () in
  (try
    while true do
      let line = input_line ic in
      match tokens line with
      | k :: rest when (match int_of_string_opt k with Some _ -> true | None -> false) ->
        let k = int_of_string k in
        if k <> !cur then reset k;
        (match parse_ev rest with
         | Some e when !verdict = 0 ->
           incr n;
           stepm t tmon_step e; stepm r rmon_step e; stepm c cmt_step e; stepm i imon_step e;
           stepm w wmon_step e; stepm km kmon_step e;
           let v = if !w = None then 5 else if !t = None then 1 else if !km = None then 6 else if !r = None then 2
             else if !c = None then 3 else if !i = None then 4 else 0 in
           if v <> 0 then (verdict := v; culprit := String.concat "_" rest)
         | _ -> ())
      | _ -> ()
    done
  with End_of_file -> ());
  flush_case ();
  close_in ic

let () =
  let mode = Sys.argv.(1) and file = Sys.argv.(2) in
  match mode with
  | "model" -> run_model file
  | "monitor" -> run_monitor file
  | _ -> prerr_endline "serverloop driver: modes `model` and `monitor`"; exit 2
