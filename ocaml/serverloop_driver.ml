(* model driver for component ServerLoop (C14).  The property oracle on the implementation's
   observations is checks/C14.py (judge); this driver has the `model` mode only. *)
open Model
open Zconv

let zi = z_of_int
let iz = int_of_z

let parse_ent (s : string) : ent =
  let n = zi (int_of_string (String.sub s 1 (String.length s - 1))) in
  match s.[0] with
  | 't' -> Tm n | 'c' -> Cl n | 'l' -> Li n | 'e' -> Es n
  | _ -> failwith ("bad entity " ^ s)

let ent_str = function
  | Tm i -> "t" ^ string_of_int (iz i) | Cl i -> "c" ^ string_of_int (iz i)
  | Li i -> "l" ^ string_of_int (iz i) | Es i -> "e" ^ string_of_int (iz i)

let parse_kind = function
  | "act" -> KAct | "read" -> KRead | "write" -> KWrite | "closed" -> KClosed
  | "accepted" -> KAccepted | "connected" -> KConnected | "abolished" -> KAbolished
  | s -> failwith ("bad kind " ^ s)
let kind_str = function
  | KAct -> "act" | KRead -> "read" | KWrite -> "write" | KClosed -> "closed"
  | KAccepted -> "accepted" | KConnected -> "connected" | KAbolished -> "abolished"

let num s = zi (int_of_string s)

let parse_action (t : string list) : action = match t with
  | ["timer"; i; iv] -> ATimer (num i, num iv)
  | ["rmtimer"; i] -> ARmTimer (num i)
  | ["pair"; i] -> APair (num i)
  | ["rmclient"; i] -> ARmClient (num i)
  | ["listen"; i] -> AListen (num i)
  | ["rmlistener"; i] -> ARmListener (num i)
  | ["connect"; i] -> AConnect (num i)
  | ["rmestab"; i] -> ARmEstab (num i)
  | ["write"; i; n] -> AWrite (num i, num n)
  | ["read"; i] -> ARead (num i)
  | ["suspend"; i] -> ASuspend (num i)
  | ["resume"; i] -> AResume (num i)
  | ["interrupt"] -> AInterrupt
  | ["adv"; d] -> AAdv (num d)
  | _ -> failwith ("bad action: " ^ String.concat " " t)

let rec split_on (sep : string) (l : string list) : string list list =
  let rec go cur acc = function
    | [] -> List.rev (List.rev cur :: acc)
    | x :: r when x = sep -> go [] (List.rev cur :: acc) r
    | x :: r -> go (x :: cur) acc r in
  go [] [] l

let parse_bits (b : int) : nbits =
  { nIn = b land 1 <> 0; nOut = b land 2 <> 0; nRdhup = b land 4 <> 0; nHup = b land 8 <> 0; nErr = b land 16 <> 0 }

let parse_item (s : string) : epitem =
  match String.index_opt s ':' with
  | None -> { ep_dt = num s; ep_ready = [] }
  | Some k ->
    let dt = String.sub s 0 k and rest = String.sub s (k + 1) (String.length s - k - 1) in
    let rs = List.filter (fun x -> x <> "") (String.split_on_char ',' rest) in
    { ep_dt = num dt;
      ep_ready = List.map (fun r -> match String.split_on_char '=' r with
          | [e; b] -> (parse_ent e, parse_bits (int_of_string b))
          | _ -> failwith ("bad ready " ^ r)) rs }

let parse_op (t : string list) : op = match t with
  | "on" :: e :: k :: nw :: acc :: rest ->
    let groups = match rest with [] -> [] | "/" :: r -> split_on "/" r | _ -> failwith "bad on" in
    OOn { s_ent = parse_ent e; s_kind = parse_kind k; s_new = num nw; s_acc = (acc = "1");
          s_acts = List.map parse_action (List.filter (fun g -> g <> []) groups) }
  | "run" :: items -> ORun (List.map parse_item items)
  | "sendq" :: l -> OSendq (List.map (function "w" -> SWould | "e" -> SErr | k -> SSent (num k)) l)
  | "recvq" :: l -> ORecvq (List.map (function "w" -> RWould | "e" -> RErr | "z" -> REof | k -> RGot (num k)) l)
  | "acceptq" :: l -> OAcceptq (List.map (fun x -> x = "1") l)
  | "connq" :: l -> OConnq (List.map num l)
  | _ -> OAct (parse_action t)

let b01 b = if b then "1" else "0"
let zs z = string_of_int (iz z)

let ev_str (e : ev) : string = match e with
  | EvNow n -> "now " ^ zs n
  | EvAct (t, due, now) -> Printf.sprintf "act t%s due=%s now=%s" (zs t) (zs due) (zs now)
  | EvCb (e, k) -> Printf.sprintf "cb %s %s" (ent_str e) (kind_str k)
  | EvWait t -> "wait " ^ zs t
  | EvItem f -> "item " ^ (if f then "foreign" else "script")
  | EvCtl (o, e, m) -> Printf.sprintf "ctl %s %s %s" (match o with CAdd -> "add" | CMod -> "mod" | CDel -> "del") (ent_str e) (zs m)
  | EvSend (i, n, r) -> Printf.sprintf "send c%s %s %s" (zs i) (zs n) (zs r)
  | EvRecv (i, r) -> Printf.sprintf "recv c%s %s" (zs i) (zs r)
  | EvAccept (i, ok) -> Printf.sprintf "accept l%s %s" (zs i) (b01 ok)
  | EvSoErr (i, err) -> Printf.sprintf "soerr e%s %s" (zs i) (zs err)
  | EvCreated (e, t) -> Printf.sprintf "created %s %s" (ent_str e) (zs t)
  | EvRemoved e -> "removed " ^ ent_str e
  | EvDeferred e -> "deferred " ^ ent_str e
  | EvWrote (i, ok, p) -> Printf.sprintf "wrote c%s %s %s" (zs i) (b01 ok) (zs p)
  | EvRead (i, ok) -> Printf.sprintf "readret c%s %s" (zs i) (b01 ok)
  | EvSkip -> "skip"
  | EvInterrupt f -> "interrupt " ^ b01 f
  | EvRunEnter -> "run"
  | EvRunRet -> "ret"

let list_str f l = if l = [] then "-" else String.concat "," (List.map f l)

let state_line (s : state) : string =
  Printf.sprintf "st clk=%s | q=%s closing=%s intr=%s pool=t:%d,l:%d,e:%d,c:%d cl=%s"
    (zs s.clk)
    (list_str (fun (k, v) -> zs k ^ ":" ^ (match v with Some t -> "t" ^ zs t | None -> "-")) s.queue)
    (list_str (fun i -> "c" ^ zs i) s.closing)
    (b01 s.intr)
    (List.length s.timers) (List.length s.listeners) (List.length s.estabs) (List.length s.clients)
    (list_str (fun (i, c) -> Printf.sprintf "c%s:%s:%s" (zs i) (zs c.c_back) (b01 c.c_susp))
       (List.sort compare (List.map (fun (i, c) -> (i, c)) s.clients)
        |> List.sort (fun (a, _) (b, _) -> compare (iz a) (iz b))))

let () =
  let mode = Sys.argv.(1) and file = Sys.argv.(2) in
  if mode <> "model" then (prerr_endline "serverloop driver: only `model` mode"; exit 2);
  let fuel = nat_of_int 4000 in
  run_cases file (fun _ -> init)
    (fun st _ toks ->
       if st.stuck then st else begin
         let n0 = List.length st.trace in
         let st' = step fuel st (parse_op toks) in
         let evs = List.rev st'.trace in
         List.iteri (fun k e -> if k >= n0 then emit (ev_str e)) evs;
         if st'.stuck then emit "! timeout" else emit (state_line st');
         st'
       end)
    (fun _ -> ())
