(* model / spec driver for component Sha (C17) *)
open Model
open Zconv

let parse_op toks = match toks with
  | ["upd"; h] -> OUpdate (bytes_of_hex h)
  | ["fin"] -> OFinalize
  | ["reset"] -> OReset
  | ["hash"; h] -> OHash (bytes_of_hex h)
  | ["hmac"; k; m] -> OHmac (bytes_of_hex k, bytes_of_hex m)
  | _ -> failwith ("bad op: " ^ String.concat " " toks)

(* updrep <hex> <times> = <times> consecutive OUpdate of the same chunk (long messages without long op lines).
   updrepx is the same call on the implementation, but too long for the extracted model and spec (~10 KB/s):
   they print wildcards from there to the end of the case, and checks/C17.py judges the case with python hashlib. *)
let rec repeat_op n f x = if n <= 0 then x else repeat_op (n - 1) f (f x)

let res_str r = match r with None -> "-" | Some [] -> "-" | Some d -> hex_of_bytes d

let () =
  let mode = Sys.argv.(1) and file = Sys.argv.(2) in
  if mode = "model" then
    run_cases file (fun _ -> Some init)
      (fun st _ toks ->
         match st, toks with
         | None, _ | _, ("updrepx" :: _) -> emit "? | ? ? | ?"; None
         | Some st, _ ->
           let (st', r) = match toks with
             | ["updrep"; h; n] -> let d = bytes_of_hex h in
                 (repeat_op (int_of_string n) (fun s -> fst (step s (OUpdate d))) st, None)
             | _ -> step st (parse_op toks) in
           emit (Printf.sprintf "%s | %s %s | %s" (res_str r) (dec_of_z st'.count)
                   (String.concat "," (List.map (fun w -> Printf.sprintf "%08x" (int_of_z w)) st'.state))
                   (hex_of_bytes st'.buffer));
           Some st')
      (fun _ -> ())
  else
    run_cases file (fun _ -> Some [])
      (fun m _ toks ->
         match m, toks with
         | None, _ | _, ("updrepx" :: _) -> emit "?"; None
         | Some m, ["updrep"; h; n] -> let d = bytes_of_hex h in
             emit "-"; Some (repeat_op (int_of_string n) (fun m -> fst (spec_step m (OUpdate d))) m)
         | Some m, _ -> let (m', r) = spec_step m (parse_op toks) in emit (res_str r); Some m')
      (fun _ -> ())
