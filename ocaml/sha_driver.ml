(* model / spec driver for component Sha (C17) *)
open Model
open Zconv

let parse_op toks = match toks with
  | ["upd"; h] -> OUpdate (bytes_of_hex h)
  | ["fin"] -> OFinalize
  | ["reset"] -> OReset
  | ["hash"; h] -> OHash (bytes_of_hex h)
  | ["hmac"; k; m] -> OHmac (bytes_of_hex k, bytes_of_hex m)
  | _ -> failwith ("bad op: " ^ String.concat " " toks)

let res_str r = match r with None -> "-" | Some [] -> "-" | Some d -> hex_of_bytes d

let () =
  let mode = Sys.argv.(1) and file = Sys.argv.(2) in
  if mode = "model" then
    run_cases file (fun _ -> init)
      (fun st _ toks ->
         let (st', r) = step st (parse_op toks) in
         emit (Printf.sprintf "%s | %s %s | %s" (res_str r) (dec_of_z st'.count)
                 (String.concat "," (List.map (fun w -> Printf.sprintf "%08x" (int_of_z w)) st'.state))
                 (hex_of_bytes st'.buffer));
         st')
      (fun _ -> ())
  else
    run_cases file (fun _ -> [])
      (fun m _ toks -> let (m', r) = spec_step m (parse_op toks) in emit (res_str r); m')
      (fun _ -> ())
