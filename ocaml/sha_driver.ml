(* model / spec driver for component Sha (C17) *)
open Model
open Zconv

(* decimal -> Z through the model's own arithmetic (counter values go up to 2^64 - 1, beyond a native int) *)
let z_of_dec (s : string) : z =
  let ten = z_of_int 10 in
  let acc = ref Z0 in
  String.iter (fun c -> acc := Z.add (Z.mul !acc ten) (z_of_int (Char.code c - 48))) s; !acc

(* <n> bytes, byte i = pattern[i mod len]: what the harness passes in ONE call for updfill / hashfill / hmacfill *)
let fill (h : string) (n : string) : z list =
  let pat = Array.of_list (bytes_of_hex h) in
  let len = Array.length pat in
  if len = 0 then [] else List.init (int_of_string n) (fun i -> pat.(i mod len))

let parse_op toks = match toks with
  | ["upd"; h] -> OUpdate (bytes_of_hex h)
  | ["updfill"; h; n] -> OUpdate (fill h n)
  | ["hashfill"; h; n] -> OHash (fill h n)
  | ["hmacfill"; k; kn; m; mn] -> OHmac (fill k kn, fill m mn)
  | ["fin"] -> OFinalize
  | ["reset"] -> OReset
  | ["hash"; h] -> OHash (bytes_of_hex h)
  | ["hmac"; k; m] -> OHmac (bytes_of_hex k, bytes_of_hex m)
  (* result buffer inside the key / message buffer: the arguments are the bytes the buffers hold at the call *)
  | ["hmacalias"; _; _; k; m] -> OHmac (bytes_of_hex k, bytes_of_hex m)
  | ["hashalias"; _; h] -> OHash (bytes_of_hex h)
  | _ -> failwith ("bad op: " ^ String.concat " " toks)

(* updrep <hex> <times> = <times> consecutive OUpdate of the same chunk (long messages without long op lines).
   updrepx is the same call on the implementation, but too long for the extracted model and spec (~10 KB/s):
   they print wildcards from there to the end of the case, and checks/C17.py judges the case with python hashlib. *)
(* updfillx / hashfillx / hmacfillx: one call that is too long for the extracted model and spec; same treatment.
   setcount <n> (WHITE BOX, see harness/sha.cpp): the model follows (Model.set_count: the counter is overwritten, state
   words and buffer stay) - a correspondence of update/finalize from a given internal state; the spec has no such
   notion and prints wildcards to the end of the case, so the property-level oracle never judges a poked hasher. *)
let beyond toks = match toks with
  | ("updrepx" | "updfillx" | "hashfillx" | "hmacfillx") :: _ -> true
  | _ -> false

(* threads <mode> <rounds> <chunk> <args>: N independent hashers, one per thread, nothing shared (harness/sha.cpp).  Model
   and spec have no threads: every hasher is a machine of its own, started from init (spec: the empty message), fed
   its own message (mode upd: in pieces of <chunk> bytes, then finalize; two rounds on the same machine when
   rounds >= 2, as the harness reuses the object) - the expected line is the list of the N results, whatever the
   schedule.  The hasher of the enclosing case is not touched. *)
let rec pieces chunk (l : 'a list) : 'a list list =
  if chunk <= 0 || List.length l <= chunk then [l]
  else (List.filteri (fun i _ -> i < chunk) l) :: pieces chunk (List.filteri (fun i _ -> i >= chunk) l)

let thread_jobs mode args =
  let rec pairs = function k :: m :: tl -> (k, m) :: pairs tl | _ -> [] in
  match mode with
  | "hmac" -> List.map (fun (k, m) -> [OHmac (bytes_of_hex k, bytes_of_hex m)]) (pairs args)
  | "hash" -> List.map (fun m -> [OHash (bytes_of_hex m)]) args
  | _ -> failwith "thread_jobs"

(* one thread's observation: run `ops` `rounds` (1 or 2) times on ONE machine; the result of a round = its last result *)
let thread_line (start : 'st) (stepf : 'st -> op -> 'st * z list option) (ops : op list) (rounds : int) : string =
  let round st = List.fold_left (fun (st, _) o -> stepf st o) (st, None) ops in
  let (st1, r1) = round start in
  let s1 = (match r1 with Some d -> hex_of_bytes d | None -> "-") in
  if rounds < 2 then s1 else
    let (_, r2) = round st1 in
    let s2 = (match r2 with Some d -> hex_of_bytes d | None -> "-") in
    if s1 = s2 then s1 else s1 ^ "/" ^ s2

let threads_line start stepf toks =
  match toks with
  | "threads" :: mode :: rounds :: chunk :: args ->
    let rounds = min 2 (int_of_string rounds) and chunk = int_of_string chunk in
    let jobs = if mode = "upd"
      then List.map (fun m -> List.map (fun p -> OUpdate p) (pieces chunk (bytes_of_hex m)) @ [OFinalize]) args
      else thread_jobs mode args in
    String.concat "," (List.map (fun ops -> thread_line start stepf ops rounds) jobs)
  | _ -> failwith "threads_line"

let rec repeat_op n f x = if n <= 0 then x else repeat_op (n - 1) f (f x)

let res_str r = match r with None -> "-" | Some [] -> "-" | Some d -> hex_of_bytes d

let () =
  let mode = Sys.argv.(1) and file = Sys.argv.(2) in
  if mode = "model" then
    run_cases file (fun _ -> Some init)
      (fun st _ toks ->
         match st, toks with
         | None, _ -> emit "? | ? ? | ?"; None
         | _, _ when beyond toks -> emit "? | ? ? | ?"; None
         | Some st, _ ->
           let (st', r) = match toks with
             | ["updrep"; h; n] -> let d = bytes_of_hex h in
                 (repeat_op (int_of_string n) (fun s -> fst (step s (OUpdate d))) st, None)
             | ["setcount"; n] -> (set_count st (z_of_dec n), None)
             | "threads" :: _ -> (st, None)
             | _ -> step st (parse_op toks) in
           let rs = (match toks with "threads" :: _ -> threads_line init step toks | _ -> res_str r) in
           emit (Printf.sprintf "%s | %s %s | %s" rs (dec_of_z st'.count)
                   (String.concat "," (List.map (fun w -> Printf.sprintf "%08x" (int_of_z w)) st'.state))
                   (hex_of_bytes st'.buffer));
           Some st')
      (fun _ -> ())
  else
    run_cases file (fun _ -> Some [])
      (fun m _ toks ->
         match m, toks with
         | None, _ | _, ("setcount" :: _) -> emit "?"; None
         | _, _ when beyond toks -> emit "?"; None
         | Some m, ["updrep"; h; n] -> let d = bytes_of_hex h in
             emit "-"; Some (repeat_op (int_of_string n) (fun m -> fst (spec_step m (OUpdate d))) m)
         | Some m, ("threads" :: _) -> emit (threads_line [] spec_step toks); Some m
         | Some m, _ -> let (m', r) = spec_step m (parse_op toks) in emit (res_str r); Some m')
      (fun _ -> ())
