(* model / spec driver for component Seq (C03): List, Array, PoolList *)
open Model
open Zconv

let nv = 3
let n_ i = nat_of_int (int_of_string i)
let z_ v = z_of_int (int_of_string v)
let zs l = List.map z_ l

let parse_lop toks = match toks with
  | ["new"; i] -> LNew (n_ i)
  | ["app"; i; v] -> LAppend (n_ i, z_ v)
  | ["pre"; i; v] -> LPrepend (n_ i, z_ v)
  | "apps" :: i :: vs -> LAppends (n_ i, zs vs)
  | ["appr"; i; start; count; step] ->      (* append(start), append(start + step), ...: count values *)
      let a = int_of_string start and d = int_of_string step in
      LAppends (n_ i, List.init (max 0 (int_of_string count)) (fun k -> z_of_int (a + k * d)))
  | ["ins"; i; k; v] -> LInsert (n_ i, n_ k, z_ v)
  | ["insl"; i; k; j] -> LInsertList (n_ i, n_ k, n_ j)
  | ["appl"; i; j] -> LAppendList (n_ i, n_ j)
  | ["prel"; i; j] -> LPrependList (n_ i, n_ j)
  | ["rem"; i; k] -> LRemove (n_ i, n_ k)
  | ["remv"; i; v] -> LRemoveVal (n_ i, z_ v)
  | ["remf"; i] -> LRemoveFront (n_ i)
  | ["remb"; i] -> LRemoveBack (n_ i)
  | ["find"; i; v] -> LFind (n_ i, z_ v)
  | ["clear"; i] -> LClear (n_ i)
  | ["swap"; i; j] -> LSwap (n_ i, n_ j)
  | ["eq"; i; j] -> LEq (n_ i, n_ j)
  | ["ne"; i; j] -> LNe (n_ i, n_ j)
  | ["copy"; i; j] -> LCopy (n_ i, n_ j)
  | ["asg"; i; j] -> LAssign (n_ i, n_ j)
  | ["sort"; i] -> LSort (n_ i)
  | _ -> failwith ("bad list op: " ^ String.concat " " toks)

let parse_aop toks = match toks with
  | ["new"; i] -> ANew (n_ i)
  | ["newc"; i; n] -> ANewCap (n_ i, z_ n)
  | ["copy"; i; j] -> ACopy (n_ i, n_ j)
  | ["asg"; i; j] -> AAssign (n_ i, n_ j)
  | ["res"; i; n] -> AReserve (n_ i, z_ n)
  | ["rsz"; i; n] -> AResizeD (n_ i, z_ n)
  | ["rszv"; i; n; v] -> AResize (n_ i, z_ n, z_ v)
  | ["app"; i; v] -> AAppend (n_ i, z_ v)
  | ["appa"; i; j] -> AAppendArr (n_ i, n_ j)
  | "appb" :: i :: vs -> AAppendBuf (n_ i, zs vs)
  | ["appr"; i; start; count; step] ->      (* append(buf, count) with buf = start, start + step, ... *)
      let a = int_of_string start and d = int_of_string step in
      AAppendBuf (n_ i, List.init (max 0 (int_of_string count)) (fun k -> z_of_int (a + k * d)))
  | ["remi"; i; k] -> ARemoveIdx (n_ i, n_ k)
  | ["rem"; i; k] -> ARemoveIt (n_ i, n_ k)
  | ["remf"; i] -> ARemoveFront (n_ i)
  | ["remb"; i] -> ARemoveBack (n_ i)
  | ["find"; i; v] -> AFind (n_ i, z_ v)
  | ["clear"; i] -> AClear (n_ i)
  | ["swap"; i; j] -> ASwap (n_ i, n_ j)
  | ["appe"; i; k] -> AAppendOwn (n_ i, n_ k)
  | ["rsze"; i; n; k] -> AResizeOwn (n_ i, z_ n, n_ k)
  | ["appo"; i; off; n] -> AAppendBufOwn (n_ i, n_ off, n_ n)
  | ["eq"; i; j] -> AEq (n_ i, n_ j)
  | ["ne"; i; j] -> ANe (n_ i, n_ j)
  | _ -> failwith ("bad array op: " ^ String.concat " " toks)

(* kind rec: the element is built by an n-argument constructor, `app i v` is the 1-argument form *)
let parse_pop isrec toks = match toks with
  | ["new"; i] -> PNew (n_ i)
  | ["app"; i; v] when isrec -> PAppendN (n_ i, [z_ v])
  | "appn" :: i :: vs when isrec -> PAppendN (n_ i, zs vs)
  | ["app"; i; v] -> PAppend (n_ i, z_ v)
  | ["rem"; i; k] -> PRemove (n_ i, n_ k)
  | ["remr"; i; k] -> PRemoveRef (n_ i, n_ k)
  | ["remf"; i] -> PRemoveFront (n_ i)
  | ["remb"; i] -> PRemoveBack (n_ i)
  | ["clear"; i] -> PClear (n_ i)
  | ["swap"; i; j] -> PSwap (n_ i, n_ j)
  | _ -> failwith ("bad poollist op: " ^ String.concat " " toks)

let zstr v = string_of_int (int_of_z v)
(* contents; beyond 4096 elements: `#<hash> <first three> .. <last three>` (the harness prints the same) *)
let vals_str l =
  let n = List.length l in
  if n <= 4096 then String.concat "" (List.map (fun v -> zstr v ^ " ") l)
  else begin
    let h = List.fold_left (fun h v -> (h * 31 + ((int_of_z v) land 0xffffffff)) land 0x7fffffff) 0 l in
    let a = Array.of_list l in
    Printf.sprintf "#%d %s %s %s .. %s %s %s " h (zstr a.(0)) (zstr a.(1)) (zstr a.(2)) (zstr a.(n - 3)) (zstr a.(n - 2)) (zstr a.(n - 1))
  end
let front_back l = match l with
  | [] -> "f - b -"
  | _ -> Printf.sprintf "f %s b %s" (zstr (List.hd l)) (zstr (List.nth l (List.length l - 1)))

(* public dump of one sequence variable; cap = "" (node lists), "?" (spec of Array), or a number *)
let dump_var letter i size vals cap tail =
  Printf.sprintf "%s%d n %d e %d%s %s [ %s]%s" letter i size (if vals = [] then 1 else 0)
    (if cap = "" then "" else " c " ^ cap) (front_back vals) (vals_str vals) tail

let res_str (r : res) (seqs : z list list) (var : int) = match r with
  | RNone -> "-"
  | RSkip -> "skip"
  | RBool true -> "true"
  | RBool false -> "false"
  | RIt k ->
      let l = List.nth seqs var and k = int_of_nat k in
      if k >= List.length l then "it=end" else Printf.sprintf "it=%d:%s" k (zstr (List.nth l k))
  | RRef k ->
      let l = List.nth seqs var and k = int_of_nat k in
      if k >= List.length l then "ref=BAD" else Printf.sprintf "ref=%d:%s" k (zstr (List.nth l k))

let var_of toks = match toks with _ :: i :: _ -> int_of_string i | _ -> 0
let ints l = String.concat "" (List.map (fun s -> string_of_int (int_of_nat s) ^ " ") l)

(* Array: the storage-level machine (sstep: allocations, constructed / raw cells, checked access) is what is run and
   printed; the value-level model (astep) runs beside it and must agree after every operation (theorem
   arraymem_step_safe_refines says it always does, and that the machine never reports an access error) *)
type mstate = SL of lworld | SP of lworld | SA of sworld * aworld | SB of sstate

let aerr_str = function
  | ENull -> "segv" | EFreed -> "uaf" | EOob -> "oob" | ERaw -> "ub" | ETwice -> "ub"
  | ELeak -> "leak" | EDblFree -> "dblfree" | EFuel -> "timeout"

let marr_eq (a : marr) (b : marr) =
  List.length a.items = List.length b.items && List.for_all2 (fun x y -> int_of_z x = int_of_z y) a.items b.items
  && dec_of_z a.cap = dec_of_z b.cap && a.allocated = b.allocated

let () =
  let mode = Sys.argv.(1) and file = Sys.argv.(2) in
  let key_of kind = if kind = "kv" then key_kv else key_full in
  let cont = ref "list" and key = ref key_full and isrec = ref false and probed = ref false and big = ref false in
  if mode = "model" then
    run_cases file
      (fun cfg ->
         (match cfg with c :: k :: _ -> cont := c; key := key_of k; isrec := (k = "rec"); probed := (k = "obj" || k = "kv" || k = "wide");
                                        big := List.mem "big" cfg
                         | _ -> failwith "case config");
         match !cont with
         | "list" when !big -> SB (sinit (nat_of_int nv))
         | "list" -> SL (linit (nat_of_int nv))
         | "plist" -> SP (linit (nat_of_int nv))
         | _ -> SA (swinit (nat_of_int nv), ainit (nat_of_int nv)))
      (fun st _ toks ->
         let node_line letter w r depth =
           let seqs = List.map (fun l -> List.map fst l.nodes) w in
           let pub = String.concat " " (List.mapi (fun i l ->
               dump_var letter i (int_of_nat l.msize) (List.map fst l.nodes) "" " rev ok acc ok") w) in
           let inn = String.concat " " (List.mapi (fun i l ->
               Printf.sprintf "%s%d s %s/ %s/ %d" letter i (ints (List.map snd l.nodes)) (ints l.free) (int_of_nat l.nblocks)) w) in
           let rs = match r with
             | MIt (_, Some s) | MRef (_, s) -> string_of_int (int_of_nat s)
             | _ -> "-" in
           (* `k <frames>`: how many frames of QuickSort::sort are live at the deepest point of a sort (sort_depth;
              theorems sort_as_coded_depth_is_printed_depth, sort_printed_depth_log); 0 where the harness does not
              measure (no sort, element kind int: its operator< is built in) *)
           emit (Printf.sprintf "%s | %s | %s r %s k %d" (res_str (lobs_res w r) seqs (var_of toks)) pub inn rs depth) in
         match st with
         | SB s ->
             (* case config `big` on List (2^16 nodes and more): the node-level model, whose slot ids are unary numbers,
                cannot follow; what is printed is the reference sequence, and the internal section is left open *)
             let (s', r) = lspec_fun !key s (parse_lop toks) in
             let pub = String.concat " " (List.mapi (fun i l -> dump_var "L" i (List.length l) l "" " rev ok acc ok") s') in
             emit (Printf.sprintf "%s | %s | ??*" (res_str r s' (var_of toks)) pub);
             SB s'
         | SL w ->
             let op = parse_lop toks in
             let depth = match op with
               | LSort i when !probed && int_of_nat i < nv -> int_of_nat (sort_depth !key (List.map fst (lget i w).nodes))
               | _ -> 0 in
             let (w', r) = lstep !key w op in node_line "L" w' r depth; SL w'
         | SP w -> let (w', r) = pstep w (parse_pop !isrec toks) in node_line "P" w' r 0; SP w'
         | SA (sw, w) when !big ->
             (* case config `big` (arrays of 2^16 elements and more): the storage-level machine reads and writes a
                cell in time proportional to its index and cannot follow; the value-level model alone is run *)
             let (w', r) = astep w (parse_aop toks) in
             let seqs = List.map (fun (a : marr) -> a.items) w' in
             let pub = String.concat " " (List.mapi (fun i (a : marr) ->
                 dump_var "A" i (List.length a.items) a.items (dec_of_z a.cap) " acc ok") w') in
             let inn = String.concat " " (List.mapi (fun i (a : marr) -> Printf.sprintf "A%d a %d" i (if a.allocated then 1 else 0)) w') in
             emit (Printf.sprintf "%s | %s | %s" (res_str (aobs_res r) seqs (var_of toks)) pub inn);
             SA (sw, w')
         | SA (sw, w) ->
             let op = parse_aop toks in
             let (w', r) = astep w op in
             (match sstep sw op with
              | SErr e -> emit ("! " ^ aerr_str e); SA (sw, w')
              | SOk (sw', r') ->
                  let m = sabs sw' in
                  let nalloc = List.length (List.filter (fun (a : marr) -> a.allocated) m) in
                  if not (List.length m = List.length w' && List.for_all2 marr_eq m w' && r = r') then
                    emit "! model-mismatch (storage machine vs value-level model)"
                  else if int_of_nat (live_blocks sw'.sheap) <> nalloc then
                    emit "! model-leak (live allocations vs allocated variables)"
                  else begin
                    let seqs = List.map (fun (a : marr) -> a.items) m in
                    let pub = String.concat " " (List.mapi (fun i (a : marr) ->
                        dump_var "A" i (List.length a.items) a.items (dec_of_z a.cap) " acc ok") m) in
                    let inn = String.concat " " (List.mapi (fun i (a : marr) -> Printf.sprintf "A%d a %d" i (if a.allocated then 1 else 0)) m) in
                    emit (Printf.sprintf "%s | %s | %s" (res_str (aobs_res r') seqs (var_of toks)) pub inn)
                  end;
                  SA (sw', w')))
      (fun _ -> emit "end live 0")
  else
    run_cases file
      (fun cfg ->
         (match cfg with c :: k :: _ -> cont := c; key := key_of k; isrec := (k = "rec") | _ -> failwith "case config");
         sinit (nat_of_int nv))
      (fun s _ toks ->
         let (s', r) = match !cont with
           | "list" -> lspec_fun !key s (parse_lop toks)
           | "plist" -> pspec s (parse_pop !isrec toks)
           | _ -> aspec s (parse_aop toks) in
         let letter, cap, tail = match !cont with
           | "list" -> "L", "", " rev ok acc ok" | "plist" -> "P", "", " rev ok acc ok" | _ -> "A", "?", " acc ok" in
         let pub = String.concat " " (List.mapi (fun i l -> dump_var letter i (List.length l) l cap tail) s') in
         (* a call the statement does not speak about (SeqSpec.atext: Array::remove(index) with index >= size()): nothing is
            specified; the check's judge stops judging the case at this line *)
         if !cont = "array" && not (atext (ssize s) (nat_of_int (List.length s)) (parse_aop toks)) then emit "open"
         else emit (Printf.sprintf "%s | %s" (res_str r s' (var_of toks)) pub);
         s')
      (fun _ -> emit "end live 0")
