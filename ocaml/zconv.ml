(* Shared helpers for the model drivers.  The extracted module is always called Model and
   keeps nat / positive / Z as the extracted inductives (ExtrOcamlBasic only). *)
open Model

let rec pos_of_int (n : int) : positive =
  if n = 1 then XH else if n land 1 = 0 then XO (pos_of_int (n lsr 1)) else XI (pos_of_int (n lsr 1))
let z_of_int (n : int) : z = if n = 0 then Z0 else if n > 0 then Zpos (pos_of_int n) else Zneg (pos_of_int (-n))
let rec int_of_pos (p : positive) : int = match p with XH -> 1 | XO q -> 2 * int_of_pos q | XI q -> 2 * int_of_pos q + 1
let int_of_z (x : z) : int = match x with Z0 -> 0 | Zpos p -> int_of_pos p | Zneg p -> - (int_of_pos p)
let rec nat_of_int (n : int) : nat = if n <= 0 then O else S (nat_of_int (n - 1))
let rec int_of_nat (n : nat) : int = match n with O -> 0 | S m -> 1 + int_of_nat m

(* arbitrary-size decimal <-> Z without Zarith: via strings, base 10^k chunks *)
let rec pos_to_bits p acc = match p with XH -> 1 :: acc | XO q -> pos_to_bits q (0 :: acc) | XI q -> pos_to_bits q (1 :: acc)
(* decimal string of a non-negative Z using repeated doubling on a digit array *)
let dec_of_pos (p : positive) : string =
  let bits = pos_to_bits p [] in            (* most significant first *)
  let digits = ref [0] in                   (* little endian decimal digits *)
  let step b =
    let carry = ref b in
    digits := List.map (fun d -> let v = 2 * d + !carry in carry := v / 10; v mod 10) !digits;
    if !carry > 0 then digits := !digits @ [!carry] in
  List.iter step bits;
  String.concat "" (List.rev_map string_of_int !digits)
let dec_of_z (x : z) : string = match x with Z0 -> "0" | Zpos p -> dec_of_pos p | Zneg p -> "-" ^ dec_of_pos p
(* Z of a decimal string: Horner with extracted-free arithmetic on a bit list is awkward;
   use native ints in 15-digit chunks combined through the model's own Z ops when available.
   Drivers that need big numbers define z_of_dec themselves with Model.Z.add / Model.Z.mul. *)

let hex_digit c = match c with
  | '0'..'9' -> Char.code c - 48 | 'a'..'f' -> Char.code c - 87 | 'A'..'F' -> Char.code c - 55
  | _ -> failwith "hex"
let bytes_of_hex (s : string) : z list =
  if s = "-" then [] else
  let n = String.length s / 2 in
  List.init n (fun i -> z_of_int (16 * hex_digit s.[2*i] + hex_digit s.[2*i+1]))
let ints_of_hex (s : string) : int list =
  if s = "-" then [] else
  let n = String.length s / 2 in
  List.init n (fun i -> 16 * hex_digit s.[2*i] + hex_digit s.[2*i+1])
let hex_of_ints (l : int list) : string =
  if l = [] then "-" else String.concat "" (List.map (fun b -> Printf.sprintf "%02x" (b land 255)) l)
let hex_of_bytes (l : z list) : string = hex_of_ints (List.map int_of_z l)

let tokens (line : string) : string list =
  List.filter (fun s -> s <> "") (String.split_on_char ' ' (String.trim line))

(* The case loop: [on_case cfg] returns a fresh state; [on_op st i toks] returns the new state
   and prints the observation line(s) itself via [emit].  *)
let cur_case = ref 0
let emit (s : string) = print_string (string_of_int !cur_case); print_char ' '; print_endline s

let run_cases (file : string) (on_case : string list -> 'st) (on_op : 'st -> int -> string list -> 'st) (on_end : 'st -> unit) : unit =
  let ic = open_in file in
  let st = ref None in
  let idx = ref 0 in
  (try
    while true do
      let line = input_line ic in
      if String.length line > 0 && line.[0] <> '#' then begin
        match tokens line with
        | "case" :: n :: cfg -> cur_case := int_of_string n; idx := 0; st := Some (on_case cfg)
        | ["end"] -> (match !st with Some s -> on_end s | None -> ()); st := None
        | [] -> ()
        | toks -> (match !st with
                   | Some s -> st := Some (on_op s !idx toks); incr idx
                   | None -> ())
      end
    done
  with End_of_file -> ());
  close_in ic
