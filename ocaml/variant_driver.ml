(* model / spec driver for component Variant (C07) *)
open Model
open Zconv

let ten = z_of_int 10
let z_of_dec (s : string) : z =
  let neg = String.length s > 0 && s.[0] = '-' in
  let acc = ref Z0 in
  String.iteri (fun i c -> if not (i = 0 && neg) then
                   acc := Z.add (Z.mul !acc ten) (z_of_int (Char.code c - 48))) s;
  if neg then Z.opp !acc else !acc

let hexb s = bytes_of_hex s

let parse_scalar (t : string) : scalar =
  let rest = String.sub t 1 (String.length t - 1) in
  match t.[0] with
  | 'n' -> SNull
  | 'b' -> SBool (rest = "1")
  | 'd' -> (match String.split_on_char '_' rest with
            | [m; e] -> SDbl (z_of_dec m, z_of_dec e)
            | _ -> failwith "dbl")
  | 'i' -> SInt (z_of_dec rest)
  | 'u' -> SUInt (z_of_dec rest)
  | 'I' -> SI64 (z_of_dec rest)
  | 'U' -> SU64 (z_of_dec rest)
  | _ -> failwith ("scalar " ^ t)

let parse_kind c = match c with 'm' -> KMap | 'l' -> KList | 'a' -> KArray | _ -> failwith "kind"

let parse_path (t : string) : path =
  if t = "-" then [] else
  List.map (fun st ->
      let k = parse_kind st.[0] in
      let r = String.sub st 2 (String.length st - 2) in
      match st.[1] with
      | '#' -> (k, ByIdx (nat_of_int (int_of_string r)))
      | '=' -> (k, ByKey (hexb r))
      | _ -> failwith "step") (String.split_on_char '/' t)

let parse_items (t : string) : (bytes * nat) list =
  if t = "-" then [] else
  List.map (fun it -> match String.split_on_char ':' it with
      | [k; j] -> (hexb k, nat_of_int (int_of_string j))
      | _ -> failwith "item") (String.split_on_char ',' t)

let parse_cop (t : string) : cop =
  match String.split_on_char ':' t with
  | ["touch"] -> CTouch
  | ["ins"; n; k] -> CIns (nat_of_int (int_of_string n), hexb k)
  | ["rem"; n] -> CRem (nat_of_int (int_of_string n))
  | ["remkey"; k] -> CRemKey (hexb k)
  | ["clr"] -> CClr
  | _ -> failwith ("cop " ^ t)

let nat s = nat_of_int (int_of_string s)

let parse_op toks = match toks with
  | ["sets"; i; p; s] -> OSetScalar (nat i, parse_path p, parse_scalar s)
  | ["setstr"; i; p; b] -> OSetStr (nat i, parse_path p, hexb b)
  | ["setnode"; i; p; k; items] -> OSetNode (nat i, parse_path p, parse_kind k.[0], parse_items items)
  | ["assign"; i; p; j; sp] -> OAssign (nat i, parse_path p, nat j, parse_path sp)
  | ["clear"; i; p] -> OClear (nat i, parse_path p)
  | ["swap"; i; j] -> OSwap (nat i, nat j)
  | ["copynew"; i; j] -> OCopyNew (nat i, nat j)
  | ["strtouch"; i; p] -> OStrTouch (nat i, parse_path p)
  | ["strapp"; i; p; b] -> OStrAppend (nat i, parse_path p, hexb b)
  | ["cont"; i; p; k; c; j; sp] -> OCont (nat i, parse_path p, parse_kind k.[0], parse_cop c, nat j, parse_path sp)
  | ["assignstr"; i; p; j; sp] -> OAssignStrFrom (nat i, parse_path p, nat j, parse_path sp)
  | ["assignnode"; i; p; j; sp; k] | ["assign"; i; p; j; sp; k] -> OAssignNodeFrom (nat i, parse_path p, nat j, parse_path sp, parse_kind k.[0])
  (* the converting constructors: `x.~Variant(); new (&x) Variant(value)` is, for the value model and for the
     heap shape, the assignment of the same value to the root of x *)
  | ["csets"; i; s] -> OSetScalar (nat i, [], parse_scalar s)
  | ["csetstr"; i; b] -> OSetStr (nat i, [], hexb b)
  | ["csetnode"; i; k; items] -> OSetNode (nat i, [], parse_kind k.[0], parse_items items)
  | _ -> failwith ("bad op: " ^ String.concat " " toks)

(* ---- printing ---- *)
let scalar_str s = match s with
  | SNull -> "n"
  | SBool b -> if b then "b1" else "b0"
  | SDbl (m, e) -> "d" ^ dec_of_z m ^ "_" ^ dec_of_z e
  | SInt z -> "i" ^ dec_of_z z
  | SUInt z -> "u" ^ dec_of_z z
  | SI64 z -> "I" ^ dec_of_z z
  | SU64 z -> "U" ^ dec_of_z z

let kind_open k = match k with KMap -> "M{" | KList -> "L[" | KArray -> "A["
let kind_close k = match k with KMap -> "}" | _ -> "]"

let rec dump (v : value) : string = match v with
  | VS s -> scalar_str s
  | VStr b -> "s" ^ hex_of_bytes b
  | VNode (k, ks, vs) ->
    let items = match k with
      | KMap -> (try List.map2 (fun key x -> hex_of_bytes key ^ ":" ^ dump x) ks vs with _ -> ["?badmap"])
      | _ -> List.map dump vs in
    kind_open k ^ String.concat "," items ^ kind_close k

let oz o = match o with Some z -> dec_of_z z | None -> "ub"

(* mode `spec` = the property oracle: a conversion / comparison the property text leaves open (VariantSpec.str_fits,
   veq_pinned: a decimal string the target type cannot hold; maps with the same keys in another insertion order) is
   printed as `?`; checks/C07.py treats it as a wildcard.  Mode `model` prints the code's choice there. *)
let pz (pinned : bool) o = if pinned then oz o else "?"

let coercions (v : value) : string =
  let (m, e) = to_dbl v in
  String.concat "," [ (if is_null v then "1" else "0"); (if to_bool v then "1" else "0");
                      pz (int_pinned v) (to_int v); pz (uint_pinned v) (to_uint v); pz (i64_pinned v) (to_i64 v); pz (u64_pinned v) (to_u64 v);
                      "d" ^ dec_of_z m ^ "_" ^ dec_of_z e; hex_of_bytes (to_str v) ]

let eq_matrix (vs : value list) : string =
  String.concat "" (List.concat_map (fun a -> List.map (fun b ->
      if not (veq_pinned a b) then "?" else
      match veq a b with Some true -> "t" | Some false -> "f" | None -> "u") vs) vs)

(* the same observations computed by the Model's OWN observers on the representation (VariantModel: m_type, m_to_*, meq -
   the transcription of the code's switch(data->type), casts and operator==, which does not call the Spec's to_* / veq):
   mode `model` prints only these, so the comparison with the harness ties the transcription to the code *)
let m_coercions (hp : heap) (h : handle) : string =
  let (m, e) = m_to_dbl hp h in
  String.concat "," [ (if m_is_null hp h then "1" else "0"); (if m_to_bool hp h then "1" else "0"); oz (m_to_int hp h); oz (m_to_uint hp h); oz (m_to_i64 hp h);
                      oz (m_to_u64 hp h); "d" ^ dec_of_z m ^ "_" ^ dec_of_z e; hex_of_bytes (m_to_str hp h) ]

let m_eq_matrix (hp : heap) (hs : handle list) : string =
  String.concat "" (List.concat_map (fun a -> List.map (fun b ->
      match meq_top hp a b with Some true -> "t" | Some false -> "f" | None -> "u") hs) hs)

let outcome_str o = match o with Done -> "done" | NoPath -> "nopath" | NoSrc -> "nosrc" | BadVar -> "badvar"

let observable (res : string) (vs : value list) : string =
  Printf.sprintf "%s | %s | %s | %s" res
    (String.concat " " (List.map (fun v -> dec_of_z (vtype v) ^ ":" ^ dump v) vs))
    (String.concat " " (List.map coercions vs))
    (eq_matrix vs)

(* canonical heap shape: blocks numbered in order of first visit (variables in order, depth first),
   with every reference count *)
let shape (s : state) : string =
  let seen = Hashtbl.create 16 in
  let next = ref 0 in
  let blocks = Array.of_list s.hp in
  let rec go (h : handle) : string = match h with
    | HS _ -> "."
    | HB b ->
      let b = int_of_nat b in
      (match Hashtbl.find_opt seen b with
       | Some n -> "@" ^ string_of_int n
       | None ->
         incr next; let n = !next in Hashtbl.add seen b n;
         if b >= Array.length blocks then "#dangling" else
         let blk = blocks.(b) in
         let body = match blk.pl with
           | PStr _ -> "S"
           | PNode (k, _, hs) -> kind_open k ^ String.concat "," (List.map go hs) ^ kind_close k in
         Printf.sprintf "#%d:r%d:%s" n (int_of_nat blk.rc) body) in
  let per_var = List.map go s.vars in
  String.concat " " per_var ^ " live=" ^ string_of_int (int_of_nat (live_blocks s.hp))

let m_observable (res : string) (st : state) (vs : value list) : string =
  Printf.sprintf "%s | %s | %s | %s" res
    (String.concat " " (List.map2 (fun h v -> dec_of_z (m_type st.hp h) ^ ":" ^ dump v) st.vars vs))
    (String.concat " " (List.map (m_coercions st.hp) st.vars))
    (m_eq_matrix st.hp st.vars)

let values_of_state (s : state) : value list =
  List.map (fun o -> match o with Some v -> v | None -> failwith "model: abs failed (dangling handle or fuel)") (abs_vars s)

(* `assign!` / `cont!` / `assignnode!`: the same operation, not subject to the self-containment exclusion *)
let unguard (toks : string list) : string list * bool = match toks with
  | name :: rest when String.length name > 1 && name.[String.length name - 1] = '!' ->
    (String.sub name 0 (String.length name - 1) :: rest, true)
  | _ -> (toks, false)

let () =
  let mode = Sys.argv.(1) and file = Sys.argv.(2) in
  let nvars cfg = match cfg with k :: _ -> nat_of_int (int_of_string k) | [] -> nat_of_int 3 in
  if mode = "model" then
    run_cases file (fun cfg -> init (nvars cfg))
      (fun st _ toks ->
         let (toks, ung) = unguard toks in
         let o = parse_op toks in
         let vs = values_of_state st in
         if (not ung) && self_containing vs o then begin
           emit (m_observable "excluded" st vs ^ " | " ^ shape st); st
         end else
           match mstep st o with
           | Some (st', out) ->
             emit (m_observable (outcome_str out) st' (values_of_state st') ^ " | " ^ shape st'); st'
           | None -> emit "modelerror"; st)
      (fun st ->
         (* destroy every variable: every block must be freed *)
         match destroy_all st with
         | Some hp -> emit (Printf.sprintf "end leak=%d" (if int_of_nat (live_blocks hp) = 0 then 0 else 1))
         | None -> emit "end modelerror")
  else
    run_cases file (fun cfg -> spec_init (nvars cfg))
      (fun vs _ toks ->
         let (toks, ung) = unguard toks in
         let o = parse_op toks in
         if (not ung) && self_containing vs o then begin emit (observable "excluded" vs); vs end
         else begin
           let (vs', out) = spec_step vs o in
           emit (observable (outcome_str out) vs'); vs'
         end)
      (fun _ -> emit "end leak=0")
