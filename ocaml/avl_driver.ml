(* model / spec driver for component Avl (C01: Map and MultiMap) *)
open Model
open Zconv

let parse_op toks =
  let z s = z_of_int (int_of_string s) and n s = nat_of_int (int_of_string s) in
  match toks with
  | ["ins"; k; v] -> OIns (z k, z v)
  | ["hint"; p; k; v] -> OHint (n p, z k, z v)
  | ["hintc"; p; k; v; _] -> OHint (n p, z k, z v)   (* hinted insert with the position the implementation chose *)
  | ["remk"; k] -> ORemKey (z k)
  | ["remkc"; k; _] -> ORemKey (z k)               (* remove(key) with the rank of the entry the implementation removed *)
  | ["remi"; p] -> ORemAt (n p)
  | ["remf"] -> ORemFront
  | ["remb"] -> ORemBack
  | ["clear"] -> OClear
  | ["find"; k] -> OFind (z k)
  | ["has"; k] -> OHas (z k)
  | ["count"; k] -> OCount (z k)
  | ["front"] -> OFront
  | ["back"] -> OBack
  | ["sel"; b] -> OSel (b <> "0")
  | ["copy"] | ["copyc"] -> OCopy
  | ["bulk"] -> OBulk
  | ["copys"] -> OSelf
  | _ -> failwith ("bad op: " ^ String.concat " " toks)

let ent ((k, v), s) = Printf.sprintf "%d:%d:%d" (int_of_z k) (int_of_z v) (int_of_nat s)

let res_str r = match r with
  | RNone -> "-"
  | RIter IEnd -> "@end"
  | RIter (IAt (r, e)) -> Printf.sprintf "@%d:%s" (int_of_nat r) (ent e)
  | RBool b -> if b then "1" else "0"
  | RNat n -> string_of_int (int_of_nat n)
  | RVal None -> "v=-"
  | RVal (Some v) -> "v=" ^ string_of_int (int_of_z v)
  | RBad -> "!bad-choice"

let hmod = 1000000007
let hstep h x = (h * 31337 + (((x + 12345) mod hmod) + hmod) mod hmod) mod hmod

let iter_str hash (l : entry list) =
  if hash then
    "#" ^ string_of_int (List.fold_left (fun h ((k, v), s) -> hstep (hstep (hstep h (int_of_z k)) (int_of_z v)) (int_of_nat s)) 7 l)
  else if l = [] then "-" else String.concat "," (List.map ent l)

let rec pre_tokens t acc = match t with
  | Leaf -> "." :: acc
  | Node (l, k, _, s, h, r) ->
    Printf.sprintf "%d:%d:%d" (int_of_z k) (int_of_nat s) (int_of_nat h) :: pre_tokens l (pre_tokens r acc)
let rec pre_hash t h0 = match t with
  | Leaf -> hstep h0 (-1)
  | Node (l, k, _, s, h, r) ->
    pre_hash r (pre_hash l (hstep (hstep (hstep h0 (int_of_z k)) (int_of_nat s)) (int_of_nat h)))
let dump_str hash t = if hash then "#" ^ string_of_int (pre_hash t 7) else String.concat "," (pre_tokens t [])

(* ---- the cell machine (AvlHeapModel): raw fields of every live Item, by slot ------------------------ *)
let pnum (p : nat option) = match p with None -> -1 | Some a -> int_of_nat a
let lnum (p : lptr) = match p with LEnd -> -2 | LCell a -> int_of_nat a
let pstr n = if n = -1 then "-" else if n = -2 then "E" else string_of_int n
let rec slots_of t acc = match t with
  | Leaf -> acc
  | Node (l, _, _, s, _, r) -> slots_of l (int_of_nat s :: slots_of r acc)
let full_limit = 24
let cells_str (cs : cstate) (t : tree) =
  let (tt, root) = cs.ts in
  let live = List.sort compare (slots_of t []) in
  let hd = [pnum root; lnum cs.ls.l_begin; pnum cs.ls.l_eprev; int_of_nat cs.ls.l_size] in
  let cell s =
    let a = nat_of_int s in
    let c = tt a and l = cs.ls.lh a in
    [s; int_of_z c.ckey; int_of_z c.cval; pnum c.cpar; pnum c.cleft; pnum c.cright; int_of_nat c.cht; int_of_z c.cslope;
     pnum l.cprev; lnum l.cnext] in
  let cells = List.map cell live in
  if List.length live <= full_limit then
    Printf.sprintf "r=%s b=%s e=%s n=%d %s" (pstr (List.nth hd 0)) (pstr (List.nth hd 1)) (pstr (List.nth hd 2)) (List.nth hd 3)
      (if cells = [] then "-" else
         String.concat "," (List.map (fun c -> match c with
           | [s; k; v; p; l; r; h; sl; pv; nx] ->
             Printf.sprintf "%d:%d:%d:%s:%s:%s:%d:%d:%s:%s" s k v (pstr p) (pstr l) (pstr r) h sl (pstr pv) (pstr nx)
           | _ -> "?") cells))
  else
    "c#" ^ string_of_int (List.fold_left (fun h c -> List.fold_left hstep h c) (List.fold_left hstep 7 hd) cells)

(* the extracted heaps are chains of closures (one per field write); re-tabulate the live cells after
   every operation so that a look-up stays cheap (same function on the live slots) *)
let compact (cs : cstate) (t : tree) : cstate =
  let (tt, root) = cs.ts in
  let live = slots_of t [] in
  let tb = Hashtbl.create 64 and lb = Hashtbl.create 64 in
  List.iter (fun s -> let a = nat_of_int s in Hashtbl.replace tb s (tt a); Hashtbl.replace lb s (cs.ls.lh a)) live;
  let (t0, _) = cs_empty.ts and l0 = cs_empty.ls.lh in
  let tf a = (match Hashtbl.find_opt tb (int_of_nat a) with Some c -> c | None -> t0 a)
  and lf a = (match Hashtbl.find_opt lb (int_of_nat a) with Some c -> c | None -> l0 a) in
  { ts = (tf, root); ls = { cs.ls with lh = lf } }

let () =
  let mode = Sys.argv.(1) and file = Sys.argv.(2) in
  let flav = ref FMap and hash = ref false in
  let on_case cfg =
    flav := (if List.mem "multimap" cfg then FMulti else FMap);
    hash := List.mem "hash" cfg;
    (m_init, s_init, Some h_init) in
  let is_find toks = (match toks with "find" :: _ -> true | _ -> false) in
  (* operations that read the other container: its state is printed too *)
  let is_two toks = (match toks with ["copy"] | ["copyc"] | ["copys"] | ["bulk"] -> true | _ -> false) in
  if mode = "model" then
    run_cases file on_case
      (fun (st, sp, hs) _ toks ->
         let o = parse_op toks in
         let (st', (r, c)) = step !flav st o in
         let ct = m_sel st' and co = m_other st' in
         (* the cell machine runs next to the node-level model; its cells are printed raw *)
         let hs' = (match hs with
             | None -> None
             | Some h -> (match Model.hstep !flav h o with
                 | None -> None
                 | Some h' -> Some { h' with h_a = compact h'.h_a st'.m_a.tr; h_b = compact h'.h_b st'.m_b.tr })) in
         let cells which t = (match hs' with
             | None -> "!cell-fault"
             | Some h -> cells_str (which h) t) in
         emit (Printf.sprintf "%s%s%s | %d %d %s | %s ; %s%s" (res_str r)
                 (if is_find toks then Printf.sprintf " c=%d" (int_of_nat c) else "")
                 (if is_two toks then Printf.sprintf " o=%d %s" (int_of_nat co.sz) (iter_str !hash (inorder co.tr)) else "")
                 (int_of_nat ct.sz) (match ct.tr with Leaf -> 1 | _ -> 0)
                 (iter_str !hash (inorder ct.tr)) (dump_str !hash ct.tr) (cells h_sel ct.tr)
                 (if is_two toks then " / " ^ dump_str !hash co.tr ^ " ; " ^ cells h_other co.tr else ""));
         (st', sp, hs'))
      (fun _ -> ())
  else
    run_cases file on_case
      (fun (st, sp, hs) _ toks ->
         let o = parse_op toks in
         let ch = (match toks with
             | ["hintc"; _; _; _; r] -> nat_of_int (int_of_string r)   (* relational spec: check the implementation's choice *)
             | ["remkc"; _; r] -> nat_of_int (int_of_string r)
             | _ -> choice_of !flav st o) in
         let (st', _) = step !flav st o in
         let (sp', r) = spec_step !flav sp o ch in
         let l = s_sel sp' and lo = s_other sp' in
         emit (Printf.sprintf "%s%s%s | %d %d %s" (res_str r) (if is_find toks then " ?" else "")
                 (if is_two toks then Printf.sprintf " o=%d %s" (List.length lo) (iter_str !hash lo) else "")
                 (List.length l) (if l = [] then 1 else 0) (iter_str !hash l));
         (st', sp', hs))
      (fun _ -> ())
