(* model / judge driver for component Sync (C11) *)
open Model
open Zconv

let z_of_dec (s : string) : z =
  let neg = String.length s > 0 && s.[0] = '-' in
  let ten = z_of_int 10 in
  let acc = ref Z0 in
  String.iteri (fun i c -> if not (neg && i = 0) then acc := Z.add (Z.mul !acc ten) (z_of_int (Char.code c - 48))) s;
  if neg then (match !acc with Zpos p -> Zneg p | x -> x) else !acc

let split_eq s = match String.index_opt s '=' with
  | Some i -> (String.sub s 0 i, String.sub s (i + 1) (String.length s - i - 1))
  | None -> (s, "")

let parse_call tok =
  let (n, a) = split_eq tok in
  match n with
  | "sigset" -> SigSet | "sigreset" -> SigReset | "sigwait" -> SigWait | "sigwaitt" -> SigWaitT (z_of_dec a)
  | "monlock" -> MonLock | "montry" -> MonTryLock | "monunlock" -> MonUnlock | "monwait" -> MonWait
  | "monwaitt" -> MonWaitT (z_of_dec a) | "monset" -> MonSet
  | "lock" -> MtxLock | "trylock" -> MtxTryLock | "unlock" -> MtxUnlock
  | "semsignal" -> SemSignal | "semwait" -> SemWait | "semwaitt" -> SemWaitT (z_of_dec a) | "semtry" -> SemTryWait
  | "start" -> ThStart (nat_of_int (int_of_string a)) | "join" -> ThJoin (nat_of_int (int_of_string a))
  | "startf" -> ThStartF (nat_of_int (int_of_string a))      (* Thread::start whose pthread_create fails *)
  | "csenter" -> CsEnter | "csleave" -> CsLeave
  | _ -> failwith ("bad call " ^ tok)

let call_str c = match c with
  | SigSet -> "sigset" | SigReset -> "sigreset" | SigWait -> "sigwait" | SigWaitT ms -> "sigwaitt=" ^ dec_of_z ms
  | MonLock -> "monlock" | MonTryLock -> "montry" | MonUnlock -> "monunlock" | MonWait -> "monwait"
  | MonWaitT ms -> "monwaitt=" ^ dec_of_z ms | MonSet -> "monset"
  | MtxLock -> "lock" | MtxTryLock -> "trylock" | MtxUnlock -> "unlock"
  | SemSignal -> "semsignal" | SemWait -> "semwait" | SemWaitT ms -> "semwaitt=" ^ dec_of_z ms | SemTryWait -> "semtry"
  | ThStart c -> "start=" ^ string_of_int (int_of_nat c) | ThJoin c -> "join=" ^ string_of_int (int_of_nat c)
  | ThStartF c -> "startf=" ^ string_of_int (int_of_nat c)
  | CsEnter -> "csenter" | CsLeave -> "csleave"

let ev_str e = match e with
  | EvRet (t, c, v) -> Printf.sprintf "r%d:%s:%s" (int_of_nat t) (call_str c) (dec_of_z v)
  | EvSigWrite (t, b) -> Printf.sprintf "S%d:%d" (int_of_nat t) (if b then 1 else 0)
  | EvMonSet t -> Printf.sprintf "M%d" (int_of_nat t)
  | EvTimedFalse (t, c, s, n) -> Printf.sprintf "F%d:%s:%s:%s" (int_of_nat t) (call_str c) (dec_of_z s) (dec_of_z n)
  | EvJoin (t, c, v) -> Printf.sprintf "J%d:%d:%s" (int_of_nat t) (int_of_nat c) (dec_of_z v)
  | EvExit (t, v) -> Printf.sprintf "X%d:%s" (int_of_nat t) (dec_of_z v)

let parse_ev tok =
  let parts = Array.of_list (String.split_on_char ':' tok) in
  let k = tok.[0] in
  let t = nat_of_int (int_of_string (String.sub parts.(0) 1 (String.length parts.(0) - 1))) in
  match k with
  | 'r' -> EvRet (t, parse_call parts.(1), z_of_dec parts.(2))
  | 'S' -> EvSigWrite (t, parts.(1) = "1")
  | 'M' -> EvMonSet t
  | 'F' -> EvTimedFalse (t, parse_call parts.(1), z_of_dec parts.(2), z_of_dec parts.(3))
  | 'J' -> EvJoin (t, nat_of_int (int_of_string parts.(1)), z_of_dec parts.(2))
  | 'X' -> EvExit (t, z_of_dec parts.(1))
  | _ -> failwith ("bad event " ^ tok)

let dl_str d = let (s, ns) = d in "@" ^ dec_of_z s ^ "." ^ dec_of_z ns
let odl_str o = match o with Some d -> dl_str d | None -> ""
let pend_str c = match c with
  | PYield -> "idle"
  | PLock m -> "lock" ^ string_of_int (int_of_nat m)
  | PTryLock m -> "try" ^ string_of_int (int_of_nat m)
  | PUnlock m -> "unlock" ^ string_of_int (int_of_nat m)
  | PCondWait (c, m, dl) -> Printf.sprintf "cw%d.%d%s" (int_of_nat c) (int_of_nat m) (odl_str dl)
  | PSignal c -> "sig" ^ string_of_int (int_of_nat c)
  | PBroadcast c -> "bc" ^ string_of_int (int_of_nat c)
  | PSemWait (s, dl) -> Printf.sprintf "sw%d%s" (int_of_nat s) (odl_str dl)
  | PSemTry s -> "st" ^ string_of_int (int_of_nat s)
  | PSemPost s -> "post" ^ string_of_int (int_of_nat s)
  | PCreate c -> "create" ^ string_of_int (int_of_nat c)
  | PJoin c -> "join" ^ string_of_int (int_of_nat c)

let stat_str s = match s with
  | TNotStarted -> "N" | TRun -> "R"
  | TCondBlocked (c, _, _) -> "C" ^ string_of_int (int_of_nat c)
  | TWoken (_, rc, _) -> "W" ^ dec_of_z rc
  | TDone v -> "D" ^ dec_of_z v
  | TFault -> "F"

let has_pending s = match s with TNotStarted | TDone _ | TFault -> false | _ -> true

type cs = { mutable n : int; mutable sig0 : bool; mutable sem0 : z; mutable auto : bool;
            mutable scripts : (int * libcall list) list; mutable results : (int * z) list;
            mutable w : world option; mutable shown : int }

let get_world c = match c.w with
  | Some w -> w
  | None ->
    let scripts t = (try List.assoc (int_of_nat t) c.scripts with Not_found -> []) in
    let started t = let i = int_of_nat t in i = 0 || (c.auto && i < c.n) in
    let results t = (try List.assoc (int_of_nat t) c.results with Not_found -> Z.add (z_of_int 100) (z_of_int (int_of_nat t))) in
    let w = init scripts results started c.sig0 c.sem0 in
    c.w <- Some w; w

let thread_tok w i =
  let t = nat_of_int i in
  let s = w.ps.st t in
  Printf.sprintf "%s:%s:%s" (stat_str s)
    (if has_pending s then pend_str (pending (w.tc t).pc) else "-")
    (if enabled w t then "e" else "b")

let mtx_tok w m =
  let x = w.ps.mtx (nat_of_int m) in
  match x.m_owner with
  | None -> Printf.sprintf "o%d=-" m
  | Some o -> Printf.sprintf "o%d=%dx%d" m (int_of_nat o) (int_of_nat x.m_cnt)

let q_tok w c =
  let q = w.ps.cnd (nat_of_int c) in
  Printf.sprintf "q%d=%s" c (if q = [] then "-" else String.concat "," (List.map (fun t -> string_of_int (int_of_nat t)) q))

let rec take k l = if k <= 0 then [] else match l with [] -> [] | h :: t -> h :: take (k - 1) t

(* S<t>:<b> is printed only when the flag changed value in this move, M<t> only when Monitor's flag went
   from false to true: that is what the harness can see in the objects' memory *)
let show c mvtext w0 w =
  let tr = w.trace in
  let fresh = List.rev (take (List.length tr - c.shown) tr) in
  c.shown <- List.length tr;
  let fresh = List.filter (fun e -> match e with
      | EvSigWrite (_, _) -> w0.sigf <> w.sigf
      | _ -> true) fresh in
  (* every Monitor::set that passed its critical section is shown as P<t> (after M<t> when the flag changed value) *)
  let ev_strs e = match e with
    | EvMonSet t -> (if w.monf && not w0.monf then [ev_str e] else []) @ [Printf.sprintf "P%d" (int_of_nat t)]
    | _ -> [ev_str e] in
  let evs = if fresh = [] then "-" else String.concat " " (List.concat_map ev_strs fresh) in
  let ths = String.concat " " (List.init c.n (fun i -> thread_tok w i)) in
  emit (Printf.sprintf "%s | %s | %s | sf=%d mf=%d occ=%s sem=%s %s %s %s %s %s now=%s" mvtext evs ths
          (if w.sigf then 1 else 0) (if w.monf then 1 else 0) (dec_of_z w.occ) (dec_of_z (w.ps.sem O))
          (mtx_tok w 0) (mtx_tok w 1) (mtx_tok w 2) (q_tok w 0) (q_tok w 1) (dec_of_z w.ps.now))

let apply c mvtext mv =
  let w0 = get_world c in
  let w = step w0 mv in
  c.w <- Some w; show c mvtext w0 w

let z_le a b = match Z.compare a b with Gt -> false | _ -> true

let drain c =
  let fuel = ref 400 in
  let continue = ref true in
  while !continue && !fuel > 0 do
    decr fuel;
    let w = get_world c in
    let en = List.filter (fun i -> enabled w (nat_of_int i)) (List.init c.n (fun i -> i)) in
    match en with
    | i :: _ -> apply c (Printf.sprintf "run %d" i) (Run (nat_of_int i))
    | [] ->
      let timed i =
        let t = nat_of_int i in
        match w.ps.st t with
        | TCondBlocked (_, _, Some d) -> Some d
        | TRun -> (match (w.tc t).pc with SemWaitTP d when dl_valid d -> Some d | _ -> None)
        | _ -> None in
      (match List.filter (fun i -> timed i <> None) (List.init c.n (fun i -> i)) with
       | i :: _ ->
         let d = (match timed i with Some d -> d | None -> assert false) in
         let tot = dl_total d in
         if not (z_le tot w.ps.now) then apply c ("clock " ^ dec_of_z tot) (Clock tot);
         apply c (Printf.sprintf "tmo %d" i) (Timeout (nat_of_int i))
       | [] -> continue := false)
  done;
  let w = get_world c in
  let stuck = List.filter (fun i -> match w.ps.st (nat_of_int i) with TDone _ | TNotStarted -> false | _ -> true)
      (List.init c.n (fun i -> i)) in
  emit ("final | " ^ (if stuck = [] then "done" else "stuck:" ^ String.concat "," (List.map string_of_int stuck)))

let model_main file =
  run_cases file
    (fun cfg ->
       let a = Array.of_list cfg in
       let g i d = if Array.length a > i then a.(i) else d in
       { n = int_of_string (g 0 "2"); sig0 = (g 1 "0" = "1"); sem0 = z_of_dec (g 2 "0"); auto = (g 3 "0" = "1");
         scripts = []; results = []; w = None; shown = 0 })
    (fun c _ toks ->
       (match toks with
        | "t" :: i :: ops ->
          (match c.w with
           | None -> c.scripts <- (int_of_string i, List.map parse_call ops) :: List.remove_assoc (int_of_string i) c.scripts
           | Some _ -> emit "?script-after-move")
        | ["r"; i; v] ->
          (match c.w with
           | None -> c.results <- (int_of_string i, z_of_dec v) :: List.remove_assoc (int_of_string i) c.results
           | Some _ -> emit "?script-after-move")
        | ["m"; "run"; i] -> apply c ("run " ^ i) (Run (nat_of_int (int_of_string i)))
        | ["m"; "spur"; i] -> apply c ("spur " ^ i) (Spurious (nat_of_int (int_of_string i)))
        | ["m"; "tmo"; i] -> apply c ("tmo " ^ i) (Timeout (nat_of_int (int_of_string i)))
        | ["m"; "steal"; i] -> apply c ("steal " ^ i) (TimeoutSteal (nat_of_int (int_of_string i)))
        | ["m"; "clock"; v] -> apply c ("clock " ^ v) (Clock (z_of_dec v))
        | ["m"; "rot"; i] -> apply c ("rot " ^ i) (Rotate (nat_of_int (int_of_string i)))
        | ["drain"] -> drain c
        | ["dl"; s; ns; ms] ->
          let (a, b) = deadline (z_of_dec s) (z_of_dec ns) (z_of_dec ms) in
          List.iter (fun k -> emit (Printf.sprintf "dl %s %s %s" k (dec_of_z a) (dec_of_z b))) ["sig"; "mon"; "sem"]
        | _ -> emit ("?bad-op " ^ List.hd toks));
       c)
    (fun _ -> ())

(* judge: file of cases  `case k sig0 sem0` / `e <events chronological…>` / `end`  ->  `<k> ok` | `<k> FAIL <names>` *)
let judge_main file =
  let names = ["sig_ok"; "mon_ok"; "sem_ok"; "mtx_ok"; "timed_ok"; "join_ok"] in
  run_cases file
    (fun cfg -> let a = Array.of_list cfg in (a.(0) = "1", z_of_dec a.(1), ref [], ref []))
    (fun (s0, v0, evs, dlbad) _ toks ->
       (match toks with
        | "e" :: l -> List.iter (fun tok -> evs := parse_ev tok :: !evs) l
        | "dl" :: s :: ns :: ms :: a :: b :: [] ->
          (* "return false only after their timeout has expired": the abstime handed to the OS (for timeouts >= 0) must be
             a valid timespec (0 <= tv_nsec < 10^9: otherwise the primitive answers EINVAL at once and the wait returns
             false before its timeout) that is NOT EARLIER than start + timeout.  A later deadline is inside the text; that
             the code computes exactly start + timeout is compared with the model (correspondence), not judged here.
             -1 -1 = the wait returned without calling its timed primitive: too early unless the timeout is 0 *)
          let msz = z_of_dec ms and az = z_of_dec a and bz = z_of_dec b in
          let (x, y) = spec_deadline (z_of_dec s) (z_of_dec ns) msz in
          let nsq = z_of_dec "1000000000" in
          let lt p q = Z.compare p q = Lt in
          let missing = (a = "-1" && b = "-1") in
          let bad =
            if lt msz Z0 then false
            else if missing then Z.compare msz Z0 = Gt
            else lt bz Z0 || not (lt bz nsq) || lt (Z.add (Z.mul az nsq) bz) (Z.add (Z.mul x nsq) y) in
          if bad
          then dlbad := Printf.sprintf "deadline(%s.%s+%sms)=%s.%s,must-be-valid-and-not-before=%s.%s" s ns ms a b (dec_of_z x) (dec_of_z y) :: !dlbad
        | _ -> ());
       (s0, v0, evs, dlbad))
    (fun (s0, v0, evs, dlbad) ->
       let res = all_ok s0 v0 !evs in
       let bad = List.filter_map (fun (n, b) -> if b then None else Some n) (List.combine names res) in
       let bad = bad @ (match List.rev !dlbad with [] -> [] | x :: _ -> [x]) in
       emit (if bad = [] then "ok" else "FAIL " ^ String.concat "," bad))

(* ---- schedule generation (not part of the tie: only chooses which schedules are run) ----
   gen: reads cases whose last op is  `walk <seed> <steps> <pspur%> <ptmo%>`  or  `enum <depth> <spurs> <tmos> <maxleaves>`
   (tmos bounds timeouts and timeout-steals together)
   and prints an ops file with explicit moves (one case per walk, one per enumerated maximal schedule). *)
let blocked_cond w i = match w.ps.st (nat_of_int i) with TCondBlocked (_, _, _) -> true | _ -> false
let sem_waiting w i = let t = nat_of_int i in
  (match w.ps.st t with TRun -> (match (w.tc t).pc with SemWaitP | SemWaitTP _ -> true | _ -> false) | _ -> false)
let timed_of w i =
  let t = nat_of_int i in
  match w.ps.st t with
  | TCondBlocked (_, _, Some d) -> Some d
  | TRun -> (match (w.tc t).pc with SemWaitTP d when dl_valid d -> Some d | _ -> None)
  | _ -> None

(* a timed condition waiter that has been woken and has not yet re-acquired its mutex: candidate of TimeoutSteal *)
let woken_timed w i =
  match w.ps.st (nat_of_int i) with
  | TWoken (_, _, Some d) -> Some d
  | _ -> None

let z_pred x = Z.add x (Zneg XH)

let gen_main file =
  let outcase = ref 0 in
  let print_case cfg tlines moves =
    Printf.printf "case %d %s\n" !outcase (String.concat " " cfg); incr outcase;
    List.iter print_endline tlines;
    List.iter print_endline moves;
    print_endline "drain"; print_endline "end" in
  let mk_state cfg tl =
    let a = Array.of_list cfg in
    let g i d = if Array.length a > i then a.(i) else d in
    let c = { n = int_of_string (g 0 "2"); sig0 = (g 1 "0" = "1"); sem0 = z_of_dec (g 2 "0"); auto = (g 3 "0" = "1");
              scripts = []; results = []; w = None; shown = 0 } in
    List.iter (fun l -> match tokens l with
        | "t" :: i :: ops -> c.scripts <- (int_of_string i, List.map parse_call ops) :: c.scripts
        | ["r"; i; v] -> c.results <- (int_of_string i, z_of_dec v) :: c.results
        | _ -> ()) tl;
    c in
  let ids c = List.init c.n (fun i -> i) in
  let walk cfg tl pre seed steps pspur ptmo =
    let c = mk_state cfg tl in
    let rs = Random.State.make [| seed |] in
    let w = ref (get_world c) in
    let out = ref [] in
    let mv text m = out := text :: !out; w := step !w m in
    List.iter (fun l -> match tokens l with
        | ["m"; "clock"; v] -> mv l (Clock (z_of_dec v))
        | ["m"; "run"; i] -> mv l (Run (nat_of_int (int_of_string i)))
        | _ -> ()) pre;
    let pick l = List.nth l (Random.State.int rs (List.length l)) in
    (try
      for _ = 1 to steps do
        let en = List.filter (fun i -> enabled !w (nat_of_int i)) (ids c) in
        let bl = List.filter (fun i -> blocked_cond !w i || sem_waiting !w i) (ids c) in
        let tm = List.filter (fun i -> timed_of !w i <> None) (ids c) in
        let r = Random.State.int rs 100 in
        let do_tmo () =
          let i = pick tm in
          let d = (match timed_of !w i with Some d -> d | None -> assert false) in
          let tot = dl_total d in
          (match Random.State.int rs 4 with
           | 0 -> (* one nanosecond early: the timeout move must be a no-op *)
             let e = z_pred tot in
             mv ("m clock " ^ dec_of_z e) (Clock e); mv (Printf.sprintf "m tmo %d" i) (Timeout (nat_of_int i))
           | _ -> ());
          mv ("m clock " ^ dec_of_z tot) (Clock tot); mv (Printf.sprintf "m tmo %d" i) (Timeout (nat_of_int i)) in
        let wk = List.filter (fun i -> woken_timed !w i <> None) (ids c) in
        let do_steal () =
          let i = pick wk in
          let d = (match woken_timed !w i with Some d -> d | None -> assert false) in
          let tot = dl_total d in
          (match Random.State.int rs 4 with
           | 0 -> (* one nanosecond early: the steal move must be a no-op *)
             let e = z_pred tot in
             mv ("m clock " ^ dec_of_z e) (Clock e); mv (Printf.sprintf "m steal %d" i) (TimeoutSteal (nat_of_int i))
           | _ -> ());
          mv ("m clock " ^ dec_of_z tot) (Clock tot); mv (Printf.sprintf "m steal %d" i) (TimeoutSteal (nat_of_int i)) in
        if wk <> [] && ptmo > 0 && Random.State.int rs 100 < 35 then do_steal ()
        else if r < pspur && bl <> [] then (let i = pick bl in mv (Printf.sprintf "m spur %d" i) (Spurious (nat_of_int i)))
        else if r < pspur + ptmo && tm <> [] then do_tmo ()
        else if r < pspur + ptmo + 4 then (let q = Random.State.int rs 2 in mv (Printf.sprintf "m rot %d" q) (Rotate (nat_of_int q)))
        else if r < pspur + ptmo + 7 then (let i = pick (ids c) in mv (Printf.sprintf "m run %d" i) (Run (nat_of_int i)))
        else if r < pspur + ptmo + 9 then (let i = pick (ids c) in mv (Printf.sprintf "m tmo %d" i) (Timeout (nat_of_int i)))
        else if r < pspur + ptmo + 10 then (let i = pick (ids c) in mv (Printf.sprintf "m steal %d" i) (TimeoutSteal (nat_of_int i)))
        else if en <> [] then (let i = pick en in mv (Printf.sprintf "m run %d" i) (Run (nat_of_int i)))
        else if tm <> [] then do_tmo ()
        else if bl <> [] && Random.State.int rs 3 = 0 then (let i = pick bl in mv (Printf.sprintf "m spur %d" i) (Spurious (nat_of_int i)))
        else raise Exit
      done
    with Exit -> ());
    print_case cfg tl (List.rev !out) in
  let enum cfg tl pre depth spurs tmos maxleaves =
    let c = mk_state cfg tl in
    let leaves = ref 0 in
    let w0 = ref (get_world c) in
    let pre_moves = ref [] in
    List.iter (fun l -> match tokens l with
        | ["m"; "clock"; v] -> pre_moves := l :: !pre_moves; w0 := step !w0 (Clock (z_of_dec v))
        | ["m"; "run"; i] -> pre_moves := l :: !pre_moves; w0 := step !w0 (Run (nat_of_int (int_of_string i)))
        | ["m"; "rot"; i] -> pre_moves := l :: !pre_moves; w0 := step !w0 (Rotate (nat_of_int (int_of_string i)))
        | _ -> ()) pre;
    let rec go w acc d sp tm =
      if !leaves < maxleaves then begin
        let en = List.filter (fun i -> enabled w (nat_of_int i)) (ids c) in
        let choices = ref [] in
        if d > 0 then begin
          List.iter (fun i -> choices := `R i :: !choices) en;
          if sp > 0 then List.iter (fun i -> if blocked_cond w i || sem_waiting w i then choices := `S i :: !choices) (ids c);
          if tm > 0 then List.iter (fun i -> if timed_of w i <> None then choices := `T i :: !choices) (ids c);
          if tm > 0 then List.iter (fun i -> if woken_timed w i <> None then choices := `X i :: !choices) (ids c)
        end;
        if !choices = [] then (incr leaves; print_case cfg tl (List.rev acc))
        else List.iter (fun ch -> match ch with
            | `R i -> go (step w (Run (nat_of_int i))) (Printf.sprintf "m run %d" i :: acc) (d - 1) sp tm
            | `S i -> go (step w (Spurious (nat_of_int i))) (Printf.sprintf "m spur %d" i :: acc) (d - 1) (sp - 1) tm
            | `T i ->
              let dd = (match timed_of w i with Some x -> x | None -> assert false) in
              let tot = dl_total dd in
              let w1 = step (step w (Clock tot)) (Timeout (nat_of_int i)) in
              go w1 (Printf.sprintf "m tmo %d" i :: ("m clock " ^ dec_of_z tot) :: acc) (d - 1) sp (tm - 1)
            | `X i ->
              let dd = (match woken_timed w i with Some x -> x | None -> assert false) in
              let tot = dl_total dd in
              let w1 = step (step w (Clock tot)) (TimeoutSteal (nat_of_int i)) in
              go w1 (Printf.sprintf "m steal %d" i :: ("m clock " ^ dec_of_z tot) :: acc) (d - 1) sp (tm - 1))
            (List.rev !choices)
      end in
    go !w0 !pre_moves depth spurs tmos in
  (* read the input file by hand: case / lines / end *)
  let ic = open_in file in
  let cfg = ref [] and tl = ref [] and pre = ref [] in
  (try
    while true do
      let line = input_line ic in
      match tokens line with
      | "case" :: _ :: c -> cfg := c; tl := []; pre := []
      | "t" :: _ | "r" :: _ -> tl := line :: !tl
      | "m" :: _ -> pre := line :: !pre
      | ["walk"; seed; steps; ps; pt] ->
        walk !cfg (List.rev !tl) (List.rev !pre) (int_of_string seed) (int_of_string steps) (int_of_string ps) (int_of_string pt)
      | ["enum"; d; sp; tm; mx] ->
        enum !cfg (List.rev !tl) (List.rev !pre) (int_of_string d) (int_of_string sp) (int_of_string tm) (int_of_string mx)
      | _ -> ()
    done
  with End_of_file -> ());
  close_in ic

let () =
  let mode = Sys.argv.(1) and file = Sys.argv.(2) in
  if mode = "model" then model_main file
  else if mode = "judge" then judge_main file
  else if mode = "gen" then gen_main file
  else failwith "mode"
