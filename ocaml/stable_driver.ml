(* model / judge driver for component Stable (C05)
     driver model <ops>    the extracted Model: one observation line per op
     driver judge <file>   the extracted Spec checker run over OBSERVATIONS (of the implementation):
                           file = case <n> <kind> <cap> / op <op line> / obs <sections 2,3 of the line> / end *)
open Model
open Zconv

let kind_of = function
  | "list" -> KList | "map" -> KMap | "multimap" -> KMulti | "hashmap" -> KHashMap
  | "hashset" -> KHashSet | "poollist" -> KPoolList | "poolmap" -> KPoolMap
  | s -> failwith ("bad kind: " ^ s)

let parse_cfg cfg = match cfg with
  | k :: c :: _ -> (kind_of k, nat_of_int (int_of_string c))
  | [k] -> (kind_of k, nat_of_int 5)
  | [] -> (KList, nat_of_int 5)

let zi s = z_of_int (int_of_string s)
let ni s = nat_of_int (int_of_string s)

(* [cur] = the container selected at this point (needed for the operations that are no-ops of the model) *)
let parse_op ?(cur = false) toks = match toks with
  | ["sel"; b] -> OSel (b = "1")
  | ["selfassign"] -> OSel cur                     (* x = x: operator= returns at once; nothing may change *)
  | ["app"; k; v] -> OApp (zi k, zi v)
  | ["appn"; _; k; v] -> OApp (zi k, zi v)         (* the 0 / 2..7-argument forms of PoolList::append: same effect *)
  | ["rmval"; p] -> ORemAt (ni p)                  (* remove(const T&) / remove(const V&) through the recorded address *)
  | ["pre"; k; v] -> OPre (zi k, zi v)
  | ["insat"; p; k; v] -> OInsAt (ni p, zi k, zi v)
  | ["rmat"; p] -> ORemAt (ni p)
  | ["rmfront"] -> ORemFront
  | ["rmback"] -> ORemBack
  | ["rmkey"; k] -> ORemKey (zi k)
  | ["clear"] -> OClear
  | ["swap"] -> OSwap
  | ["assign"] -> OAssign
  | ["destroy"] -> ODestroy
  (* whole-container operations (argument: the other container) and the hinted insert *)
  | ["appl"] -> OInsAll None                       (* List::append / HashSet::append / Map::insert (const C&) *)
  | ["prel"] -> OInsAll (Some (nat_of_int 0))      (* List::prepend(const List&) *)
  | ["insl"; p] -> OInsAll (Some (ni p))           (* List::insert(position, const List&) *)
  | ["rmall"] -> ORemAll                           (* HashSet::remove(const HashSet&) *)
  | ["hint"; p; k; v] -> OHint (ni p, zi k, zi v)  (* Map::insert(position, key, value) *)
  | _ -> failwith ("bad op: " ^ String.concat " " toks)

let join sep f l = if l = [] then "-" else String.concat sep (List.map f l)
let slot_str (a, b) = Printf.sprintf "%d.%d" (int_of_nat a) (int_of_nat b)
let node_str n = Printf.sprintf "%d:%d:%d@%s" (int_of_nat n.n_id) (int_of_z n.n_key) (int_of_z n.n_val) (slot_str n.n_slot)
let event_str = function
  | ECons (i, s) -> Printf.sprintf "n%d@%s" (int_of_nat i) (slot_str s)
  | ECopy (i, s) -> Printf.sprintf "c%d@%s" (int_of_nat i) (slot_str s)
  | EMove (i, s) -> Printf.sprintf "m%d@%s" (int_of_nat i) (slot_str s)
  | EAssign i -> Printf.sprintf "=%d" (int_of_nat i)
  | EDestroy (i, s) -> Printf.sprintf "d%d@%s" (int_of_nat i) (slot_str s)
  | EAlloc s -> Printf.sprintf "A%d" (int_of_nat s)
  | EFree s -> Printf.sprintf "F%d" (int_of_nat s)

let rec tree_str t = match t with
  | Leaf -> "."
  | Node (l, n, h, r) -> Printf.sprintf "[%d/%d,%s,%s]" (int_of_nat n.n_id) (int_of_nat h) (tree_str l) (tree_str r)

let id_of_slot l s =
  match List.find_opt (fun n -> slot_eqb n.n_slot s) l with Some n -> string_of_int (int_of_nat n.n_id) | None -> "?"

let body_str b = match b with
  | BSeq _ -> "-"
  | BTree t -> tree_str t
  | BHash (l, hd) ->
    Printf.sprintf "%d;%s;%s" (int_of_nat hd.h_cap)
      (match hd.h_data with None -> "-" | Some d -> string_of_int (int_of_nat d))
      (String.concat "/" (List.map (fun ch -> String.concat "." (List.map (id_of_slot l) ch)) hd.h_chains))

let cont_int c =
  Printf.sprintf "f=%s b=%s s=%s" (join "," slot_str c.c_pool.p_free)
    (join "," (fun s -> string_of_int (int_of_nat s)) c.c_pool.p_blocks) (body_str c.c_body)


(* ---- the cell machine (StableHeap.v) rendered like the node-level model ---- *)
let hdr_int k hp h =
  let fr = free_walk hp (nat_of_int 300) h.hd_free in
  let body =
    if is_hashk k then begin
      let ids_of_chain d b =
        let rec go fuel p acc = if fuel = 0 then List.rev acc else match p with
          | PItem s -> go (fuel - 1) (hget hp s).c_nextcell ((match (hget hp s).c_obj with Some o -> string_of_int (int_of_nat o.o_id) | None -> "?") :: acc)
          | _ -> List.rev acc in
        go 300 (hget hp (d, nat_of_int b)).c_nextcell [] in
      let cap = int_of_nat h.hd_cap in
      match h.hd_data with
      | None -> Printf.sprintf "%d;-;" cap
      | Some d -> Printf.sprintf "%d;%d;%s" cap (int_of_nat d)
                    (String.concat "/" (List.init cap (fun b -> String.concat "." (ids_of_chain d b))))
    end else "-" in
  Printf.sprintf "f=%s b=%s s=%s" (join "," slot_str fr) (join "," (fun s -> string_of_int (int_of_nat s)) h.hd_blocks) body

let ptr_str = function PNull -> "0" | PEnd false -> "E0" | PEnd true -> "E1" | PItem sl -> slot_str sl
let ptrs_of k hp h =
  let its = lelems hp h in
  Printf.sprintf "b=%s,l=%s,n=%d;%s" (ptr_str h.hd_begin) (ptr_str h.hd_last) (int_of_nat h.hd_size)
    (String.concat "," (List.map (fun n ->
         let c = hget hp n.n_slot in
         Printf.sprintf "%d:%s>%s%s" (int_of_nat n.n_id) (ptr_str c.c_prev) (ptr_str c.c_next)
           (if is_hashk k then Printf.sprintf ":%s>%s" (slot_str c.c_cell) (ptr_str c.c_nextcell) else "")) its))

(* ---- parsing observations back (judge mode) ---- *)
let parse_slot s = match String.split_on_char '.' s with
  | [a; b] -> (nat_of_int (int_of_string a), nat_of_int (int_of_string b))
  | _ -> failwith ("bad slot " ^ s)
let parse_node s =
  match String.split_on_char '@' s with
  | [a; sl] -> (match String.split_on_char ':' a with
      | [i; k; v] -> { n_id = ni i; n_slot = parse_slot sl; n_key = zi k; n_val = zi v }
      | _ -> failwith ("bad node " ^ s))
  | _ -> failwith ("bad node " ^ s)
let parse_list f s = if s = "-" then [] else List.map f (String.split_on_char ',' s)
let parse_event s =
  let rest = String.sub s 1 (String.length s - 1) in
  let two mk = match String.split_on_char '@' rest with
    | [i; sl] -> mk (ni i) (parse_slot sl) | _ -> failwith ("bad event " ^ s) in
  match s.[0] with
  | 'n' -> two (fun i s -> ECons (i, s))
  | 'c' -> two (fun i s -> ECopy (i, s))
  | 'm' -> two (fun i s -> EMove (i, s))
  | 'd' -> two (fun i s -> EDestroy (i, s))
  | '=' -> EAssign (ni rest)
  | 'A' -> EAlloc (ni rest)
  | 'F' -> EFree (ni rest)
  | _ -> failwith ("bad event " ^ s)

let strip_prefix p s =
  let n = String.length p in
  if String.length s >= n && String.sub s 0 n = p then String.sub s n (String.length s - n) else failwith ("expected " ^ p ^ " in " ^ s)

(* negative serial (address outside every live allocation) is mapped to a huge serial so that the
   checker sees a place no block has *)
let sanitize s = Str.global_replace (Str.regexp "@-1\\.-?[0-9]+") "@999999.0" s

let explain kd st o now ev =
  let prev = st.ss_obs in
  let all_prev = app prev.ob_a prev.ob_b in
  let bad = ref [] in
  let look side same oth assignable =
    List.iter (fun n ->
        if not (elem_ok kd o assignable st.ss_next ev same oth n) then
          (match lookup_id all_prev n.n_id with
           | Some p -> bad := Printf.sprintf "element %s of %s was %s before the operation" (node_str n) side (node_str p) :: !bad
           | None -> bad := Printf.sprintf "element %s of %s appeared without being constructed there in this operation" (node_str n) side :: !bad)) in
  (match o with
   | OSwap -> if not (nodes_eqb now.ob_a prev.ob_b && nodes_eqb now.ob_b prev.ob_a) then
       bad := "swap did not hand the element sequences over unchanged (same objects at the same places)" :: !bad
   | _ -> look "A" prev.ob_a prev.ob_b (not st.ss_cur) now.ob_a; look "B" prev.ob_b prev.ob_a st.ss_cur now.ob_b;
     let untouched = if st.ss_cur then nodes_eqb now.ob_a prev.ob_a else nodes_eqb now.ob_b prev.ob_b in
     if not untouched then bad := "the other container changed" :: !bad;
     let (ps, po, ns) = if st.ss_cur then (prev.ob_b, prev.ob_a, now.ob_b) else (prev.ob_a, prev.ob_b, now.ob_a) in
     if not (removed_ok kd o ps po ns) then begin
       let over = match removal_budget o with Some b -> int_of_nat (length (missing ps ns)) > int_of_nat b | None -> false in
       if over then
         bad := Printf.sprintf "%d element(s) of the selected container disappeared (%s) although this operation removes %s"
             (int_of_nat (length (missing ps ns))) (join "," node_str (missing ps ns))
             (match removal_budget o with Some O -> "none" | _ -> "at most one") :: !bad
       else
         bad := Printf.sprintf "the operation removed %s, which is not the element it names" (join "," node_str (missing ps ns)) :: !bad
     end);
  List.iter (fun e -> if not (destroy_ok all_prev st.ss_next e) then bad := ("destructor event " ^ event_str e ^ " does not name a live element at its place") :: !bad) ev;
  if is_pool kd && not (List.for_all pool_event_ok ev) then bad := "a pool container copied, moved or assigned an element" :: !bad;
  let alln = app now.ob_a now.ob_b in
  if List.exists (fun e -> not (free_ok o alln e)) ev then
    bad := "an allocation that holds a live element was released" :: !bad;
  if not (nodup_slot (List.map (fun n -> n.n_slot) alln)) then bad := "two live elements share a place" :: !bad;
  if not (nodup_nat (List.map (fun n -> n.n_id) alln)) then bad := "one object is listed twice" :: !bad;
  match !bad with [] -> "check_step = false" | l -> String.concat "; " (List.rev l)

let () =
  let mode = Sys.argv.(1) and file = Sys.argv.(2) in
  if mode = "model" then
    (* the node-level model; for List, PoolList, HashMap, HashSet and PoolMap the cell machine runs alongside: its
       own rendering of the line must be the model's (proved: cell_machine_trace) and it supplies the pointer section *)
    run_cases file (fun cfg -> let (k, cap) = parse_cfg cfg in (k, cap, init k cap, linit cap))
      (fun (k, cap, st, lst) _ toks ->
         let o = parse_op ~cur:st.s_cur toks in
         let (st', ev) = step k cap st o in
         let line = Printf.sprintf "n=%d stale=0 findbad=0 | A=%s B=%s | ev=%s | A:%s B:%s"
                 (int_of_nat (length (elems (sel st'))))
                 (join "," node_str (elems st'.s_a)) (join "," node_str (elems st'.s_b))
                 (join "," event_str ev) (cont_int st'.s_a) (cont_int st'.s_b) in
         if heap_kind k then begin
           let (lst', lev) = lstep k cap lst o in
           let ob = lobserve lst' in
           let lline = Printf.sprintf "n=%d stale=0 findbad=0 | A=%s B=%s | ev=%s | A:%s B:%s"
               (int_of_nat (lsel lst').hd_size)
               (join "," node_str ob.ob_a) (join "," node_str ob.ob_b)
               (join "," event_str lev) (hdr_int k lst'.l_heap lst'.l_a) (hdr_int k lst'.l_heap lst'.l_b) in
           emit (Printf.sprintf "%s | P A:%s B:%s%s" line (ptrs_of k lst'.l_heap lst'.l_a) (ptrs_of k lst'.l_heap lst'.l_b)
                   (if lline = line then "" else " CELL-MACHINE-DIFFERS: " ^ lline));
           (k, cap, st', lst')
         end else begin
           emit (line ^ " | P A:- B:-");
           (k, cap, st', lst)
         end)
      (fun _ -> ())
  else if mode = "heap" then
    run_cases file (fun cfg -> let (k, cap) = parse_cfg cfg in (k, cap, linit cap))
      (fun (k, cap, st) _ toks ->
         let (st', ev) = lstep k cap st (parse_op ~cur:st.l_cur toks) in
         let ob = lobserve st' in
         emit (Printf.sprintf "n=%d stale=0 findbad=0 | A=%s B=%s | ev=%s | A:%s B:%s"
                 (int_of_nat (lsel st').hd_size)
                 (join "," node_str ob.ob_a) (join "," node_str ob.ob_b)
                 (join "," event_str ev) (hdr_int k st'.l_heap st'.l_a) (hdr_int k st'.l_heap st'.l_b));
         (k, cap, st'))
      (fun _ -> ())
  else if mode = "judge" then begin
    (* state: kind, spec state, pending op, op index, verdict *)
    let pending = ref None in
    run_cases file (fun cfg -> let (k, _) = parse_cfg cfg in pending := None; (k, ss_init, 0, None))
      (fun (k, st, i, verdict) _ toks ->
         match toks with
         | "op" :: rest -> pending := Some (parse_op ~cur:st.ss_cur rest, String.concat " " rest); (k, st, i, verdict)
         | "crash" :: rest ->
           let v = match verdict with None -> Some (Printf.sprintf "fail %d the implementation ended with `%s`" i (String.concat " " rest)) | v -> v in
           (k, st, i, v)
         | "obs" :: a :: b :: "|" :: e :: _ ->
           (match !pending, verdict with
            | Some (o, otxt), None ->
              (try
                 let a = sanitize a and b = sanitize b and e = sanitize e in
                 let now = { ob_a = parse_list parse_node (strip_prefix "A=" a); ob_b = parse_list parse_node (strip_prefix "B=" b) } in
                 let ev = parse_list parse_event (strip_prefix "ev=" e) in
                 if check_step k st o now ev then (k, next_sstate st o now, i + 1, None)
                 else (k, st, i + 1, Some (Printf.sprintf "fail %d op `%s`: %s" i otxt (explain k st o now ev)))
               with Failure m -> (k, st, i + 1, Some (Printf.sprintf "fail %d op `%s`: unreadable observation (%s)" i otxt m)))
            | _, _ -> (k, st, i + 1, verdict))
         | _ -> (k, st, i, (match verdict with None -> Some (Printf.sprintf "fail %d malformed observation line" i) | v -> v)))
      (fun (_, _, _, verdict) -> emit (match verdict with None -> "ok" | Some v -> v))
  end else failwith "mode"
