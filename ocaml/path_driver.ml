(* model / spec driver for component Path (C19): part A path functions, part B file system *)
open Model
open Zconv

let hx = hex_of_bytes
let b01 b = if b then "1" else "0"

let path_op mode toks =
  match mode, toks with
  | `Model, ["parts"; p] ->
      let p = bytes_of_hex p in
      emit (Printf.sprintf "%s %s %s %s" (hx (getDirectoryName p)) (hx (getBaseName p [])) (hx (getStem p [])) (hx (getExtension p)))
  | `Spec, ["parts"; p] ->
      let p = bytes_of_hex p in
      emit (Printf.sprintf "%s %s %s %s" (hx (spec_dir p)) (hx (spec_base p)) (hx (spec_stem p)) (hx (spec_ext p)))
  | `Model, ["basex"; p; e] ->
      let p = bytes_of_hex p and e = bytes_of_hex e in
      emit (Printf.sprintf "%s %s" (hx (getBaseName p e)) (hx (getStem p e)))
  | `Spec, ["basex"; p; e] ->
      let p = bytes_of_hex p and e = bytes_of_hex e in
      let r = if e = [] then spec_stem p else spec_base_ext p e in
      emit (Printf.sprintf "%s %s" (hx (spec_base_ext p e)) (hx r))
  | `Model, ["simp"; p] ->
      let p = bytes_of_hex p in
      let s1 = simplifyPath p in
      emit (Printf.sprintf "%s %s" (hx s1) (hx (simplifyPath s1)))
  | `Spec, ["simp"; p] ->
      let c = canon (bytes_of_hex p) in
      emit (Printf.sprintf "%s %s" (hx c) (hx c))
  | `Model, ["abs"; p] -> emit (b01 (isAbsolutePath (bytes_of_hex p)))
  | `Spec, ["abs"; p] -> emit (b01 (spec_is_absolute (bytes_of_hex p)))
  | `Model, ["rel"; f; t] ->
      let f = bytes_of_hex f and t = bytes_of_hex t in
      let r = getRelativePath f t in
      emit (Printf.sprintf "%s %s" (hx r) (hx (simplifyPath (rel_joined f r))))
  | `Spec, ["rel"; f; t] ->
      let f = bytes_of_hex f and t = bytes_of_hex t in
      (* whenever a lexical answer exists (same kind, `from` keeps no more leading ".." than `to`): from + answer denotes `to` *)
      if rel_hyp_wide f t then emit (Printf.sprintf "? %s" (hx (canon t))) else emit "? ?"
  | _ -> failwith ("bad op: " ^ String.concat " " toks)

(* ---- part B ------------------------------------------------------------------------------ *)

let text (s : str) : string = String.concat "" (List.map (fun c -> String.make 1 (Char.chr ((int_of_z c) land 255))) s)

let crc32 (l : int list) : int =
  let c = ref 0xffffffff in
  List.iter (fun b ->
    c := !c lxor b;
    for _ = 0 to 7 do c := (!c lsr 1) lxor (0xedb88320 land (- (!c land 1))) done) l;
  (lnot !c) land 0xffffffff

(* byte strings longer than 128 bytes are shown as #<length>.<crc32> *)
let render (l : z list) : string =
  let n = List.length l in
  if n <= 128 then hx l else Printf.sprintf "#%d.%08x" n (crc32 (List.map int_of_z l))

(* the deterministic byte pattern of mkfbig / writebig *)
let pat seed i = (seed * 17 + i * 131 + (i lsr 8) * 7 + (i lsr 16) * 3) land 255
let big seed n : z list = List.init n (fun i -> z_of_int (pat seed i))

(* canonical listing of the whole tree: one token per entry, sorted; the guard directories
   g1/g2/g3 are not listed themselves and their prefix is dropped *)
let snapshot (r : node) : string =
  let acc = ref [] in
  let rec go prefix n =
    match n with
    | NDir es ->
        List.iter (fun (k, ch) ->
          let p = if prefix = "" then text k else prefix ^ "/" ^ text k in
          (match ch with
           | NDir _ -> acc := (p ^ ":d") :: !acc
           | NFile c -> acc := (p ^ ":f:" ^ render c) :: !acc
           | NLink t -> acc := (p ^ ":l:" ^ render t) :: !acc);
          go p ch) es
    | _ -> () in
  go "" r;
  let strip s =
    let g = "g1/g2/g3/" in
    let n = String.length g in
    if String.length s > n && String.sub s 0 n = g then Some (String.sub s n (String.length s - n))
    else if s = "g1:d" || s = "g1/g2:d" || s = "g1/g2/g3:d" then None
    else Some ("!" ^ s) in
  let l = List.sort compare (List.filter_map strip !acc) in
  if l = [] then "-" else String.concat " " l

let handles_text (st : state) : string =
  let l = List.sort compare (List.map (fun (h, f) -> if f.fd_dir then Printf.sprintf "h%d@dir" (int_of_nat h)
                                               else Printf.sprintf "h%d@%d" (int_of_nat h) (int_of_nat f.fd_pos)) st.handles) in
  if l = [] then "-" else String.concat " " l

let is_dir_handle st h = match hfind st.handles h with Some f -> f.fd_dir | None -> false
let is_open st h = match hfind st.handles h with Some _ -> true | None -> false

(* probes: the name, in the snapshot, of what a path text (or a descriptor) denotes for the kernel *)
let cpath_text (p : cpath) : string =
  match List.map text p with
  | "g1" :: "g2" :: "g3" :: (_ :: _ as rest) -> String.concat "/" rest
  | [] -> "!."
  | names -> "!" ^ String.concat "/" names

(* A text that ends in a separator must lead to a directory, and a link in last position is then
   followed even by lstat.  The kernel model ignores a trailing separator (right for the operations
   generated with one: Directory::create / unlink / exists); for the probe the rule is applied here. *)
let probe st follow path =
  let trailing = (match List.rev path with c :: _ :: _ -> int_of_z c = 47 | _ -> false) in
  match resolve st (follow || trailing) path with
  | WAt (d, nm, Some SFile) when trailing -> "-"
  | WAt (d, nm, Some _) -> cpath_text (d @ [nm])
  | WDir (d, _) -> cpath_text d
  | _ -> "-"

(* the place a path text names: its directory part resolved, plus the last component when that is a
   proper name (the same textual rule as in the harness) *)
let place st (path : str) : string =
  let s = text path in
  let n = String.length s in
  let cut = ref n in
  while !cut > 0 && s.[!cut - 1] <> '/' do decr cut done;
  let base = String.sub s !cut (n - !cut) in
  let dir =
    if !cut = 0 then "." else begin
      let k = ref !cut in
      while !k > 1 && s.[!k - 1] = '/' do decr k done;
      String.sub s 0 !k end in
  let str_of (x : string) : str = List.init (String.length x) (fun i -> z_of_int (Char.code x.[i])) in
  if base = "" || base = "." || base = ".." then "-"
  else
    let dpath = match resolve st true (str_of dir) with
      | WAt (d, nm, Some SDir) -> Some (d @ [nm])
      | WDir (d, _) -> Some d
      | _ -> None in
    match dpath with
    | Some d -> cpath_text (d @ [str_of base])
    | None -> "-"

(* outcomes of the sendfile calls of the next copy (op `inject`): -1 fails, n >= 0 moves at most n bytes *)
let oracle : xfer list ref = ref []

(* which system call of the next dunlink / purge fails (op `fault n`) *)
let fault : nat option ref = ref None

(* the Directory objects of the case (ops dopen / dreadall / dclose) *)
let dirs : dirh option array = Array.make 4 None

let reset_case () = oracle := []; fault := None; Array.fill dirs 0 4 None

let entries_text (l : (str * bool) list) : string =
  let toks = List.sort compare (List.map (fun (nm, d) -> (if nm = [] then "-" else hx nm) ^ (if d then ":d" else ":f")) l) in
  if toks = [] then "-" else String.concat " " toks

(* read() until false, then two more reads: how many say true *)
let read_all_text st cur =
  let (cur1, l) = d_read_all (read_all_fuel cur) st cur in
  let (cur2, r1) = d_read st cur1 in
  let (cur3, r2) = d_read st cur2 in
  let more = (match r1 with Some _ -> 1 | None -> 0) + (match r2 with Some _ -> 1 | None -> 0) in
  (cur3, Printf.sprintf "%s end=%d" (entries_text l) more)

let str_of_string (x : string) : str = List.init (String.length x) (fun i -> z_of_int (Char.code x.[i]))

(* a relative text of plain names through real directories (the class of the purge theorem):
   Some (names, c) when the text is names/c of that class *)
let plain_class (st : state) (path : str) : (str list * str) option =
  let s = text path in
  if s = "" || String.contains s '\\' then None else
  let parts = String.split_on_char '/' s in
  if List.exists (fun x -> x = "" || x = "." || x = "..") parts then None else
  let names = List.map str_of_string parts in
  let rec real d = function
    | [] -> true
    | n :: t -> (match get st.root (d @ [n]) with Some (NDir _) -> real (d @ [n]) t | _ -> false) in
  if real st.cwd names then
    (match List.rev names with c :: up -> Some (List.rev up, c) | [] -> None)
  else None

(* how many entries of the outcome list the transfer loop of a copy of `left` bytes takes: one per
   sendfile call, until nothing is left or a call fails / moves nothing (FsModel.xfer_loop) *)
let rec xfer_used (orc : xfer list) (left : int) : int =
  if left <= 0 then 0 else
  match orc with
  | [] -> 0
  | XFail :: _ -> 1
  | XAtMost n :: t -> let k = min (int_of_nat n) left in if k = 0 then 1 else 1 + xfer_used t (left - k)

(* the model's prediction of the harness probe x: the loop is reached exactly when the copy succeeds with
   every transfer complete; it then starts with the size of the source *)
let copy_used (orc : xfer list) (st : state) (a : str) (b : str) (fie : bool) : int =
  if orc = [] || not (snd (f_copy_o [] st a b fie)) then 0 else
  match resolve st true a with
  | WAt (d, nm, Some SFile) -> xfer_used orc (List.length (content_at st.root (d @ [nm])))
  | _ -> 0

(* was the armed fault consumed: the oracle was Some _ before the operation and is None after it *)
let fired (o : faults) (o' : faults) : bool = match o, o' with Some _, None -> true | _ -> false

let fs_op (mode : [`Model | `Spec]) (st : state) toks : state =
  (* ~cond:true (Spec mode only): the operation ran with an injected outcome / an armed fault.  The text
     fixes the outcome only as far as the fault is not consumed: the line carries the fault-free
     expectation behind the token F; the judge (checks/C19.py) takes it when the harness reports that no
     injected outcome reached the library, and otherwise judges this operation and the rest of the case by
     the order-independent reading of the text (fs_text_judge).  Which call fails and what is left behind
     then is the model's prediction only (Model mode, compared for correspondence). *)
  (* ~indep:true (Spec mode only): the line was computed from the Coq Spec (FsSpec / FsListSpec / the kernel look-up), not
     by running the Model.  Every other Spec-mode line is the Model's answer and carries the token M: the judge does not
     count a difference there as a failure of the property (the property oracle for these operations is the reading of the
     text in checks/C19.py fs_text_judge); it stops consulting the Spec for the rest of the case, and the difference is
     reported as model/implementation correspondence. *)
  let fin ?(pre = []) ?(post = []) ?(cond = false) ?(indep = false) st' res =
    (match mode with
     | `Model ->
         let ps = pre @ List.map (fun (k, follow, path) -> k ^ "=" ^ probe st' follow path) post in
         emit (Printf.sprintf "%s | %s | %s | %s" res (snapshot st'.root) (handles_text st')
                 (if ps = [] then "-" else String.concat " " ps))
     | `Spec -> emit (Printf.sprintf "%s%s%s | %s" (if indep then "" else "M ") (if cond then "F " else "") res (snapshot st'.root)));
    st' in
  let e01 e = match e with None -> "1" | Some _ -> "0" in
  let p = bytes_of_hex in
  let nat s = nat_of_int (int_of_string s) in
  let now k follow path = k ^ "=" ^ probe st follow path in
  let tprobe h = match hfind st.handles (nat h) with Some f -> ["t=" ^ cpath_text f.fd_path] | None -> [] in
  match toks with
  | ["mkd"; a] -> let (s, e) = k_mkdir st (p a) in fin s (e01 e)
  | ["mkf"; a; c] -> let (s, e) = k_mkfile st (p a) (p c) in fin s (e01 e)
  | ["mkfbig"; a; seed; n] -> let (s, e) = k_mkfile st (p a) (big (int_of_string seed) (int_of_string n)) in fin s (e01 e)
  | ["mkl"; t; a] -> let (s, e) = k_symlink st (p t) (p a) in fin s (e01 e)
  | "inject" :: ks ->
      oracle := List.map (fun k -> let k = int_of_string k in if k < 0 then XFail else XAtMost (nat_of_int k)) ks;
      fin st "-"
  | ["open"; h; a; fl] ->
      let fl = int_of_string fl in
      let (s, b) = f_open st (nat h) (p a) (fl land 1 <> 0) (fl land 2 <> 0) (fl land 4 <> 0) (fl land 8 <> 0) in
      fin ~pre:["p=" ^ place st (p a)] ~post:["d", true, p a] s (b01 b)
  | ["close"; h] -> fin (f_close st (nat h)) "-"
  | [("write" | "read" | "readall" | "seek" | "size" | "flush"); h] | [("write" | "read" | "readall" | "seek" | "size" | "writebig"); h; _]
  | [("write" | "read" | "readall" | "seek" | "size" | "writebig"); h; _; _]
    when not (is_open st (nat h)) -> fin st "?closed"
  | [("size" | "seek" | "read" | "write"); h] | [("size" | "seek" | "read" | "write" | "writebig"); h; _]
  | [("size" | "seek" | "read" | "write" | "writebig"); h; _; _]
    when is_dir_handle st (nat h) -> fin st "?dir"
  | ["write"; h; d] -> let (s, b) = f_write st (nat h) (p d) in fin ~pre:(tprobe h) s (b01 b)
  | ["writebig"; h; seed; n] ->
      let (s, b) = f_write st (nat h) (big (int_of_string seed) (int_of_string n)) in fin ~pre:(tprobe h) s (b01 b)
  | ["read"; h; n] ->
      let (s, r) = f_read st (nat h) (nat n) in
      fin ~pre:(tprobe h) s (match r with Inl d -> render d | Inr _ -> "-1")
  | ["readall"; h] -> let (s, (b, d)) = f_readAll st (nat h) in fin ~pre:(tprobe h) s (b01 b ^ " " ^ render d)
  | ["seek"; h; off; wh] ->
      let (s, z) = f_seek st (nat h) (z_of_int (int_of_string off)) (nat wh) in fin ~pre:(tprobe h) s (dec_of_z z)
  | ["size"; h] -> let (s, z) = f_size st (nat h) in fin ~pre:(tprobe h) s (dec_of_z z)
  | ["flush"; h] -> let (s, b) = f_flush st (nat h) in fin ~pre:(tprobe h) s (b01 b)
  | ["readallp"; a] ->
      (match mode with
       | `Model -> let (s, (b, d)) = f_readAll_path st (p a) in fin ~pre:[now "s" true (p a)] s (b01 b ^ " " ^ render d)
       | `Spec ->
           (* the text: the bytes of the regular file the path leads to; failure for anything else; nothing changes *)
           (match resolve st true (p a) with
            | WAt (d, nm, Some SFile) ->
                (match get st.root (d @ [nm]) with
                 | Some (NFile c) -> fin ~indep:true st ("1 " ^ render c)
                 | _ -> fin ~indep:true st "0 -")
            | _ -> fin ~indep:true st "0 -"))
  | ["fexists"; a] -> fin ~pre:[now "s" false (p a)] st (b01 (f_exists st (p a)))
  | ["cwd"] -> fin st (hx (cwd_text st))
  | ["abspath"; a] ->
      let r = (match mode with
               | `Model -> f_absolute st (p a)
               | `Spec -> if spec_is_absolute (p a) then p a else cwd_text st @ (z_of_int 47 :: p a)) in
      let same fl = if probe st fl r = probe st fl (p a) &&
                       ((match resolve st fl r with WErr _ -> 0 | WAt (_, _, None) -> 0 | _ -> 1)
                        = (match resolve st fl (p a) with WErr _ -> 0 | WAt (_, _, None) -> 0 | _ -> 1)) then "1" else "0" in
      (match mode with
       | `Model -> fin st (Printf.sprintf "%s %s %s" (hx r) (same true) (same false))
       | `Spec -> fin ~indep:true st (Printf.sprintf "%s %s %s" (hx r) (if p a = [] then "?" else "1") (if p a = [] then "?" else "1")))
  | ["chdir"; a] -> let (s, b) = d_change st (p a) in fin ~pre:[now "s" true (p a)] s (b01 b)
  | ["dlist"; a; pat; only] ->
      let pre = [now "s" true (open_text (p a))] in
      (match mode with
       | `Model ->
           let (cur, ok) = d_open st None (p a) (p pat) (only = "1") in
           if not ok then fin ~pre st "0"
           else let (_, t) = read_all_text st cur in fin ~pre st ("1 " ^ t)
       | `Spec ->
           (match spec_list st (p a) (p pat) (only = "1") with
            | None -> fin ~indep:true st "0"
            | Some l -> fin ~indep:true st (Printf.sprintf "1 %s end=0" (entries_text l))))
  | ["dopen"; k; a; pat; only] ->
      let k = (int_of_string k) land 3 in
      let (cur, ok) = d_open st dirs.(k) (p a) (p pat) (only = "1") in
      dirs.(k) <- cur;
      fin ~pre:[now "s" true (open_text (p a))] st (b01 ok)
  | ["dreadall"; k] ->
      let k = (int_of_string k) land 3 in
      let (cur, t) = read_all_text st dirs.(k) in
      dirs.(k) <- cur;
      fin st ("r " ^ t)
  | ["dclose"; k] -> let k = (int_of_string k) land 3 in dirs.(k) <- d_close dirs.(k); fin st "-"
  | ["fault"; n] -> fault := Some (nat n); fin st "-"
  | ["purge"; a; r] ->
      let o = !fault in fault := None;
      let armed = (o <> None) in
      let o = (match mode with `Spec -> None | `Model -> o) in      (* the Spec line is the fault-free one (token F) *)
      let (s, b) = d_purge_o (unlink_fuel st) o st (p a) (r = "1") in
      let (s, indep) = (match mode, o, b, plain_class st (p a) with
               | `Spec, None, true, Some (names, c) ->
                   (* the text, for a relative path of plain names: the directory is cut out, and so is every
                      ancestor below the current directory that this leaves empty *)
                   ({ s with root = purged st.root st.cwd names c }, true)
               | _ -> (s, false)) in
      (* the oracle after the operation: what d_purge_o does, call by call *)
      let o' = (let ((s1, ok), o1) = d_unlink_o (unlink_fuel st) o st (p a) (r = "1") in
                if ok then snd (purge_up_o (S (length (p a))) o1 s1 (getDirectoryName (p a))) else o1) in
      fin ~cond:armed ~indep ~pre:[now "s" false (p a); "ff=" ^ b01 (fired o o'); "?"] s (b01 b ^ " " ^ b01 (d_exists s (p a)))
  | ["funlink"; a] -> let (s, b) = f_unlink st (p a) in fin ~pre:[now "s" false (p a)] s (b01 b)
  | ["symlink"; t; a] -> let (s, b) = f_symlink st (p t) (p a) in fin ~post:["d", false, p a] s (b01 b)
  | ["rename"; a; b; fie] ->
      let (s, r) = f_rename st (p a) (p b) (fie = "1") in
      fin ~pre:[now "s" false (p a); now "e" false (p b); "p=" ^ place st (p b)] ~post:["d", false, p b] s (b01 r)
  | ["copy"; a; b; fie] ->
      let orc = !oracle in
      oracle := [];
      let armed = (orc <> []) in
      let orc = (match mode with `Spec -> [] | `Model -> orc) in     (* the Spec line is the one without injected outcomes (token F) *)
      let (s, r) = f_copy_o orc st (p a) (p b) (fie = "1") in
      fin ~cond:armed
        ~pre:[now "s" true (p a); now "e" true (p b); now "l" false (p b); Printf.sprintf "x=%d" (copy_used orc st (p a) (p b) (fie = "1"))]
        ~post:["d", true, p b] s (b01 r)
  | ["exists"; a] -> fin ~pre:[now "s" true (p a)] st (b01 (d_exists st (p a)))
  | ["create"; a] ->
      let (s, b) = d_create (create_fuel (p a)) st (p a) in
      (* second token: does the directory exist afterwards (the clause of the property) *)
      fin ~post:["d", true, p a] s (b01 b ^ " " ^ b01 (d_exists s (p a)))
  | ["dunlink"; a; r] ->
      let o = !fault in fault := None;
      let armed = (o <> None) in
      let o = (match mode with `Spec -> None | `Model -> o) in      (* the Spec line is the fault-free one (token F) *)
      let ((s, b), o') = (match o with
                          | None -> (d_unlink (unlink_fuel st) st (p a) (r = "1"), None)
                          | Some _ -> d_unlink_o (unlink_fuel st) o st (p a) (r = "1")) in
      fin ~cond:armed ~pre:[now "s" false (p a); "ff=" ^ b01 (fired o o'); "?"] s (b01 b ^ " " ^ b01 (d_exists s (p a)))
  | _ -> failwith ("bad op: " ^ String.concat " " toks)

let () =
  let mode = Sys.argv.(1) and file = Sys.argv.(2) in
  let m = if mode = "model" then `Model else `Spec in
  run_cases file (fun _ -> reset_case (); init_state)
    (fun st _ toks ->
       match toks with
       | ("parts" | "basex" | "simp" | "abs" | "rel") :: _ -> path_op m toks; st
       | _ -> fs_op m st toks)
    (fun _ -> ())
