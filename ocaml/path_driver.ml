(* model / spec driver for component Path (C19): part A path functions, part B file system *)
open Model
open Zconv

let hx = hex_of_bytes
let b01 b = if b then "1" else "0"

let path_op mode toks =
  match mode, toks with
  | `Model, ["parts"; p] ->
      let p = bytes_of_hex p in
      emit (Printf.sprintf "%s %s %s %s" (hx (getDirectoryName p)) (hx (getBaseName p [])) (hx (getStem p [])) (hx (getExtension p)))
  | `Spec, ["parts"; p] ->
      let p = bytes_of_hex p in
      emit (Printf.sprintf "%s %s %s %s" (hx (spec_dir p)) (hx (spec_base p)) (hx (spec_stem p)) (hx (spec_ext p)))
  | `Model, ["basex"; p; e] ->
      let p = bytes_of_hex p and e = bytes_of_hex e in
      emit (Printf.sprintf "%s %s" (hx (getBaseName p e)) (hx (getStem p e)))
  | `Spec, ["basex"; p; e] ->
      let p = bytes_of_hex p and e = bytes_of_hex e in
      let r = if e = [] then spec_stem p else spec_base_ext p e in
      emit (Printf.sprintf "%s %s" (hx (spec_base_ext p e)) (hx r))
  | `Model, ["simp"; p] ->
      let p = bytes_of_hex p in
      let s1 = simplifyPath p in
      emit (Printf.sprintf "%s %s" (hx s1) (hx (simplifyPath s1)))
  | `Spec, ["simp"; p] ->
      let c = canon (bytes_of_hex p) in
      emit (Printf.sprintf "%s %s" (hx c) (hx c))
  | `Model, ["abs"; p] -> emit (b01 (isAbsolutePath (bytes_of_hex p)))
  | `Spec, ["abs"; p] -> emit (b01 (spec_is_absolute (bytes_of_hex p)))
  | `Model, ["rel"; f; t] ->
      let f = bytes_of_hex f and t = bytes_of_hex t in
      let r = getRelativePath f t in
      emit (Printf.sprintf "%s %s" (hx r) (hx (simplifyPath (rel_joined f r))))
  | `Spec, ["rel"; f; t] ->
      let f = bytes_of_hex f and t = bytes_of_hex t in
      if rel_hyp f t then emit (Printf.sprintf "? %s" (hx (canon t))) else emit "? ?"
  | _ -> failwith ("bad op: " ^ String.concat " " toks)

(* ---- part B ------------------------------------------------------------------------------ *)

let text (s : str) : string = String.concat "" (List.map (fun c -> String.make 1 (Char.chr ((int_of_z c) land 255))) s)

(* canonical listing of the whole tree: one token per entry, sorted; the guard directories
   g1/g2/g3 are not listed themselves and their prefix is dropped *)
let snapshot (r : node) : string =
  let acc = ref [] in
  let rec go prefix n =
    match n with
    | NDir es ->
        List.iter (fun (k, ch) ->
          let p = if prefix = "" then text k else prefix ^ "/" ^ text k in
          (match ch with
           | NDir _ -> acc := (p ^ ":d") :: !acc
           | NFile c -> acc := (p ^ ":f:" ^ hx c) :: !acc
           | NLink t -> acc := (p ^ ":l:" ^ hx t) :: !acc);
          go p ch) es
    | _ -> () in
  go "" r;
  let strip s =
    let g = "g1/g2/g3/" in
    let n = String.length g in
    if String.length s > n && String.sub s 0 n = g then Some (String.sub s n (String.length s - n))
    else if s = "g1:d" || s = "g1/g2:d" || s = "g1/g2/g3:d" then None
    else Some ("!" ^ s) in
  let l = List.sort compare (List.filter_map strip !acc) in
  if l = [] then "-" else String.concat " " l

let handles_text (st : state) : string =
  let l = List.sort compare (List.map (fun (h, f) -> if f.fd_dir then Printf.sprintf "h%d@dir" (int_of_nat h)
                                               else Printf.sprintf "h%d@%d" (int_of_nat h) (int_of_nat f.fd_pos)) st.handles) in
  if l = [] then "-" else String.concat " " l

let is_dir_handle st h = match hfind st.handles h with Some f -> f.fd_dir | None -> false
let is_open st h = match hfind st.handles h with Some _ -> true | None -> false

let fs_op (mode : [`Model | `Spec]) (st : state) toks : state =
  let fin st' res =
    (match mode with
     | `Model -> emit (Printf.sprintf "%s | %s | %s" res (snapshot st'.root) (handles_text st'))
     | `Spec -> emit (Printf.sprintf "%s | %s" res (snapshot st'.root)));
    st' in
  let e01 e = match e with None -> "1" | Some _ -> "0" in
  let p = bytes_of_hex in
  let nat s = nat_of_int (int_of_string s) in
  match toks with
  | ["mkd"; a] -> let (s, e) = k_mkdir st (p a) in fin s (e01 e)
  | ["mkf"; a; c] -> let (s, e) = k_mkfile st (p a) (p c) in fin s (e01 e)
  | ["mkl"; t; a] -> let (s, e) = k_symlink st (p t) (p a) in fin s (e01 e)
  | ["open"; h; a; fl] ->
      let fl = int_of_string fl in
      let (s, b) = f_open st (nat h) (p a) (fl land 1 <> 0) (fl land 2 <> 0) (fl land 4 <> 0) (fl land 8 <> 0) in
      fin s (b01 b)
  | ["close"; h] -> fin (f_close st (nat h)) "-"
  | [("write" | "read" | "readall" | "seek" | "size"); h] | [("write" | "read" | "readall" | "seek" | "size"); h; _]
  | [("write" | "read" | "readall" | "seek" | "size"); h; _; _]
    when not (is_open st (nat h)) -> fin st "?closed"
  | [("readall" | "size" | "seek" | "read" | "write"); h] | [("readall" | "size" | "seek" | "read" | "write"); h; _]
  | [("readall" | "size" | "seek" | "read" | "write"); h; _; _]
    when is_dir_handle st (nat h) -> fin st "?dir"
  | ["write"; h; d] -> let (s, b) = f_write st (nat h) (p d) in fin s (b01 b)
  | ["read"; h; n] ->
      let (s, r) = f_read st (nat h) (nat n) in
      fin s (match r with Inl d -> hx d | Inr _ -> "-1")
  | ["readall"; h] -> let (s, (b, d)) = f_readAll st (nat h) in fin s (b01 b ^ " " ^ hx d)
  | ["seek"; h; off; wh] -> let (s, z) = f_seek st (nat h) (z_of_int (int_of_string off)) (nat wh) in fin s (dec_of_z z)
  | ["size"; h] -> let (s, z) = f_size st (nat h) in fin s (dec_of_z z)
  | ["funlink"; a] -> let (s, b) = f_unlink st (p a) in fin s (b01 b)
  | ["symlink"; t; a] -> let (s, b) = f_symlink st (p t) (p a) in fin s (b01 b)
  | ["rename"; a; b; fie] -> let (s, r) = f_rename st (p a) (p b) (fie = "1") in fin s (b01 r)
  | ["copy"; a; b; fie] -> let (s, r) = f_copy st (p a) (p b) (fie = "1") in fin s (b01 r)
  | ["exists"; a] -> fin st (b01 (d_exists st (p a)))
  | ["create"; a] ->
      let (s, b) = d_create (create_fuel (p a)) st (p a) in
      (* second token: does the directory exist afterwards (the clause of the property) *)
      fin s (b01 b ^ " " ^ b01 (d_exists s (p a)))
  | ["dunlink"; a; r] ->
      let (s, b) = d_unlink (unlink_fuel st) st (p a) (r = "1") in
      fin s (b01 b ^ " " ^ b01 (d_exists s (p a)))
  | _ -> failwith ("bad op: " ^ String.concat " " toks)

let () =
  let mode = Sys.argv.(1) and file = Sys.argv.(2) in
  let m = if mode = "model" then `Model else `Spec in
  run_cases file (fun _ -> init_state)
    (fun st _ toks ->
       match toks with
       | ("parts" | "basex" | "simp" | "abs" | "rel") :: _ -> path_op m toks; st
       | _ -> fs_op m st toks)
    (fun _ -> ())
