(* model / spec driver for component Path (C19): part A path functions, part B file system *)
open Model
open Zconv

let hx = hex_of_bytes
let b01 b = if b then "1" else "0"

let path_op mode toks =
  match mode, toks with
  | `Model, ["parts"; p] ->
      let p = bytes_of_hex p in
      emit (Printf.sprintf "%s %s %s %s" (hx (getDirectoryName p)) (hx (getBaseName p [])) (hx (getStem p [])) (hx (getExtension p)))
  | `Spec, ["parts"; p] ->
      let p = bytes_of_hex p in
      emit (Printf.sprintf "%s %s %s %s" (hx (spec_dir p)) (hx (spec_base p)) (hx (spec_stem p)) (hx (spec_ext p)))
  | `Model, ["basex"; p; e] ->
      let p = bytes_of_hex p and e = bytes_of_hex e in
      emit (Printf.sprintf "%s %s" (hx (getBaseName p e)) (hx (getStem p e)))
  | `Spec, ["basex"; p; e] ->
      let p = bytes_of_hex p and e = bytes_of_hex e in
      let r = if e = [] then spec_stem p else spec_base_ext p e in
      emit (Printf.sprintf "%s %s" (hx (spec_base_ext p e)) (hx r))
  | `Model, ["simp"; p] ->
      let p = bytes_of_hex p in
      let s1 = simplifyPath p in
      emit (Printf.sprintf "%s %s" (hx s1) (hx (simplifyPath s1)))
  | `Spec, ["simp"; p] ->
      let c = canon (bytes_of_hex p) in
      emit (Printf.sprintf "%s %s" (hx c) (hx c))
  | `Model, ["abs"; p] -> emit (b01 (isAbsolutePath (bytes_of_hex p)))
  | `Spec, ["abs"; p] -> emit (b01 (spec_is_absolute (bytes_of_hex p)))
  | `Model, ["rel"; f; t] ->
      let f = bytes_of_hex f and t = bytes_of_hex t in
      let r = getRelativePath f t in
      emit (Printf.sprintf "%s %s" (hx r) (hx (simplifyPath (rel_joined f r))))
  | `Spec, ["rel"; f; t] ->
      let f = bytes_of_hex f and t = bytes_of_hex t in
      if rel_hyp f t then emit (Printf.sprintf "? %s" (hx (canon t))) else emit "? ?"
  | _ -> failwith ("bad op: " ^ String.concat " " toks)

let () =
  let mode = Sys.argv.(1) and file = Sys.argv.(2) in
  let m = if mode = "model" then `Model else `Spec in
  run_cases file (fun _ -> ())
    (fun () _ toks -> path_op m toks)
    (fun _ -> ())
