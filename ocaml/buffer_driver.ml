(* model / spec driver for component Buffer (C08) *)
open Model
open Zconv

let nat s = nat_of_int (int_of_string s)

(* every usize: a decimal string up to 2^64-1 -> the extracted binary N (no native 64-bit arithmetic:
   long division of the digit string by 2) *)
let n_of_dec (s : string) : n =
  let digits = ref (List.init (String.length s) (fun i -> Char.code s.[i] - 48)) in
  List.iter (fun d -> if d < 0 || d > 9 then failwith ("bad number: " ^ s)) !digits;
  let bits = ref [] in                                     (* least significant first *)
  while List.exists (fun d -> d <> 0) !digits do
    let rem = ref 0 in
    digits := List.map (fun d -> let v = !rem * 10 + d in rem := v land 1; v lsr 1) !digits;
    bits := !rem :: !bits
  done;
  (* !bits is most significant first *)
  match !bits with
  | [] -> N0
  | _ :: rest -> Npos (List.fold_left (fun p b -> if b = 1 then XI p else XO p) XH rest)

let parse_op toks = match toks with
  | ["new"] -> ONew
  | ["newcap"; n] -> ONewCap (n_of_dec n)
  | ["newdata"; h] -> ONewData (bytes_of_hex h)
  | ["newcopy"; w] -> ONewCopy (nat w)
  | ["attach"; v; h] -> OAttach (nat v, bytes_of_hex h)
  | ["asg"; v; w] -> OAsg (nat v, nat w)
  | ["assign"; v; h] -> OAssign (nat v, bytes_of_hex h)
  | ["prepend"; v; h] -> OPrepend (nat v, bytes_of_hex h)
  | ["prependb"; v; w] -> OPrependB (nat v, nat w)
  | ["append"; v; h] -> OAppend (nat v, bytes_of_hex h)
  | ["appendb"; v; w] -> OAppendB (nat v, nat w)
  | ["resize"; v; n] -> OResize (nat v, n_of_dec n)
  | ["reserve"; v; n] -> OReserve (nat v, n_of_dec n)
  | ["rmfront"; v; n] -> ORemoveFront (nat v, n_of_dec n)
  | ["rmback"; v; n] -> ORemoveBack (nat v, n_of_dec n)
  | ["clear"; v] -> OClear (nat v)
  | ["free"; v] -> OFree (nat v)
  | ["swap"; v; w] -> OSwap (nat v, nat w)
  | ["eq"; v; w] -> OEq (nat v, nat w)
  | ["appendat"; v; off; n] -> OAppendAt (nat v, nat off, nat n)
  | ["assignat"; v; off; n] -> OAssignAt (nat v, nat off, nat n)
  | ["prependat"; v; off; n] -> OPrependAt (nat v, nat off, nat n)
  | _ -> failwith ("bad op: " ^ String.concat " " toks)

let res_str r = match r with None -> "-" | Some true -> "1" | Some false -> "0"
(* an answer the model/spec leaves open is printed as the wildcard *)
let ans_str is_eq r = match r with None -> if is_eq then "?" else "-" | Some true -> "1" | Some false -> "0"

let cell_str c = match c with None -> "?" | Some b -> Printf.sprintf "%02x" ((int_of_z b) land 255)
let cells_str l = String.concat "" (List.map (fun c -> cell_str c ^ " ") l)

let err_str e = match e with
  | OutOfBounds -> "OutOfBounds" | WriteForeign -> "WriteForeign" | Overlap -> "Overlap"
  | BadState -> "BadState" | BadArg -> "BadArg" | AllocFail -> "AllocFail"

let pub_model (w : buf list) =
  "G=ok" ^ String.concat "" (List.map (fun b ->
    let d = exposed b in
    let t = match owns b, after_end b with
      | false, _ -> "T=ok"
      | true, Some (Some Z0) -> "T=ok"
      | true, _ -> "T=bad" in
    Printf.sprintf " [ %d : %s%s ]" (List.length d) (cells_str d) t) w)

(* live= : the number of blocks obtained from new[] and not released = the variables that own storage *)
let int_model (w : buf list) =
  Printf.sprintf "R=ok live=%d" (List.length (List.filter owns w)) ^ String.concat "" (List.map (fun b ->
    let at = match b.wb with
      | BOwn -> Printf.sprintf "own:%d" (int_of_nat b.start)
      | BReg r -> Printf.sprintf "reg:%d/%d" (int_of_nat b.start) (List.length r)
      | BCap v -> Printf.sprintf "cap:%d" (int_of_nat v) in
    let al = match b.own with Some a -> string_of_int (List.length a) | None -> "-" in
    Printf.sprintf " [ own=%d cap=%d at=%s alloc=%s ]" (if owns b then 1 else 0) (int_of_nat b.capf) at al) w)

let pub_spec (qs : queue list) =
  "G=ok" ^ String.concat "" (List.map (fun q ->
    Printf.sprintf " [ %d : %sT=ok ]" (List.length q) (cells_str q)) qs)

let is_eq toks = match toks with "eq" :: _ -> true | _ -> false

let () =
  let mode = Sys.argv.(1) and file = Sys.argv.(2) in
  if mode = "model" then
    run_cases file (fun _ -> Some [])
      (fun st _ toks ->
         match st with
         | None -> None
         | Some w ->
           (match step w (parse_op toks) with
            | Ok (w', r) ->
              emit (Printf.sprintf "%s | %s | %s" (ans_str (is_eq toks) r) (pub_model w') (int_model w'));
              Some w'
            | Err BadArg -> emit "! not-accepted"; None
            | Err AllocFail -> emit "! oom"; None          (* what the sanitizer run prints for a request new[] cannot satisfy *)
            | Err e -> emit ("! model:" ^ err_str e); None))
      (fun _ -> ())
  else
    run_cases file (fun _ -> Some [])
      (fun st _ toks ->
         match st with
         | None -> None
         | Some qs ->
           let o = parse_op toks in
           (match spec_step qs o with
            | SOk (qs', r) ->
              (* `?oom`: the reference keeps the queues, and an implementation may also stop here as a failed
                 request (a reserve no allocation can follow; BufferSpec.hint_unsat) - see judge in checks/C08.py *)
              emit (Printf.sprintf "%s%s | %s" (if hint_unsat o then "?oom " else "") (ans_str (is_eq toks) r) (pub_spec qs'));
              Some qs'
            | SReject -> emit "! not-accepted"; None
            | SUnsat -> emit "! oom"; None))
      (fun _ -> ())
