(* model / spec driver for component Buffer (C08) *)
open Model
open Zconv

let nat s = nat_of_int (int_of_string s)

(* Sizes are unary nat in the extracted code.  removeFront / removeBack accept every usize; an argument
   above 10^6 (in particular one near 2^64) is passed as size+1, where size = the current size of the
   variable in the model / reference state.  Justified by C08_remove_clamp / C08_spec_remove_clamp:
   any two arguments >= size give the same result. *)
let clamp_big (size_of : int -> int) toks = match toks with
  | [("rmfront" | "rmback") as o; v; n] when String.length n > 6 ->
    let sz = (try size_of (int_of_string v) with _ -> 0) in
    [o; v; string_of_int (sz + 1)]
  | _ -> toks

let parse_op toks = match toks with
  | ["new"] -> ONew
  | ["newcap"; n] -> ONewCap (nat n)
  | ["newdata"; h] -> ONewData (bytes_of_hex h)
  | ["newcopy"; w] -> ONewCopy (nat w)
  | ["attach"; v; h] -> OAttach (nat v, bytes_of_hex h)
  | ["asg"; v; w] -> OAsg (nat v, nat w)
  | ["assign"; v; h] -> OAssign (nat v, bytes_of_hex h)
  | ["prepend"; v; h] -> OPrepend (nat v, bytes_of_hex h)
  | ["prependb"; v; w] -> OPrependB (nat v, nat w)
  | ["append"; v; h] -> OAppend (nat v, bytes_of_hex h)
  | ["appendb"; v; w] -> OAppendB (nat v, nat w)
  | ["resize"; v; n] -> OResize (nat v, nat n)
  | ["reserve"; v; n] -> OReserve (nat v, nat n)
  | ["rmfront"; v; n] -> ORemoveFront (nat v, nat n)
  | ["rmback"; v; n] -> ORemoveBack (nat v, nat n)
  | ["clear"; v] -> OClear (nat v)
  | ["free"; v] -> OFree (nat v)
  | ["swap"; v; w] -> OSwap (nat v, nat w)
  | ["eq"; v; w] -> OEq (nat v, nat w)
  | _ -> failwith ("bad op: " ^ String.concat " " toks)

let res_str r = match r with None -> "-" | Some true -> "1" | Some false -> "0"
(* an answer the model/spec leaves open is printed as the wildcard *)
let ans_str is_eq r = match r with None -> if is_eq then "?" else "-" | Some true -> "1" | Some false -> "0"

let cell_str c = match c with None -> "?" | Some b -> Printf.sprintf "%02x" ((int_of_z b) land 255)
let cells_str l = String.concat "" (List.map (fun c -> cell_str c ^ " ") l)

let err_str e = match e with
  | OutOfBounds -> "OutOfBounds" | WriteForeign -> "WriteForeign" | Overlap -> "Overlap"
  | BadState -> "BadState" | BadArg -> "BadArg"

let pub_model (w : buf list) =
  "G=ok" ^ String.concat "" (List.map (fun b ->
    let d = exposed b in
    let t = match owns b, after_end b with
      | false, _ -> "T=ok"
      | true, Some (Some Z0) -> "T=ok"
      | true, _ -> "T=bad" in
    Printf.sprintf " [ %d : %s%s ]" (List.length d) (cells_str d) t) w)

let int_model (w : buf list) =
  "R=ok" ^ String.concat "" (List.map (fun b ->
    let at = match b.wb with
      | BOwn -> Printf.sprintf "own:%d" (int_of_nat b.start)
      | BReg r -> Printf.sprintf "reg:%d/%d" (int_of_nat b.start) (List.length r)
      | BCap v -> Printf.sprintf "cap:%d" (int_of_nat v) in
    let al = match b.own with Some a -> string_of_int (List.length a) | None -> "-" in
    Printf.sprintf " [ own=%d cap=%d at=%s alloc=%s ]" (if owns b then 1 else 0) (int_of_nat b.capf) at al) w)

let pub_spec (qs : queue list) =
  "G=ok" ^ String.concat "" (List.map (fun q ->
    Printf.sprintf " [ %d : %sT=ok ]" (List.length q) (cells_str q)) qs)

let is_eq toks = match toks with "eq" :: _ -> true | _ -> false

let () =
  let mode = Sys.argv.(1) and file = Sys.argv.(2) in
  if mode = "model" then
    run_cases file (fun _ -> Some [])
      (fun st _ toks ->
         match st with
         | None -> None
         | Some w ->
           let toks = clamp_big (fun v -> List.length (exposed (List.nth w v))) toks in
           (match step w (parse_op toks) with
            | Ok (w', r) ->
              emit (Printf.sprintf "%s | %s | %s" (ans_str (is_eq toks) r) (pub_model w') (int_model w'));
              Some w'
            | Err BadArg -> emit "! not-accepted"; None
            | Err e -> emit ("! model:" ^ err_str e); None))
      (fun _ -> ())
  else
    run_cases file (fun _ -> Some [])
      (fun st _ toks ->
         match st with
         | None -> None
         | Some qs ->
           let toks = clamp_big (fun v -> List.length (List.nth qs v)) toks in
           (match spec_step qs (parse_op toks) with
            | Some (qs', r) ->
              emit (Printf.sprintf "%s | %s" (ans_str (is_eq toks) r) (pub_spec qs'));
              Some qs'
            | None -> emit "! not-accepted"; None))
      (fun _ -> ())
