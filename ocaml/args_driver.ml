(* model / spec driver for component Args (C20) *)
open Model
open Zconv

type st = { mutable table : option_row list; mutable strs : z list list; mutable env : (z list * z list) list }

let row_of s = match String.split_on_char ':' s with
  | [c; name; flags] ->
    let f = int_of_string flags in
    { o_char = z_of_int (int_of_string c);
      o_name = (if name = "~" then None else Some (bytes_of_hex name));
      o_arg = f land 1 <> 0; o_optional = f land 2 <> 0 }
  | _ -> failwith ("bad table row " ^ s)

(* case <n> T <char>:<name hex or ~>:<flags> ... *)
let fresh cfg = { table = (match cfg with "T" :: rows -> List.map row_of rows | _ -> []); strs = []; env = [] }

let b2i b = if b then 1 else 0

let hexlist l = if l = [] then "none" else String.concat "," (List.map hex_of_bytes l)

let cursor_str (c : cursor) =
  Printf.sprintf "%d %d %d %d" (int_of_nat c.c_idx) (int_of_nat c.c_pos) (b2i c.c_inOpt) (b2i c.c_skipOpt)

let item_str (ch, a) = Printf.sprintf "r %d %s" (int_of_z ch) (hex_of_bytes a)

let parse_model st =
  let rec go c n =
    if n > 400 then emit "! runaway" else
    match read st.table c with
    | Oob -> emit "! oob"
    | Fuel -> emit "! timeout"
    | Ok (c', None) ->
      emit ("end | " ^ cursor_str c');
      (* read() after it returned false: twice more *)
      let again c = match read st.table c with
        | Ok (c2, r) -> emit (Printf.sprintf "again %d | %s" (if r = None then 0 else 1) (cursor_str c2)); c2
        | Oob -> emit "! oob"; c
        | Fuel -> emit "! timeout"; c in
      ignore (again (again c'))
    | Ok (c', Some it) -> emit (item_str it ^ " | " ^ cursor_str c'); go c' (n + 1)
  in go (init_cursor st.strs) 0

let parse_spec st =
  List.iter (fun it -> emit (item_str it)) (getopt_ref st.table st.strs);
  emit "end"; emit "again 0"; emit "again 0"

let words_str ws = String.concat " " (("words " ^ string_of_int (List.length ws)) :: List.map hex_of_bytes ws)

(* what the operating system part of a launch shows (computed here, not in Coq):
   norm / fd0: the child echoes its argv and environment, copies stdin as scripted, exits with the code;
   again: the same, and a second open()/start() (all four overloads) on the running Process fails with EINVAL (22);
   noexec: the executable does not exist - nothing on stdout, "<executable>: No such file or directory\n"
           on stderr, exit code EXIT_FAILURE *)
let exec_str (x : exec_call) code mode size profile =
  let out = if mode land 1 <> 0 then size else 0 and err = if mode land 2 <> 0 then size else 0 in
  if profile = "noexec" then
    Printf.sprintf "L ok argv=! env=! join=1 exit=1 running=0 out=0:ok err=%d:ok io=ok"
      (List.length x.x_program + 2 + String.length "No such file or directory" + 1)
  else
    Printf.sprintf "L ok argv=%s env=%s join=1 exit=%d running=0 out=%d:ok err=%d:ok io=ok%s"
      (hexlist x.x_args) (match x.x_env with None -> "inherit" | Some l -> hexlist l) code out err
      (if profile = "again" then " again=0:22,0:22,0:22,0:22" else "")

(* Map<String,String> hands the environment over in key order (C01); keys are compared as byte strings *)
let sort_env env = List.stable_sort (fun (k1, _) (k2, _) -> compare (List.map int_of_z k1) (List.map int_of_z k2)) env

let launch is_model st toks =
  match toks with
  | _ :: _api :: form :: _streams :: code :: mode :: size :: _seed :: first :: prof ->
    let profile = (match prof with [p] -> p | _ -> "norm") in
    let code = int_of_string code and mode = int_of_string mode and size = int_of_string size in
    let first = bytes_of_hex first in
    let st = { st with env = sort_env st.env } in
    if is_model then begin
      let r = match form with
        | "cmd" -> launch_cmdline first st.env
        | "list" -> launch_list first st.strs st.env
        | "argv0" -> launch_argv first (nat_of_int (List.length st.strs + 1)) (List.map (fun s -> Some s) st.strs @ [None]) st.env
        | _ -> launch_argv first (nat_of_int (List.length st.strs)) (List.map (fun s -> Some s) st.strs) st.env in
      match r with
      | Ok x -> emit (exec_str x code mode size profile)
      | Oob -> emit "! oob"
      | Fuel -> emit "! timeout"
    end else begin
      let x = match form with
        | "cmd" -> launch_ref_cmdline first st.env
        | "list" -> launch_ref_list first st.strs st.env
        | "argv0" -> launch_ref_argv0 first st.strs st.env
        | _ -> launch_ref_argv first st.strs st.env in
      emit (exec_str x code mode size profile)
    end
  | _ -> failwith "bad launch op"

let on_op is_model st _ toks =
  (match toks with
   | ["s"; h] -> st.strs <- st.strs @ [bytes_of_hex h]
   | ["env"; k; v] -> st.env <- st.env @ [(bytes_of_hex k, bytes_of_hex v)]
   | ["parse"] -> if st.table = [] then emit "?no-table" else if is_model then parse_model st else parse_spec st
   | ["parse0"] ->     (* Arguments(0, ...): no strings at all, not even argv[0] *)
     let st0 = { st with strs = [] } in
     if st.table = [] then emit "?no-table" else if is_model then parse_model st0 else parse_spec st0
   | ["getopt"] -> ()
   | ["split"; h] ->
     if is_model then (match split_model (bytes_of_hex h) with
         | Ok ws -> emit (words_str ws) | Oob -> emit "! oob" | Fuel -> emit "! timeout")
     else emit (words_str (split_ref (bytes_of_hex h)))
   | "launch" :: _ -> launch is_model st toks
   | _ -> failwith ("bad op: " ^ String.concat " " toks));
  st

let () =
  let mode = Sys.argv.(1) and file = Sys.argv.(2) in
  run_cases file (fun cfg -> fresh cfg) (on_op (mode = "model")) (fun _ -> ())
