(* model / spec driver for component Args (C20) *)
open Model
open Zconv

type st = { mutable table : option_row list; mutable strs : z list list; mutable env : (z list * z list) list;
            (* round 3: environment machine *)
            mutable environ : z list list; mutable emap : (z list * z list) list;
            (* round 3: Process object machine *)
            child_code : int; mutable pobj : pobj; mutable world : world; mutable lst : lstate;
            mutable death : int option;            (* wait status forced by a signal sent to the child *)
            mutable leaky : bool;                  (* a noted leak may have happened: the reference no longer says how many descriptors are open *)
            mutable signaled : int;                (* ProcessFramework::signaled: 0, -1 (flag), 1 (a dummy child was started to wake waitid) *)
            mutable wait_state : int;              (* ProcessFramework::waitState: 2 once wait() went to waitid, until an interrupt is consumed *)
            mutable next_fd : int; names : (int, string) Hashtbl.t; mutable next_name : int }

let row_of s = match String.split_on_char ':' s with
  | [c; name; flags] ->
    let f = int_of_string flags in
    { o_char = z_of_int (int_of_string c);
      o_name = (if name = "~" then None else Some (bytes_of_hex name));
      o_arg = f land 1 <> 0; o_optional = f land 2 <> 0 }
  | _ -> failwith ("bad table row " ^ s)

(* case <n> T <char>:<name hex or ~>:<flags> ... *)
let fresh cfg =
  { table = (match cfg with "T" :: rows -> List.map row_of rows | _ -> []); strs = []; env = [];
    environ = []; emap = [];
    child_code = (match cfg with "P" :: c :: _ -> int_of_string c | _ -> 0);
    pobj = pobj0; world = world0; lst = LIdle; death = None; leaky = false; signaled = 0; wait_state = 0;
    next_fd = 100; names = Hashtbl.create 16; next_name = 1 }

let b2i b = if b then 1 else 0

let hexlist l = if l = [] then "none" else String.concat "," (List.map hex_of_bytes l)

let cursor_str (c : cursor) =
  Printf.sprintf "%d %d %d %d" (int_of_nat c.c_idx) (int_of_nat c.c_pos) (b2i c.c_inOpt) (b2i c.c_skipOpt)

let item_str (ch, a) = Printf.sprintf "r %d %s" (int_of_z ch) (hex_of_bytes a)

let parse_model st =
  let rec go c n =
    if n > 4000 then emit "! runaway" else
    match read st.table c with
    | Oob -> emit "! oob"
    | Fuel -> emit "! timeout"
    | Ok (c', None) ->
      emit ("end | " ^ cursor_str c');
      (* read() after it returned false: twice more *)
      let again c = match read st.table c with
        | Ok (c2, r) -> emit (Printf.sprintf "again %d | %s" (if r = None then 0 else 1) (cursor_str c2)); c2
        | Oob -> emit "! oob"; c
        | Fuel -> emit "! timeout"; c in
      ignore (again (again c'))
    | Ok (c', Some it) -> emit (item_str it ^ " | " ^ cursor_str c'); go c' (n + 1)
  in go (init_cursor st.strs) 0

let parse_spec st =
  List.iter (fun it -> emit (item_str it)) (getopt_ref st.table st.strs);
  emit "end"; emit "again 0"; emit "again 0"

let words_str ws = String.concat " " (("words " ^ string_of_int (List.length ws)) :: List.map hex_of_bytes ws)

(* what the operating system part of a launch shows (computed here, not in Coq):
   norm / fd0: the child echoes its argv and environment, copies stdin as scripted, exits with the code;
   again: the same, and a second open()/start() (all four overloads) on the running Process is refused: each returns
          false (first section, model and reference).  The errno it leaves is not named by the property text: the
          model (the code as it is: EINVAL = 22) predicts it in a second section, the reference prints none;
   noexec: the executable does not exist - nothing on stdout, "<executable>: No such file or directory\n"
           on stderr, exit code EXIT_FAILURE *)
let exec_str ?(is_model = false) (x : exec_call) code mode size profile =
  let out = if mode land 1 <> 0 then size else 0 and err = if mode land 2 <> 0 then size else 0 in
  if profile = "noexec" then
    Printf.sprintf "L ok argv=! env=! join=1 exit=1 running=0 out=0:ok err=%d:ok io=ok"
      (List.length x.x_program + 2 + String.length "No such file or directory" + 1)
  else
    Printf.sprintf "L ok argv=%s env=%s join=1 exit=%d running=0 out=%d:ok err=%d:ok io=ok%s"
      (hexlist x.x_args) (match x.x_env with None -> "inherit" | Some l -> hexlist l) code out err
      (if profile = "again" then " again=0,0,0,0" ^ (if is_model then " | errno=22,22,22,22" else "") else "")

(* Map<String,String> hands the environment over in key order (C01); keys are compared as byte strings *)
let sort_env env = List.stable_sort (fun (k1, _) (k2, _) -> compare (List.map int_of_z k1) (List.map int_of_z k2)) env

let launch is_model st toks =
  match toks with
  | _ :: api :: form :: _streams :: code :: mode :: size :: _seed :: first :: prof ->
    let profile = (match prof with [p] -> p | _ -> "norm") in
    let code = int_of_string code and mode = int_of_string mode and size = int_of_string size in
    let first = bytes_of_hex first in
    let st = { st with env = sort_env st.env } in
    if is_model then begin
      (* one model function per entry point of the code (start.. and open.. carry their own copies of the preparation) *)
      let is_start = (api = "start") in
      let r = match form with
        | "cmd" -> if is_start then start_cmdline first st.env else launch_cmdline first st.env
        | "list" -> launch_list first st.strs st.env
        | "argv0" -> (if is_start then start_argv else launch_argv) first (nat_of_int (List.length st.strs + 1)) (List.map (fun s -> Some s) st.strs @ [None]) st.env
        | _ -> (if is_start then start_argv else launch_argv) first (nat_of_int (List.length st.strs)) (List.map (fun s -> Some s) st.strs) st.env in
      match r with
      | Ok x -> emit (exec_str ~is_model:true x code mode size profile)
      | Oob -> emit "! oob"
      | Fuel -> emit "! timeout"
    end else begin
      let x = match form with
        | "cmd" -> launch_ref_cmdline first st.env
        | "list" -> launch_ref_list first st.strs st.env
        | "argv0" -> launch_ref_argv0 first st.strs st.env
        | _ -> launch_ref_argv first st.strs st.env in
      if form = "cmd" && not (in_class first) then
        (* a command line outside the property's class (leading / trailing / doubled unquoted space, open quote):
           which words the child gets is not said *)
        emit (Printf.sprintf "L ok argv=? env=%s join=1 exit=? running=0 out=? err=? io=ok%s"
                (match x.x_env with None -> "inherit" | Some l -> hexlist l) (if profile = "again" then " again=0,0,0,0" else ""))
      else emit (exec_str x code mode size profile)
    end
  | _ -> failwith "bad launch op"


(* ---- round 3: the process environment ------------------------------------------------------ *)
let pairs_str l = if l = [] then "none" else String.concat "," (List.map (fun (k, v) -> hex_of_bytes k ^ ":" ^ hex_of_bytes v) l)
let eq_z = z_of_int 61

(* ev <entry>: one string of the initial ::environ *)
let env_entry st e =
  st.environ <- st.environ @ [e];
  (match split_eq e with (k, Some v) -> st.emap <- em_put st.emap k v | (_, None) -> ())

let env_get is_model st name dflt =
  let v = if is_model then get_env_var name dflt st.environ else ref_get st.emap name dflt in
  emit ("get " ^ hex_of_bytes v)

let env_set is_model st name value =
  if is_model then begin
    let (ok, e) = set_env_var name value st.environ in
    st.environ <- e;
    emit (Printf.sprintf "set %d | %s" (b2i ok) (hexlist e))
  end else begin
    let (ok, m) = ref_set st.emap name value in
    st.emap <- m;
    (* the bool result of removing a variable (empty value) is not part of the property's statement *)
    emit (if value = [] then "set ?" else Printf.sprintf "set %d" (b2i ok))
  end

let env_vars is_model st =
  emit ("vars " ^ pairs_str (if is_model then get_env_vars st.environ else ref_vars st.emap))

(* what a child started with an empty environment map sees: the strings of ::environ *)
let env_child is_model st =
  if is_model then
    emit (Printf.sprintf "child %s | %s"
            (hexlist (List.map (fun (k, v) -> k @ (eq_z :: v)) (get_env_vars st.environ))) (hexlist st.environ))
  else emit ("child " ^ hexlist (List.map (fun (k, v) -> k @ (eq_z :: v)) (ref_vars st.emap)))

(* ---- round 3: the Process object ------------------------------------------------------------- *)
let name_of st fd =
  if fd = 0 then "0" else
  match Hashtbl.find_opt st.names fd with
  | Some n -> n
  | None -> let n = Printf.sprintf "f%d" st.next_name in st.next_name <- st.next_name + 1; Hashtbl.replace st.names fd n; n

let ev_str st (e : kev) = match e with
  | KPipe (r, w) -> let a = name_of st (int_of_z r) in let b = name_of st (int_of_z w) in "pipe:" ^ a ^ ":" ^ b
  | KPipeFail -> "pipefail"
  | KDup d -> "dup:" ^ name_of st (int_of_z d)
  | KDupFail -> "dupfail"
  | KClose fd -> let n = name_of st (int_of_z fd) in Hashtbl.remove st.names (int_of_z fd); "close:" ^ n
  | KVfork _ -> "vfork"
  | KVforkFail -> "vforkfail"
  | KKill _ -> "kill"
  | KWait (_, Some s) -> "wait:ok:" ^ string_of_int (int_of_z s)
  | KWait (_, None) -> "wait:fail"
  | KSelect -> "select"
  | KRead fd -> "read:" ^ name_of st (int_of_z fd)
  | KWrite fd -> "write:" ^ name_of st (int_of_z fd)

(* results are printed as the caller sees them (ProcSpec.seen is applied first): a refusal is a failed call *)
let res_str (r : pres) = match r with
  | RRefused -> "refused"            (* not reached: seen never leaves RRefused *)
  | RBool b -> if b then "1" else "0"
  | RJoin c -> "1:" ^ string_of_int (int_of_z c)
  | RIo n -> let n = int_of_z n in if n > 0 then "data" else if n = 0 then "eof" else "err"
  | RIo2 (n, s) -> let n = int_of_z n in (if n > 0 then "data" else if n = 0 then "eof" else "err") ^ ":" ^ string_of_int (int_of_z s)
  | RUnit -> "-"

let rec drop n l = if n <= 0 then l else match l with [] -> [] | _ :: t -> drop (n - 1) t

(* the kernel's answers, as the harness arranges them: fresh descriptors; injected failures;
   with `fd0` the parent's descriptor 0 is closed, so every pipe() hands out 0 as its read end *)
let pobj_op is_model st opname (args : string list) =
  let has f = List.mem f args in
  let fresh () = let n = st.next_fd in st.next_fd <- n + 1; z_of_int n in
  let streams = (match args with s :: _ when opname = "popen" || opname = "pclose" || opname = "pread2" -> int_of_string s | _ -> 0) in
  let wait_ans () =
    if has "waitfail" then None
    else Some (z_of_int (match st.death with Some sg -> sg | None -> if opname = "pkill" then 9 else st.child_code * 256)) in
  let op : pop = match opname with
    | "popen" ->
      let nth_req = ref 0 in
      let ans bit =
        if streams land bit = 0 then { pa_res = None; pa_dup = None }
        else begin
          incr nth_req;
          if has (Printf.sprintf "pipefail%d" !nth_req) then { pa_res = None; pa_dup = None }
          else if has "fd0" then
            let w = fresh () in
            { pa_res = Some (z_of_int 0, w); pa_dup = (if has "dupfail" then None else Some (fresh ())) }
          else let r = fresh () in let w = fresh () in { pa_res = Some (r, w); pa_dup = None }
        end in
      let a1 = ans 1 in let a2 = ans 2 in let a3 = ans 4 in
      POpen (z_of_int streams, a1, a2, a3, (if has "vforkfail" then None else Some (z_of_int 4242)))
    | "pstart" -> PStart (if has "vforkfail" then None else Some (z_of_int 4242))
    | "pjoin" | "pjoin0" -> PJoin (wait_ans ())
    | "pkill" -> PKill (wait_ans ())
    | "pdel" -> PDestroy (wait_ans ())
    | "pclose" -> PClose (z_of_int streams)
    | "pread" -> PRead (z_of_int 1)
    | "pread2" ->
      (* stdout (the child's header) is readable whenever it is open and asked for; otherwise stderr
         reports end-of-file once the child is gone *)
      let out_open = (match st.lst with LRunning (_, o, _, _) -> o | LIdle -> false) in
      if streams land 1 <> 0 && out_open then PRead2 (z_of_int streams, z_of_int 1, z_of_int 1)
      else PRead2 (z_of_int streams, z_of_int 2, z_of_int 0)
    | "pwrite" -> PWrite (z_of_int (match args with n :: _ -> int_of_string n | [] -> 1))
    | "prun" -> PIsRunning
    | _ -> failwith ("bad process op " ^ opname) in
  (* the reference state is advanced in both modes: the answers above look at it *)
  let before_lst = st.lst in
  let (lr, lst') = lstep st.lst op in
  (* a SIGKILL that was sent stays sent, whether or not the wait that follows succeeds *)
  (if opname = "pkill" && st.lst <> LIdle && st.death = None then st.death <- Some 9);
  (* a new child: nothing has been sent to it yet *)
  (if st.lst = LIdle && lst' <> LIdle then st.death <- None);
  st.lst <- lst';
  let running l = (match l with LIdle -> 0 | LRunning _ -> 1) in
  (* join() without arguments does not hand out the exit code *)
  let res_text r = let r = seen op r in if opname = "pjoin0" then (match r with RJoin _ -> "1" | _ -> res_str r) else res_str r in
  (* reference side: a child ended by a signal has no exit code - join says "joined", the number is not specified *)
  let res_text_spec r = (match seen op r with
      | RJoin _ when opname = "pjoin" && not (join_code_specified op) -> "1:?"
      | _ -> res_text r) in
  (* model-only: the errno class a failed call leaves - EINVAL where the object itself declines, the kernel's otherwise *)
  let errno_class (r : pres) = (match r with
      | RRefused -> "EINVAL"
      | RBool false when opname <> "prun" -> "other"
      | RIo n when int_of_z n < 0 -> "other"
      | _ -> "-") in
  (* noted, outside the statement: after open() with a failing vfork or a destructor whose join fails
     descriptors may stay open; read(buffer, length)/write() without their stream go to descriptor 0 *)
  (if (opname = "popen" && has "vforkfail" && before_lst = LIdle) || (opname = "pdel" && has "waitfail" && before_lst <> LIdle)
   then st.leaky <- true);
  let stream_open = (match before_lst, opname with
      | LRunning (_, o, _, _), "pread" -> o
      | LRunning (_, _, _, i), "pwrite" -> i
      | LIdle, ("pread" | "pwrite") -> false
      | _ -> true) in
  if is_model then begin
    let before = List.length st.world.w_log in
    let ((r, s'), w') = pstep op st.pobj st.world in
    st.pobj <- s'; st.world <- w';
    let new_evs = drop before w'.w_log in
    (* descriptor 0 of the harness is a scratch file of 64 bytes: a read takes them all, a write of n bytes moves n *)
    let in0 = List.fold_left (fun a (e : kev) -> match e with
        | KRead fd when int_of_z fd = 0 -> 64
        | KWrite fd when int_of_z fd = 0 -> (match args with n :: _ -> int_of_string n | [] -> 1)
        | _ -> a) 0 new_evs in
    let evs = List.map (ev_str st) new_evs in
    let nzb x = if int_of_z x <> 0 then 1 else 0 in
    emit (Printf.sprintf "%s %s run %d held %d stray %d in0 %d | out=%d err=%d in=%d errno=%s | %s" opname (res_text r)
            (nzb s'.p_pid) (List.length w'.w_fds) (List.length w'.w_stray) in0
            (nzb s'.p_out) (nzb s'.p_err) (nzb s'.p_in) (errno_class r)
            (if evs = [] then "-" else String.concat "," evs))
  end else
    emit (Printf.sprintf "%s %s run %d held %s stray 0 in0 %s" opname (if stream_open then res_text_spec lr else "?") (running lst')
            (if st.leaky then "?" else string_of_int (int_of_nat (lheld lst'))) (if stream_open then "0" else "?"))

(* Process::wait(&object, 1) / Process::interrupt(): not part of the Coq model; what is expected is worked out here
   from the code's two static variables (both modes print the same result).  interrupt(): when no interrupt is
   pending, either sets the flag (-1) or - when an earlier wait() left waitState at 2 - starts a dummy child whose
   end wakes waitid.  wait(): a pending flag is consumed and 0 returned; a pending dummy child is reaped and 0
   returned; otherwise waitid(WNOWAIT) reports the object once its child has ended (it stays un-reaped), or fails
   (no child at all) and 0 is returned. *)
let pobj_wait is_model st opname =
  let log = ref "-" in
  let r = (match opname with
      | "pintr" ->
        (if st.signaled = 0 then
           (if st.wait_state = 2 then (st.signaled <- 1; log := "vfork") else st.signaled <- -1));
        "-"
      | _ ->
        if st.signaled = -1 then (st.signaled <- 0; "0")
        else if st.signaled = 1 then (st.signaled <- 0; st.wait_state <- 0; log := "wait:ok:0"; "0")
        else (st.wait_state <- 2; if st.lst <> LIdle then "1" else "0")) in
  let running = (match st.lst with LIdle -> 0 | LRunning _ -> 1) in
  if is_model then begin
    let s = st.pobj and w = st.world in
    let nzb x = if int_of_z x <> 0 then 1 else 0 in
    emit (Printf.sprintf "%s %s run %d held %d stray %d in0 0 | out=%d err=%d in=%d errno=- | %s" opname r (nzb s.p_pid)
            (List.length w.w_fds) (List.length w.w_stray) (nzb s.p_out) (nzb s.p_err) (nzb s.p_in) !log)
  end else
    emit (Printf.sprintf "%s %s run %d held %s stray 0 in0 0" opname r running
            (if st.leaky then "?" else string_of_int (int_of_nat (lheld st.lst))))

(* split(join(words)) = words : the reference side of the round trip is the word list itself *)
let roundtrip is_model joined words =
  let ws = List.map bytes_of_hex words in
  if join_words_bs ws <> bytes_of_hex joined then emit "! bad-join"
  else if is_model then (match split_model (join_words_bs ws) with
      | Ok r -> emit (words_str r) | Oob -> emit "! oob" | Fuel -> emit "! timeout")
  else emit (words_str ws)

let on_op is_model st _ toks =
  (match toks with
   | ["s"; h] -> st.strs <- st.strs @ [bytes_of_hex h]
   | ["env"; k; v] -> st.env <- st.env @ [(bytes_of_hex k, bytes_of_hex v)]
   | ["parse"] -> if st.table = [] then emit "?no-table" else if is_model then parse_model st else parse_spec st
   | ["parse0"] ->     (* Arguments(0, ...): no strings at all, not even argv[0] *)
     let st0 = { st with strs = [] } in
     if st.table = [] then emit "?no-table" else if is_model then parse_model st0 else parse_spec st0
   | ["getopt"] -> ()
   | ["split"; h] ->
     if is_model then (match split_model (bytes_of_hex h) with
         | Ok ws -> emit (words_str ws) | Oob -> emit "! oob" | Fuel -> emit "! timeout")
     else (match split_seen (bytes_of_hex h) with
         | Some ws -> emit (words_str ws)
         | None -> emit "words ??*")        (* outside the property's class of command lines: any word list *)
   | "launch" :: _ -> launch is_model st toks
   | "rt" :: joined :: words -> roundtrip is_model joined words
   | ["ev"; e] -> env_entry st (bytes_of_hex e)
   | ["eget"; n; d] -> env_get is_model st (bytes_of_hex n) (bytes_of_hex d)
   | ["eset"; n; v] -> env_set is_model st (bytes_of_hex n) (bytes_of_hex v)
   | ["evars"] -> env_vars is_model st
   | ["echild"] -> env_child is_model st
   | ["psig"; sg] -> st.death <- (match st.death with None -> Some (int_of_string sg) | d -> d)
   | [("pwait" | "pintr") as o] -> pobj_wait is_model st o
   | o :: args when String.length o > 1 && o.[0] = 'p' && List.mem o ["popen"; "pstart"; "pjoin"; "pjoin0"; "pkill"; "pdel"; "pclose"; "pread"; "pread2"; "pwrite"; "prun"] ->
     pobj_op is_model st o args
   | _ -> failwith ("bad op: " ^ String.concat " " toks));
  st

let () =
  let mode = Sys.argv.(1) and file = Sys.argv.(2) in
  run_cases file (fun cfg -> fresh cfg) (on_op (mode = "model")) (fun _ -> ())
